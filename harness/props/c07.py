"""C07 — every serialisation format round-trips contexts, concepts and lattices."""
import itertools
import json
import os
import random
import tempfile

import gen as G
from implutil import BACKENDS, exc_name

RULE = ('case = (format, table, names, backend[, separator/words | description]) for formal contexts (cxt, csv via a '
        'temp file, json, pandas), a many-valued table with its pattern-structure classes (json), a context + miner '
        '(concept to_dict/json), or a context whose lattice is written and read (json); exhaustive over all tables up '
        'to the tier scope x ordered distinct names from a pool of admissible names (leading/trailing blanks, the '
        'other separators, X and .) x 3 backends, then seeded random larger tables/names; directed streams: (H3/H6) '
        'extreme and degenerate values in every position (interval borders -inf/-1/-0.0/2.5/inf in all 25 ordered pairs '
        '— proper, improper, points — for both interval classes, the largest / smallest doubles, 2**53+1, empty sets, '
        'big integers) and token-like strings (null, Infinity, NaN, true, the empty-set sign, the library\'s own separators, '
        'quotes, backslashes, control characters, non-BMP) as set members, object / attribute names and descriptions; '
        '(H1/H2/H4/H5) histories on ONE object: use (every writer, hash, hash_fixed, data, ==, lattice, ...), mutate through '
        'one public route (own setters, setters / in-place edits of contained pattern structures and of the bintable, item '
        'assignment on returned name lists, replacing a pattern structure incl. by one of the other interval class, edits of '
        'the table handed out by MVContext.data, add/remove/del on lattices with and without cache filling, concept '
        'measures; hash()-preserving -1<->-2 and adler32-preserving edits of cells, names and boolean tables), write + read '
        'back, judged against the CURRENT content tracked by the harness itself; earlier read-back objects must keep their '
        'content and the source must not change when a read-back object is edited; '
        'non-trivial = mixed table (formal) / any many-valued or concept case; distinct = distinct case dict')
EXHAUSTIVE = {
    'quick': 'cxt,json,pandas: all tables n,m<=2 x all ordered distinct object/attribute names from a 6-name pool x 3 backends; '
             '(pandas 2x2: numpy backend only); csv: same for each separator in , ; TAB SPACE with a 5-name pool (incl. the empty '
             'name and the other separators) free of that separator; '
             'lattices+concepts (every miner): all tables n,m<=3 x 3 backends (lattice when >=3 concepts); '
             'many-valued: all class pairs (4 classes, m<=2) x small value grids, n<=2; interval cells: all 25 ordered border '
             'pairs + 5 points over {-inf,-1,-0.0,2.5,inf} x 2 interval classes (context, pattern concept, lattice); '
             'histories: FormalContext 11 uses x 8 routes x 4 formats x 3 backends (+ all format pairs written before/after); '
             'MVContext 4 column classes x 11 uses x 13 routes',
    'thorough': 'quick scope + tables n,m<=3 with a 4-name pool for the text formats; lattices of all tables n*m<=12 (n,m<=4); '
                'lattice histories over every mixed table n,m<=3'}
EXPLANATION = ('the writer text of the implementation is compared byte-for-byte with the model writer, the model reader '
               'is run on both texts and compared with the implementation reader; the property oracle is: read-back == '
               'original under the library == AND field-wise.  Theorems Fca.C07.* prove model read(write K) = K for all '
               'admissible K: text level for cxt/csv (any separator string), tree level for the json formats of formal '
               'and many-valued contexts, formal and pattern concepts and their lattices (nested value texts under an '
               'explicit loads(dumps j)=j hypothesis, which is PROVED for interval cells with any JSON float literals — '
               '±Infinity included — in either position).  In a history every `check` is judged like a one-shot case whose '
               'original is the current content (mv_json_roundtrip_history / context_roundtrip_history: the writer depends '
               'on the current content only).')
ASSUMPTIONS = ['object/attribute names pairwise distinct; tables with n,m >= 1',
               'cxt names: non-empty, no newline; csv fields (names, word_true, word_false): no character of the separator, '
               'no \\n, no \\r (the csv reader only takes a path and text-mode files translate \\r); the separator is any '
               'non-empty string without \\n/\\r; word_true != word_false',
               'SetPS values are sets of ints or sets of strings (mixed sets cannot be sorted by the writer; sets of floats '
               'are not modelled)',
               'floats are compared through the literal json.dumps writes (repr; Infinity / -Infinity); nan is not generated '
               '(nan != nan)',
               'in-place assignments into ps.data use values in the stored form (float pairs, sets, bools)',
               'MVContext.attribute_names = [list] is an ordinary route (renames the pattern structures too since 94822bb); '
               'item assignment on the aliased attribute-name list and attribute_names = None bypass that renaming '
               '(ps.name stays behind) and are outside the scope (recorded in the outside-scope stream); names are '
               'given as lists (a tuple of names makes == raise against the read-back list)',
               'lattices have >= 3 concepts (writer precondition); children_dict of the original lattice is the cover '
               'relation of extent inclusion (C12); after add/remove/del the lattice\'s own children_dict/top/bottom are judged '
               'against the cover relation recomputed from its concepts']
TRUSTED = ['json.dumps/json.loads as mutually inverse on JSON trees (the model has its own dumps/loads, compared with '
           'CPython on every case; proved inverse only on interval value trees)',
           'text-mode file I/O = universal-newline translation; pandas DataFrame construction/.values.tolist()',
           'POSet internals behind ConceptLattice(concepts) are modelled by their specification '
           '(descendants/ancestors/children by definition; see C09/C12)',
           'int() modelled on non-empty ASCII digit strings only']
CHUNK = 1500
REQUESTS_NEED_IMPL = True

POOL = ['a', ' b', 'c ', ' ', 'X.', ',;\t']
CSV_SEPS = [',', ';', '\t', ' ']
CSV_POOL_ALL = ['a', ' b', '', ',', ';', '\t', ' ', 'c ', 'x,y', 'X;']
MULTI_SEPS = ['::', ' | ', '\t\t', '<=>', 'ab']
WORDS = [('True', 'False'), ('1', '0'), ('X', ''), ('yes', 'no'), ('', '.')]
RCHARS = 'abXY .,;\t-_é"\\/∅'
PTYPES = ['IntervalPS', 'SetPS', 'AttributePS', 'IntervalNumpyPS']
FMT_BACKENDS = BACKENDS


# ------------------------------------------------------------------------------------------------
# generators
# ------------------------------------------------------------------------------------------------
def csv_pool(sep):
    return [x for x in CSV_POOL_ALL if sep not in x]


def _names(pool, k):
    return [list(p) for p in itertools.permutations(pool, k)]


def _ctx_cases(stream, rows, objs, attrs, fmts, rng=None, csv_kw=None, descr=None, backends=None):
    for be in (backends or FMT_BACKENDS):
        for fmt in fmts:
            c = dict(stream=stream, fmt=fmt, be=be, rows=rows, objs=objs, attrs=attrs)
            if fmt == 'csv':
                c.update(csv_kw or dict(sep=',', wt='True', wf='False'))
            if fmt == 'json':
                c['descr'] = descr
            yield c


def rand_name(rng, forbid=''):
    while True:
        s = ''.join(rng.choice(RCHARS) for _ in range(rng.randint(1, 4)))
        if not any(ch in s for ch in forbid):
            return s


def rand_names(rng, k, forbid='', allow_empty=False):
    out = []
    while len(out) < k:
        s = '' if allow_empty and rng.random() < 0.05 else rand_name(rng, forbid)
        if s not in out:
            out.append(s)
    return out


def mv_value(rng, ptype, kind):
    if ptype in ('IntervalPS', 'IntervalNumpyPS'):
        grid = [0, 1, 2, 3, -1, 2.5, -1.5, 0.125, 100, 1e-3, 7.75]
        if rng.random() < 0.5:
            return rng.choice(grid)
        a, b = sorted([rng.choice(grid), rng.choice(grid)])
        return [a, b]
    if ptype == 'SetPS':
        base = [1, 2, 3, 10, -4] if kind == 'int' else ['a', 'b', 'B', ' c', 'é', '']
        return {'set': sorted(rng.sample(base, rng.randint(0, 3)))}
    return rng.random() < 0.5


def mv_case(rng, stream, n, types, permute=False):
    m = len(types)
    attrs = rand_names(rng, m)
    objs = rand_names(rng, n)
    kinds = [rng.choice(['int', 'str']) for _ in types]
    data = [[mv_value(rng, t, k) for t, k in zip(types, kinds)] for _ in range(n)]
    order = list(range(m))
    if permute:
        order = order[::-1] if m == 2 else rng.sample(order, m)
        if order == list(range(m)):
            order = order[1:] + order[:1]
    return dict(stream=stream, fmt='mv', objs=objs, attrs=attrs, types=types, data=data, order=order,
                descr=rng.choice([None, 'mv', 'a "quoted"\nline']), permuted=bool(permute))


MINERS_F = ['close_by_one', 'close_by_one_objectwise', 'close_by_one_objectwise_fbarray', 'sofia', 'lindig', 'from_objects']
MINERS_MV = ['close_by_one', 'close_by_one_objectwise', 'from_objects']


# ================================================================================================
# classes H3 / H6: extreme and degenerate values in every position, names that look like tokens
# ================================================================================================
INTERVAL_T = ('IntervalPS', 'IntervalNumpyPS')
# numbers travel inside cases as JSON numbers, or as strings where JSON cannot carry them exactly
EXT5 = ['-inf', -1, '-0.0', 2.5, 'inf']
EXTREMES = ['inf', '-inf', '-0.0', 0, 0.0, 1, 1.0, -1, -2, -1.0, -2.0, '1.7976931348623157e+308', '-1.7976931348623157e+308',
            '5e-324', '-5e-324', '2.2250738585072014e-308', 1e16, 1e-7, 1e22, 1e21, 123456789.12345679, 0.1,
            0.30000000000000004, 9007199254740993, -9007199254740993, 2 ** 63, 131, 212]
TOKENS = ['null', 'Infinity', '-Infinity', 'NaN', 'true', 'false', 'None', 'True', 'False', '∅', 'a, b', 'a', 'b', ', ', ': ',
          'x: y', '[]', '{}', '[1.0, 2.0]', '"', '\\', '\\u0041', '\\n', '0', '1', '-1', '1.0', 'inf', 'nan', ' ', '', 'not a',
          'a_from', 'a_to', 'PTypes', 'Data', 'X', '.', 'BOTTOM', 'BOTTOM_PLACEHOLDER', '\x00', '\x7f', ' ', '\U0001F600',
          'é', '\t', 'a;b', "'", '(1.0, 2.0)', 'm: ∅']
INT_ATOMS = [0, 1, -1, -2, 2 ** 31, 2 ** 63, -2 ** 63 - 1, 2 ** 64, 10 ** 30]


def _mv(stream, fmt, objs, attrs, types, data, descr=None, **kw):
    return dict(stream=stream, fmt=fmt, objs=objs, attrs=attrs, types=types, data=data, order=list(range(len(types))),
                descr=descr, permuted=False, **kw)


def gen_extremes(tier, rng):
    # (1) every ordered pair of EXT5 as (left, right) — proper, improper and point intervals, infinities on either
    #     border — and every single number, for both interval classes: alone (1 object) and five at a time
    for T in INTERVAL_T:
        cells = [[a, b] for a in EXT5 for b in EXT5] + list(EXT5)
        for v in cells:
            yield _mv('mv-extremes', 'mv', ['g'], ['m'], [T], [[v]])
            yield _mv('mv-extremes', 'pc', ['g'], ['m'], [T], [[v]], miner='from_objects')
        for k in range(0, len(cells), 5):
            chunk = cells[k:k + 5]
            objs = ['g%d' % i for i in range(len(chunk))]
            yield _mv('mv-extremes', 'mv', objs, ['m'], [T], [[v] for v in chunk])
            yield _mv('mv-extremes', 'mvlat', objs, ['m'], [T], [[v] for v in chunk])
            yield _mv('mv-extremes', 'pc', objs, ['m'], [T], [[v] for v in chunk], miner='close_by_one')
    # (2) the longer list of extremes on both borders, several columns
    for _ in range(24 if tier == 'quick' else 200):
        n, m = rng.randint(1, 4), rng.randint(1, 3)
        types = [rng.choice(INTERVAL_T) for _ in range(m)]
        data = [[rng.choice(EXTREMES) if rng.random() < 0.4 else [rng.choice(EXTREMES), rng.choice(EXTREMES)] for _ in range(m)]
                for _ in range(n)]
        objs, attrs = rng.sample(TOKENS, n), rng.sample(TOKENS, m)
        for fmt, kw in (('mv', {}), ('mvlat', {}), ('pc', dict(miner=rng.choice(MINERS_MV)))):
            yield _mv('mv-extremes-random', fmt, objs, attrs, types, data, descr=rng.choice([None, 'null', '']), **kw)
    # (3) token-like strings as set members, as object / attribute / pattern-structure names and as description;
    #     empty sets; extreme integers
    n = len(TOKENS)
    yield _mv('mv-tokens', 'mv', list(TOKENS), ['∅', 'null', 'true'], ['SetPS', 'SetPS', 'AttributePS'],
              [[{'set': [t]}, {'set': []}, i % 2 == 0] for i, t in enumerate(TOKENS)], descr='null')
    yield _mv('mv-tokens', 'mv', ['g%d' % i for i in range(len(INT_ATOMS))], ['a, b', 'a'], ['SetPS', 'SetPS'],
              [[{'set': [x]}, {'set': sorted(INT_ATOMS[:i])}] for i, x in enumerate(INT_ATOMS)], descr='Infinity')
    for _ in range(16 if tier == 'quick' else 120):
        n, m = rng.randint(1, 4), rng.randint(1, 3)
        types = [rng.choice(PTYPES) for _ in range(m)]
        kinds = [rng.choice(['tok', 'int']) for _ in range(m)]

        def cell(t, k):
            if t in INTERVAL_T:
                return rng.choice(EXTREMES)
            if t == 'SetPS':
                pool = TOKENS if k == 'tok' else INT_ATOMS
                return {'set': sorted(rng.sample(pool, rng.randint(0, 3)))}
            return rng.random() < 0.5
        data = [[cell(t, k) for t, k in zip(types, kinds)] for _ in range(n)]
        objs, attrs = rng.sample(TOKENS, n), rng.sample(TOKENS, m)
        for fmt, kw in (('mv', {}), ('mvlat', {}), ('pc', dict(miner=rng.choice(MINERS_MV)))):
            yield _mv('mv-tokens', fmt, objs, attrs, types, data, descr=rng.choice([None] + TOKENS), **kw)
    # (4) formal contexts whose names are tokens (json / pandas: any string; cxt: non-empty, no newline; csv: the words
    #     True / False themselves as names)
    text_tokens = [t for t in TOKENS if t and '\n' not in t]
    for _ in range(16 if tier == 'quick' else 120):
        rows = G.random_table(rng, 4, 4)
        n, m = len(rows), len(rows[0])
        be = rng.choice(FMT_BACKENDS)
        yield from _ctx_cases('ctx-tokens', rows, rng.sample(TOKENS, n), rng.sample(TOKENS, m), ('json', 'pandas'),
                              descr=rng.choice([None] + TOKENS), backends=(be,))
        yield from _ctx_cases('ctx-tokens', rows, rng.sample(text_tokens, n), rng.sample(text_tokens, m), ('cxt',), backends=(be,))
        sep = rng.choice(CSV_SEPS)
        pool = [t for t in TOKENS if not any(ch in t for ch in sep + '\n\r')]
        yield from _ctx_cases('ctx-tokens', rows, rng.sample(pool, n), rng.sample(pool, m), ('csv',),
                              csv_kw=dict(sep=sep, wt='True', wf='False'), backends=(be,))
    # concepts / lattices of contexts named by tokens (names go into Ext.Names / Int.Names)
    for _ in range(6 if tier == 'quick' else 40):
        rows = G.random_table(rng, 4, 4)
        n, m = len(rows), len(rows[0])
        be = rng.choice(FMT_BACKENDS)
        objs, attrs = rng.sample(TOKENS, n), rng.sample(TOKENS, m)
        yield dict(stream='ctx-tokens', fmt='lat', be=be, rows=rows, objs=objs, attrs=attrs, mono=False)
        yield dict(stream='ctx-tokens', fmt='fc', be=be, rows=rows, objs=objs, attrs=attrs, miner=rng.choice(MINERS_F))


# ================================================================================================
# classes H1 / H2 / H4 / H5: histories on ONE object between two writes
# ================================================================================================
# A history case carries the initial content and a list of steps.  `['use', name]` calls something that may warm a
# memo (never judged here), a mutation step changes the content through one public route, `['check', ...]` writes the
# object, reads the text back and is judged against the CURRENT content.  The current content is tracked by the
# harness itself (a "shadow": plain python data updated by its own rules, never read from the object), so a stale
# getter cannot hide a stale writer.
CTX_USES = ['write_cxt', 'write_json', 'write_csv', 'to_pandas', 'hash', 'hash_fixed', 'to_list', 'eq', 'T', 'derive', 'repr']
CTX_ROUTES = ['objs', 'attrs', 'descr', 'table', 'table_native', 'h4_rows', 'h4_name_obj', 'h4_name_attr']
CTX_FMTS = ['cxt', 'json', 'csv', 'pandas']
MV_USES = ['write_json', 'hash_fixed', 'hash', 'data', 'eq', 'from_objects', 'intention', 'extension', 'lattice', 'to_numeric',
           'getitem']
MV_ROUTES = ['ps_data', 'ps_cell', 'ps_list', 'ps_item', 'ps_item_class', 'objs', 'obj_item', 'attrs', 'descr', 'alias_data', 'h4_pyhash_set',
             'h4_pyhash_cell', 'h4_adler_cell', 'h4_adler_name', 'h4_adler_attr']
LAT_USES = ['write_json', 'children_dict', 'parents_dict', 'descendants_dict', 'ancestors_dict', 'top_bottom', 'eq', 'T',
            'chains', 'measures']


def _other_names(rng, names, forbid=''):
    names = list(names)
    k = rng.randrange(3)
    if k == 0 and len(names) > 1:
        return names[1:] + names[:1]
    if k == 1:
        out = [x + 'x' for x in names]
        return out
    return rand_names(rng, len(names), forbid)


def _other_table(rng, rows):
    n, m = len(rows), len(rows[0])
    while True:
        k = rng.randrange(3)
        if k == 0:
            t = [[1 - v for v in r] for r in rows]
        elif k == 1:
            t = [list(r) for r in rows]
            i, j = rng.randrange(n), rng.randrange(m)
            t[i][j] = 1 - t[i][j]
        else:
            t = [[int(rng.random() < 0.5) for _ in range(m)] for _ in range(n)]
        if t != [list(r) for r in rows]:
            return t


def ctx_route_step(rng, route, sh, forbid):
    """one mutation step of a FormalContext history, built from the current shadow `sh`"""
    if route == 'objs':
        return ['objs', _other_names(rng, sh['objs'], forbid)]
    if route == 'attrs':
        return ['attrs', _other_names(rng, sh['attrs'], forbid)]
    if route == 'descr':
        return ['descr', rng.choice([d for d in (None, 'd', 'other "text"', '') if d != sh['descr']])]
    if route in ('table', 'table_native'):
        return ['table', _other_table(rng, sh['rows']), route == 'table_native', False]
    if route == 'h4_rows':
        t = G.adler_collide_rows(tuple(sh['objs']), tuple(sh['attrs']), sh['rows'])
        return ['table', t or _other_table(rng, sh['rows']), False, t is not None]
    k = 'objs' if route == 'h4_name_obj' else 'attrs'
    names = list(sh[k])
    for i, nm in enumerate(names):
        nm2 = G.adler_collide_name(nm)
        if nm2 is not None and nm2 not in names:
            names[i] = nm2
            return [k, names, True]
    return [k, _other_names(rng, sh[k], forbid)]


def ctx_shadow_apply(sh, st):
    sh = dict(sh)
    if st[0] in ('objs', 'attrs', 'descr'):
        sh[st[0]] = st[1]
    elif st[0] == 'table':
        sh['rows'] = [list(r) for r in st[1]]
    return sh


def _mv_col_values(rng, t, n, cur=None):
    """a fresh column (case encoding) for class `t`, different from `cur`"""
    while True:
        col = [mv_value(rng, t, 'str') for _ in range(n)]
        if t in INTERVAL_T and rng.random() < 0.3:
            col[rng.randrange(n)] = rng.choice(EXTREMES) if rng.random() < 0.5 else [rng.choice(EXTREMES), rng.choice(EXTREMES)]
        if cur is None or col != cur:
            return col


def _adler_twin(v):
    """a cell (case encoding) whose `str()` differs from that of `v` by an adler32-neutral edit; None if there is none"""
    def twin_num(x):
        if isinstance(x, (int, float)) and not isinstance(x, bool) and abs(x) < 1e15 and float(x) == int(x):
            s2 = G.adler_collide_name(str(int(x)))
            if s2 is not None and s2.isdigit():
                return type(x)(int(s2))
        return None
    if isinstance(v, dict) and len(v['set']) == 1 and isinstance(v['set'][0], str):
        s2 = G.adler_collide_name(v['set'][0])
        return {'set': [s2]} if s2 is not None else None
    if isinstance(v, list):
        a, b = twin_num(v[0]), twin_num(v[1])
        return [a, b] if a is not None and b is not None else None
    if isinstance(v, bool):
        return None
    return twin_num(v)


def _pyhash_twin(v):
    """-1 <-> -2 on every border (same CPython hash, other content)"""
    def tw(x):
        return G.pyhash_collide_value(x)
    if isinstance(v, list):
        a, b = tw(v[0]), tw(v[1])
        return [a, b] if a is not None and b is not None else None
    if isinstance(v, (dict, bool, str)):
        return None
    return tw(v)


def mv_route_step(rng, route, sh, col=None):
    """one mutation step of an MVContext history; `sh` = dict(objs, attrs, descr, types, cols) with `cols` in case encoding;
    `col` fixes the column the step works on"""
    m, n = len(sh['types']), len(sh['objs'])
    j = rng.randrange(m) if col is None else col
    if route.startswith('h4_') and route not in ('h4_adler_name', 'h4_adler_attr'):
        twin = _pyhash_twin if 'pyhash' in route else _adler_twin
        cands = [(jj, ii) for jj in range(m) for ii in range(n) if twin(sh['cols'][jj][ii]) is not None]
        if col is not None and any(jj == col for jj, _ in cands):
            cands = [x for x in cands if x[0] == col]
        if cands:
            jj, ii = cands[rng.randrange(len(cands))]
            v2 = twin(sh['cols'][jj][ii])
            if route == 'h4_pyhash_cell':
                return ['ps_cell', jj, ii, v2, route]
            col = list(sh['cols'][jj])
            col[ii] = v2
            return ['ps_data', jj, col, route]
        route = 'ps_data'
    if route == 'h4_adler_name':
        names = list(sh['objs'])
        for i, nm in enumerate(names):
            nm2 = G.adler_collide_name(nm)
            if nm2 is not None and nm2 not in names:
                names[i] = nm2
                return ['objs', names, route]
        route = 'objs'
    if route == 'h4_adler_attr':
        names = list(sh['attrs'])
        for i, nm in enumerate(names):
            nm2 = G.adler_collide_name(nm)
            if nm2 is not None and nm2 not in names:
                names[i] = nm2
                return ['attrs', names, route]
        route = 'attrs'
    if route == 'attrs':               # `K.attribute_names = [...]`: renames the attributes AND the pattern structures (D25)
        return ['attrs', _other_names(rng, sh['attrs'])]
    if route == 'ps_item_class':       # the structure is replaced by one of the OTHER interval class (same or new column)
        if sh['types'][j] not in INTERVAL_T:
            cands = [jj for jj in range(m) if sh['types'][jj] in INTERVAL_T]
            if not cands or col is not None:
                route = 'ps_item'
            else:
                j = rng.choice(cands)
        if route == 'ps_item_class':
            other = 'IntervalNumpyPS' if sh['types'][j] == 'IntervalPS' else 'IntervalPS'
            return ['ps_item_class', j, other, list(sh['cols'][j]) if rng.random() < 0.5 else _mv_col_values(rng, other, n, sh['cols'][j])]
    if route in ('ps_data', 'ps_item'):
        return [route, j, _mv_col_values(rng, sh['types'][j], n, sh['cols'][j])]
    if route == 'ps_cell':
        i = rng.randrange(n)
        while True:
            v = mv_value(rng, sh['types'][j], 'str')
            if v != sh['cols'][j][i]:
                return ['ps_cell', j, i, v]
    if route == 'ps_list':
        cols = [list(c) for c in sh['cols']]
        cols[j] = _mv_col_values(rng, sh['types'][j], n, sh['cols'][j])
        return ['ps_list', cols]
    if route == 'objs':
        return ['objs', _other_names(rng, sh['objs'])]
    if route == 'obj_item':
        i = rng.randrange(n)
        return ['obj_item', i, sh['objs'][i] + '*']
    if route == 'descr':
        return ['descr', rng.choice([d for d in (None, 'd', 'null', '') if d != sh['descr']])]
    if route == 'alias_data':
        i = rng.randrange(n)
        while True:
            v = mv_value(rng, sh['types'][j], 'str')
            if v != sh['cols'][j][i]:
                return ['alias_data', i, j, v]
    raise ValueError(route)


def mv_shadow_apply(sh, st):
    sh = dict(sh, cols=[list(c) for c in sh['cols']])
    if st[0] in ('ps_data', 'ps_item'):
        sh['cols'][st[1]] = list(st[2])
    elif st[0] == 'ps_item_class':
        sh['types'] = list(sh['types'])
        sh['types'][st[1]] = st[2]
        sh['cols'][st[1]] = list(st[3])
    elif st[0] == 'ps_cell':
        sh['cols'][st[1]][st[2]] = st[3]
    elif st[0] == 'ps_list':
        sh['cols'] = [list(c) for c in st[1]]
    elif st[0] == 'objs':
        sh['objs'] = list(st[1])
    elif st[0] == 'obj_item':
        sh['objs'] = list(sh['objs'])
        sh['objs'][st[1]] = st[2]
    elif st[0] == 'attrs':
        sh['attrs'] = list(st[1])
    elif st[0] == 'descr':
        sh['descr'] = st[1]
    return sh


HCTX_BASES = [
    dict(rows=[[0, 1, 1, 0], [1, 1, 0, 0]], objs=['bdb', ' g2'], attrs=['a', 'mdm ', 'X.', 'd;'], descr='d'),
    dict(rows=[[1, 0], [0, 0], [1, 1]], objs=['g 0', 'xyz', 'o'], attrs=['not a', 'pqp'], descr=None),
]
HMV_BASE_COLS = {
    'IntervalPS': [-1, [131, 212], 2.5], 'IntervalNumpyPS': [[-2, -1], 131, [0, 1]],
    'SetPS': [{'set': ['bdb']}, {'set': []}, {'set': ['a', 'b']}], 'AttributePS': [True, False, True]}


def _hmv_base(T, other=None):
    other = other or ('SetPS' if T != 'SetPS' else 'IntervalPS')
    return dict(objs=['bdb', 'g 1', 'o'], attrs=['mdm', 'm 1'], types=[T, other], descr=None,
                cols=[list(HMV_BASE_COLS[T]), list(HMV_BASE_COLS[other])])


def _hmv_case(stream, base, steps):
    n = len(base['objs'])
    return dict(stream=stream, fmt='hmv', objs=list(base['objs']), attrs=list(base['attrs']), types=list(base['types']),
                data=[[c[i] for c in base['cols']] for i in range(n)], order=list(range(len(base['types']))),
                descr=base['descr'], steps=steps)


def gen_histories(tier, rng):
    quick = tier == 'quick'
    # ---- FormalContext: every single use x every mutation route x every format written afterwards ------------------
    for bi, base in enumerate(HCTX_BASES):
        for be in FMT_BACKENDS:
            for route in CTX_ROUTES:
                st = ctx_route_step(rng, route, base, ',\n\r')
                for fmt in CTX_FMTS:
                    for use in CTX_USES:
                        if bi == 1 and not (quick is False or (CTX_USES.index(use) + CTX_FMTS.index(fmt)) % 3 == 0):
                            continue
                        yield dict(stream='hist-ctx', fmt='hctx', be=be, steps=[['use', use], st, ['check', fmt]], **base)
                    # written, changed, written again (each pair of formats)
                    for fmt0 in CTX_FMTS:
                        yield dict(stream='hist-ctx', fmt='hctx', be=be, steps=[['check', fmt0], st, ['check', fmt]], **base)
    # ---- FormalContext: random longer histories ----------------------------------------------------------------
    for _ in range(40 if quick else 600):
        rows = G.random_table(rng, 5, 5)
        n, m = len(rows), len(rows[0])
        sh = dict(rows=rows, objs=rand_names(rng, n, ',\n\r'), attrs=rand_names(rng, m, ',\n\r'), descr=rng.choice([None, 'd']))
        c = dict(stream='hist-ctx-random', fmt='hctx', be=rng.choice(FMT_BACKENDS), steps=[], **sh)
        for _ph in range(rng.randint(2, 4)):
            for u in rng.sample(CTX_USES, rng.randint(0, 3)):
                c['steps'].append(['use', u])
            c['steps'].append(['check', rng.choice(CTX_FMTS)])
            for r in rng.sample(CTX_ROUTES, rng.randint(1, 2)):
                st = ctx_route_step(rng, r, sh, ',\n\r')
                sh = ctx_shadow_apply(sh, st)
                c['steps'].append(st)
        for u in rng.sample(CTX_USES, rng.randint(0, 2)):
            c['steps'].append(['use', u])
        c['steps'].append(['check', rng.choice(CTX_FMTS)])
        yield c
    # ---- MVContext: every use x every route, for each class of the mutated column --------------------------------
    # (IntervalPS + AttributePS: every pattern structure is hashable, so hash(K) exists and -1 <-> -2 preserves it)
    for T, other in [(t, None) for t in PTYPES] + [('IntervalPS', 'AttributePS')]:
        base = _hmv_base(T, other)
        for route in MV_ROUTES:
            st = mv_route_step(random.Random(rng.random()), route, base, col=0)     # column 0 is the one of class T
            for use in MV_USES:
                yield _hmv_case('hist-mv', base, [['use', use], st, ['check']])
            yield _hmv_case('hist-mv', base, [['check'], st, ['check']])
            yield _hmv_case('hist-mv', base, [st, ['check']])
    # ---- MVContext: random longer histories ------------------------------------------------------------------------
    for _ in range(40 if quick else 600):
        m, n = rng.randint(1, 3), rng.randint(1, 4)
        types = [rng.choice(PTYPES) for _ in range(m)]
        sh = dict(objs=rand_names(rng, n), attrs=rand_names(rng, m), types=types, descr=rng.choice([None, 'mv']),
                  cols=[[mv_value(rng, t, 'str') for _ in range(n)] for t in types])
        if rng.random() < 0.3:         # seeds for the hash-preserving routes
            for j, t in enumerate(types):
                if t in INTERVAL_T:
                    sh['cols'][j][0] = rng.choice([-1, -2, [-1, -1], 131, [242, 242]])
                elif t == 'SetPS':
                    sh['cols'][j][0] = {'set': [rng.choice(['bdb', 'xyx'])]}
        c = _hmv_case('hist-mv-random', sh, [])
        for _ph in range(rng.randint(2, 4)):
            for u in rng.sample(MV_USES, rng.randint(0, 3)):
                c['steps'].append(['use', u])
            if rng.random() < 0.7:
                c['steps'].append(['check'])
            for r in rng.sample(MV_ROUTES, rng.randint(1, 2)):
                st = mv_route_step(rng, r, sh)
                sh = mv_shadow_apply(sh, st)
                c['steps'].append(st)
        c['steps'].append(['check'])
        yield c
    # ---- outside the scope (never judged, only recorded): `K.attribute_names = [...]` renames the pattern structures too
    #      since the repair 94822bb (D25; now an ordinary route, 'attrs').  Two forms still bypass that renaming and
    #      leave `ps.name` / `pattern_types` behind: item assignment on the aliased list `K.attribute_names[j] = ...`
    #      and `K.attribute_names = None` (reset to '0','1',...).  The file stores the attribute names only, so the
    #      context read back has OTHER pattern-structure names and `==` is False (MVOk.names excludes such contexts)
    for T in PTYPES:
        base = _hmv_base(T)
        yield _hmv_case('outside-scope', base, [['check'], ['attr_item_outside', 1, 'q'], ['check']])
        yield _hmv_case('outside-scope', base, [['check'], ['attrs_none_outside'], ['check']])
    # ---- lattices: written, a concept removed / re-added (with and without cache filling) / a measure set, written again ---
    lat_tabs = [t for i, t in enumerate(G.tables_upto(3, 3)) if len(t) >= 2 and len(t[0]) >= 2 and G.is_mixed(t)]
    lat_tabs = lat_tabs[::7] if quick else lat_tabs
    for ti, rows in enumerate(lat_tabs):
        n, m = len(rows), len(rows[0])
        objs, attrs = [f'g{i}' for i in range(n)], [' m%d' % j for j in range(m)]
        be = FMT_BACKENDS[ti % 3]
        for k in range(2):
            yield dict(stream='hist-lattice', fmt='hlat', be=be, rows=rows, objs=objs, attrs=attrs, mono=False,
                       steps=[['use', LAT_USES[(ti + k) % len(LAT_USES)]], ['check'], ['remove', k, k % 2 == 0], ['check'],
                              ['add_back', 0, (ti + k) % 2 == 0], ['check'], ['measure', k, 'stab', 0.5], ['check']])
    for _ in range(30 if quick else 400):
        rows = G.random_table(rng, 5, 5, 2, 2)
        n, m = len(rows), len(rows[0])
        c = dict(stream='hist-lattice-random', fmt='hlat', be=rng.choice(FMT_BACKENDS), rows=rows, objs=rand_names(rng, n, '\n'),
                 attrs=rand_names(rng, m, '\n'), mono=rng.random() < 0.2, steps=[])
        removed = 0
        for _ph in range(rng.randint(2, 5)):
            for u in rng.sample(LAT_USES, rng.randint(0, 3)):
                c['steps'].append(['use', u])
            if rng.random() < 0.6:
                c['steps'].append(['check'])
            k = rng.randrange(4)
            if k == 0 and removed:
                c['steps'].append(['add_back', rng.randrange(8), rng.random() < 0.6])
                removed -= 1
            elif k == 1:
                c['steps'].append(['measure', rng.randrange(8), rng.choice(['stab', 'Supp', 'x y', 'LStab']), rng.choice([0.5, 1, 0.25, 3])])
            else:
                c['steps'].append(['remove', rng.randrange(8), rng.random() < 0.5])
                removed += 1
        c['steps'].append(['check'])
        yield c
    for _ in range(12 if quick else 150):
        m, n = rng.randint(1, 2), rng.randint(2, 4)
        types = [rng.choice(PTYPES) for _ in range(m)]
        base = dict(objs=rand_names(rng, n), attrs=rand_names(rng, m), types=types, descr=None,
                    cols=[[mv_value(rng, t, 'str') for _ in range(n)] for t in types])
        c = _hmv_case('hist-mv-lattice', base, [['use', rng.choice(LAT_USES)], ['check'], ['remove', rng.randrange(4), rng.random() < 0.5],
                                                ['check'], ['add_back', 0, rng.random() < 0.5], ['check'],
                                                ['measure', rng.randrange(4), 'stab', 0.5], ['check']])
        c['fmt'] = 'hmvlat'
        yield c
    # ---- single concepts: written, a measure set (item assignment / whole dict), written again --------------------
    for _ in range(12 if quick else 100):
        rows = G.random_table(rng, 4, 4)
        n, m = len(rows), len(rows[0])
        yield dict(stream='hist-concept', fmt='hfc', be=rng.choice(FMT_BACKENDS), rows=rows, objs=rand_names(rng, n, '\n'),
                   attrs=rand_names(rng, m, '\n'), miner=rng.choice(MINERS_F),
                   steps=[['check'], ['measure', 0, rng.choice(['stab', 'x y']), rng.choice([0.5, 2])], ['check'],
                          ['measures', {'LStab': 0.25}], ['check']])
    for _ in range(8 if quick else 60):
        m, n = rng.randint(1, 3), rng.randint(1, 4)
        types = [rng.choice(PTYPES) for _ in range(m)]
        base = dict(objs=rand_names(rng, n), attrs=rand_names(rng, m), types=types, descr=None,
                    cols=[[mv_value(rng, t, 'str') for _ in range(n)] for t in types])
        c = _hmv_case('hist-concept', base, [['check'], ['measure', 0, 'stab', 0.5], ['check'], ['measures', {'LStab': 0.25}], ['check']])
        c.update(fmt='hpc', miner=rng.choice(MINERS_MV))
        yield c


def _sweep_stale_tempfiles(max_age_s=600):
    """a run that is cut short (pool.terminate after many failures) can leave a csv temp file behind"""
    import glob
    import time
    for p in glob.glob('/tmp/c07_*.csv'):
        try:
            if time.time() - os.path.getmtime(p) > max_age_s:
                os.unlink(p)
        except OSError:
            pass


def gen(tier, seed, boost=False):
    rng = random.Random(seed * 1000003 + 707)
    _sweep_stale_tempfiles()
    # corpus
    cdir = os.path.join(os.path.dirname(os.path.dirname(os.path.dirname(os.path.abspath(__file__)))), 'corpus', 'C07')
    if os.path.isdir(cdir):
        for f in sorted(os.listdir(cdir)):
            if f.endswith('.json'):
                c = json.load(open(os.path.join(cdir, f)))
                c['stream'] = 'corpus'
                yield c
    thorough = tier == 'thorough' or boost
    # ---- exhaustive: text/tree formats of formal contexts -----------------------------------------
    for n in (1, 2):
        for m in (1, 2):
            for rows in G.all_tables(n, m):
                for objs in _names(POOL, n):
                    for attrs in _names(POOL, m):
                        yield from _ctx_cases('exhaustive', rows, objs, attrs, ('cxt', 'json'),
                                              descr=None if (len(objs[0]) % 2) else 'd ' + attrs[0])
                        # the frame converters never look at the backend beyond data.to_list(): 2x2 on one backend
                        yield from _ctx_cases('exhaustive', rows, objs, attrs, ('pandas',),
                                              backends=('BinTableNumpy',) if n * m == 4 else None)
                for sep in CSV_SEPS:
                    pool = csv_pool(sep)[:5]
                    for objs in _names(pool, n):
                        for attrs in _names(pool, m):
                            yield from _ctx_cases('exhaustive', rows, objs, attrs, ('csv',),
                                                  csv_kw=dict(sep=sep, wt='True', wf='False'))
    if thorough:
        pool4 = POOL[:4]
        for rows in G.tables_upto(3, 3):
            n, m = len(rows), len(rows[0])
            if n <= 2 and m <= 2:
                continue
            for objs in _names(pool4, n)[::3]:
                for attrs in _names(pool4, m)[::3]:
                    yield from _ctx_cases('exhaustive-3x3', rows, objs, attrs, ('cxt', 'json', 'pandas', 'csv'))
    # ---- exhaustive: concepts of every miner and lattices of all small tables ----------------------
    lat_tables = list(G.tables_upto(3, 3))
    if thorough:
        lat_tables += [t for t in G.tables_upto(4, 4, cells=12) if len(t) > 3 or len(t[0]) > 3]
    for rows in lat_tables:
        n, m = len(rows), len(rows[0])
        objs, attrs = [f'g{i}' for i in range(n)], [' m%d' % j for j in range(m)]
        for be in FMT_BACKENDS:
            yield dict(stream='exhaustive-lattice', fmt='lat', be=be, rows=rows, objs=objs, attrs=attrs, mono=False)
            if n <= 2 or m <= 2 or thorough:
                yield dict(stream='exhaustive-lattice', fmt='lat', be=be, rows=rows, objs=objs, attrs=attrs, mono=True)
            if be == 'BinTableBitarray' or (n <= 2 and m <= 2):
                for miner in MINERS_F:
                    yield dict(stream='exhaustive-concepts', fmt='fc', be=be, rows=rows, objs=objs, attrs=attrs, miner=miner)
    # ---- many-valued: all class pairs over small grids -------------------------------------------------
    for m in (1, 2):
        for types in itertools.product(PTYPES, repeat=m):
            for n in (1, 2):
                for _ in range(3 if tier == 'quick' else 12):
                    yield mv_case(rng, 'mv-grid', n, list(types))
    # ---- directed: extreme / degenerate values and token-like names (H3, H6); histories (H1, H2, H4, H5) ----
    yield from gen_extremes(tier, random.Random(seed * 1000003 + 70703))
    yield from gen_histories(tier, random.Random(seed * 1000003 + 70701))
    # ---- seeded random larger cases ---------------------------------------------------------------------
    nrand = 150 if tier == 'quick' else 2500
    if boost:
        nrand *= 3
    for i in range(nrand):
        rows = G.random_table(rng, 6, 6)
        n, m = len(rows), len(rows[0])
        objs, attrs = rand_names(rng, n, '\n'), rand_names(rng, m, '\n')
        descr = rng.choice([None, '', 'some "text"\nwith\ttabs é'])
        yield from _ctx_cases('random', rows, objs, attrs, ('cxt', 'json', 'pandas'), descr=descr)
        sep = rng.choice(CSV_SEPS)
        wt, wf = rng.choice(WORDS)
        if sep in wt or sep in wf:
            wt, wf = 'True', 'False'
        yield from _ctx_cases('random', rows, rand_names(rng, n, sep + '\n\r', True), rand_names(rng, m, sep + '\n\r', True),
                              ('csv',), csv_kw=dict(sep=sep, wt=wt, wf=wf))
        # a multi-character separator: names and words share no character with it
        msep = rng.choice(MULTI_SEPS)
        mw = [w for w in WORDS if not any(ch in w[0] + w[1] for ch in msep)] or [('1', '0')]
        mwt, mwf = rng.choice(mw)
        forbid = msep + '\n\r'
        yield from _ctx_cases('random-multisep', rows, rand_names(rng, n, forbid, True), rand_names(rng, m, forbid, True),
                              ('csv',), csv_kw=dict(sep=msep, wt=mwt, wf=mwf), backends=(rng.choice(FMT_BACKENDS),))
        if i % 3 == 0:
            be = rng.choice(FMT_BACKENDS)
            o2, a2 = rand_names(rng, n, '\n'), rand_names(rng, m, '\n')
            yield dict(stream='random-lattice', fmt='lat', be=be, rows=rows, objs=o2, attrs=a2, mono=rng.random() < 0.3)
            yield dict(stream='random-concepts', fmt='fc', be=be, rows=rows, objs=o2, attrs=a2, miner=rng.choice(MINERS_F))
        if i % 2 == 0:
            types = [rng.choice(PTYPES) for _ in range(rng.randint(1, 4))]
            c = mv_case(rng, 'random-mv', rng.randint(1, 5), types, permute=len(types) > 1 and rng.random() < 0.4)
            yield c
            c2 = dict(c, fmt='mvlat', stream='random-mv-lattice')
            yield c2
            yield dict(c, fmt='pc', stream='random-mv-concepts', miner=rng.choice(MINERS_MV))
    # ---- pattern_types listed in another order than attribute_names (was finding F-C07-1, repaired) ---
    for _ in range(8 if tier == 'quick' else 24):
        types = [rng.choice(PTYPES) for _ in range(rng.randint(2, 3))]
        if len(set(types)) == 1:
            types[0] = 'SetPS' if types[0] != 'SetPS' else 'AttributePS'
        yield mv_case(rng, 'mv-permuted', rng.randint(1, 3), types, permute=True)
    # ---- malformed stream: the excluded points, on the real code ----------------------------------------
    nmal = 40 if tier == 'quick' else 300
    for _ in range(nmal):
        rows = G.random_table(rng, 3, 3)
        n, m = len(rows), len(rows[0])
        for fmt in ('cxt', 'csv'):
            sep = rng.choice(CSV_SEPS)
            forbid = '\n' + (sep + '\r' if fmt == 'csv' else '')
            objs, attrs = rand_names(rng, n, forbid), rand_names(rng, m, forbid)
            bad = rng.choice(['', 'a\nb', '\n', 'a\n', '\nb', 'a\n\nb'] + ([sep, 'a' + sep, sep + 'b', 'a\rb', '\r'] if fmt == 'csv' else []))
            if fmt == 'csv' and bad == '':
                bad = 'q' + sep          # the empty name is admissible for csv
            (objs if rng.random() < 0.5 else attrs)[0] = bad
            if rng.random() < 0.5 and len(objs) > 1:
                objs[0], objs[-1] = objs[-1], objs[0]
            if len(set(objs)) < len(objs) or len(set(attrs)) < len(attrs):
                continue
            c = dict(stream='malformed', fmt=fmt, be=rng.choice(FMT_BACKENDS), rows=rows, objs=objs, attrs=attrs)
            if fmt == 'csv':
                c.update(sep=sep, wt='True', wf='False')
            yield c
        # a multi-character separator that does not occur in a name but overlaps with it ('a' + 'aa')
        yield dict(stream='malformed', fmt='csv', be='BinTableBitarray', rows=rows, objs=['a'] + ['g%d' % i for i in range(1, n)],
                   attrs=['x%d' % j for j in range(m)], sep='aa', wt='True', wf='False')
        # csv words that contain the separator / coincide
        sep = rng.choice(CSV_SEPS)
        yield dict(stream='malformed', fmt='csv', be='BinTableBitarray', rows=rows, objs=rand_names(rng, n, sep + '\n\r'),
                   attrs=rand_names(rng, m, sep + '\n\r'), sep=sep, **rng.choice([dict(wt='T' + sep, wf='F'), dict(wt='T', wf='T'),
                                                                                dict(wt='T\n', wf='F')]))


# ------------------------------------------------------------------------------------------------
# implementation side
# ------------------------------------------------------------------------------------------------
def ctx_fields(K):
    return dict(objs=[x for x in K.object_names], attrs=[x for x in K.attribute_names],
                rows=[[int(bool(v)) for v in r] for r in K.data.to_list()], descr=K.description)


def lib_eq(a, b):
    try:
        r = a == b
        return bool(r)
    except Exception as e:
        return {'err': exc_name(e)}


def make_ctx(c):
    from fcapy.context import FormalContext
    return FormalContext(data=[[bool(v) for v in r] for r in c['rows']], object_names=list(c['objs']),
                         attribute_names=list(c['attrs']), description=c.get('descr'), backend=c['be'])


def _flt(x):
    """a float as the literal `json.dumps` writes (= `repr` for finite floats; `Infinity` / `-Infinity` / `NaN`)"""
    return json.dumps(float(x))


def _num(x):
    """numbers inside cases: plain JSON numbers, or strings for the ones JSON cannot carry exactly ('inf', '-0.0', ...)"""
    return float(x) if isinstance(x, str) else x


def dec_val(v):
    """a cell of a case's `data` as the python value handed to the library"""
    if isinstance(v, dict):
        return set(v['set'])
    if isinstance(v, list):
        return tuple(_num(x) for x in v)
    if isinstance(v, bool):
        return v
    return _num(v)


def norm_val(ptype_name, v):
    """what the class's `_transform_data` makes of one decoded value (the harness's own rule, not the library's)"""
    if ptype_name in ('IntervalPS', 'IntervalNumpyPS'):
        if isinstance(v, tuple):
            return (float(v[0]), float(v[-1]))
        return (float(v), float(v))
    if ptype_name == 'SetPS':
        return set(v) if isinstance(v, (set, frozenset, list, tuple)) else {v}
    return bool(v)


def pval(ptype_name, v):
    if ptype_name in ('IntervalPS', 'IntervalNumpyPS'):
        if v is None:
            return None
        return {'i': [_flt(v[0]), _flt(v[1])]}
    if ptype_name == 'SetPS':
        return {'s': sorted([x if isinstance(x, str) else int(x) for x in v])}
    return {'a': bool(v)}


def mv_fields(K):
    return dict(objs=list(K.object_names), attrs=list(K.attribute_names), descr=K.description,
                cols=[dict(name=ps.name, ptype=type(ps).__name__, data=[pval(type(ps).__name__, x) for x in ps.data])
                      for ps in K.pattern_structures])


def make_mv(c):
    from fcapy.mvcontext import MVContext, PS
    data = [[dec_val(v) for v in row] for row in c['data']]
    ptypes = {c['attrs'][j]: getattr(PS, c['types'][j]) for j in c['order']}
    return MVContext(data, pattern_types=ptypes, object_names=list(c['objs']), attribute_names=list(c['attrs']),
                     description=c.get('descr'))


def fc_fields(x):
    return dict(extent_i=[int(i) for i in x.extent_i], extent=list(x.extent), intent_i=[int(i) for i in x.intent_i],
                intent=list(x.intent), measures=json.dumps(x.measures), hash=x.context_hash, mono=bool(x.is_monotone))


def pc_fields(x):
    an = list(x._attribute_names)
    pt = {k: v.__name__ for k, v in x.pattern_types.items()}
    return dict(extent_i=[int(i) for i in x.extent_i], extent=list(x.extent),
                intent_i=[[int(k), pval(pt[an[k]], v)] for k, v in x.intent_i.items()],
                intent=[[k, pval(pt[k], v)] for k, v in x.intent.items()],
                ptypes=[[k, v] for k, v in pt.items()], attr_names=an, measures=json.dumps(x.measures), hash=x.context_hash)


def mine(K, miner, rng_seed=0):
    from fcapy.algorithms import concept_construction as cca
    from fcapy.lattice.formal_concept import FormalConcept
    from fcapy.lattice.pattern_concept import PatternConcept
    from fcapy.mvcontext import MVContext
    if miner == 'lindig':
        return list(cca.lindig_algorithm(K))
    if miner == 'from_objects':
        cls = PatternConcept if isinstance(K, MVContext) else FormalConcept
        n = K.n_objects
        subs = [[], [0], list(range(n)), list(range(n))[::-1][: max(1, n - 1)]]
        return [cls.from_objects(s, K) for s in subs]
    return list(getattr(cca, miner)(K))


def lat_fields(L, fields):
    cd = L.children_dict
    return dict(concepts=[fields(x) for x in L], children=[[int(d) for d in cd[i]] for i in range(len(L))],
                top=int(L.top), bottom=int(L.bottom))


def impl(c):
    fmt = c['fmt']
    try:
        if fmt in ('cxt', 'csv', 'json', 'pandas'):
            return impl_ctx(c)
        if fmt == 'mv':
            return impl_mv(c)
        if fmt in ('fc', 'pc'):
            return impl_concepts(c)
        if fmt in ('lat', 'mvlat'):
            return impl_lat(c)
        if fmt == 'hctx':
            return impl_hctx(c)
        if fmt == 'hmv':
            return impl_hmv(c)
        if fmt in ('hlat', 'hmvlat'):
            return impl_hlat(c)
        if fmt in ('hfc', 'hpc'):
            return impl_hconcept(c)
    except Exception as e:
        if c['stream'] == 'malformed':
            return {'setup_err': exc_name(e)}
        raise
    raise ValueError(fmt)


def impl_ctx(c):
    return ctx_roundtrip(make_ctx(c), c)


def ctx_roundtrip(K, c, keep=None):
    """write `K` in the format `c['fmt']` and read it back; `keep` collects (read-back object, frame) for later checks"""
    from fcapy.context import FormalContext
    fmt = c['fmt']
    out = {}
    df = None
    try:
        if fmt == 'cxt':
            out['text'] = K.write_cxt()
            K2 = FormalContext.read_cxt(data=out['text'])
        elif fmt == 'json':
            out['text'] = K.write_json()
            K2 = FormalContext.read_json(data=out['text'])
        elif fmt == 'pandas':
            df = K.to_pandas()
            out['frame'] = dict(values=[[int(bool(v)) for v in r] for r in df.values.tolist()],
                                index=df.index.tolist(), columns=df.columns.tolist())
            K2 = FormalContext.from_pandas(df)
        else:
            kw = dict(sep=c['sep'], word_true=c['wt'], word_false=c['wf'])
            fd, path = tempfile.mkstemp(prefix='c07_', suffix='.csv', dir='/tmp')
            os.close(fd)
            os.unlink(path)          # (re-writing an existing file is ~50x slower than creating it on this filesystem)
            try:
                K.write_csv(path, **kw)
                with open(path, 'r', newline='') as f:
                    out['text'] = f.read()
                out['text_ret'] = K.write_csv(**kw)
                K2 = FormalContext.read_csv(path, **kw)
            finally:
                if os.path.exists(path):
                    os.unlink(path)
    except Exception as e:
        out['read'] = {'err': exc_name(e)}
        if keep is not None:
            keep.append((None, None))
        return out
    out['read'] = ctx_fields(K2)
    out['eq'] = lib_eq(K2, K)
    out['eq_rev'] = lib_eq(K, K2)
    if keep is not None:
        keep.append((K2, df))
    return out


def impl_mv(c):
    from fcapy.mvcontext import MVContext
    K = make_mv(c)
    out = {'orig': mv_fields(K)}
    try:
        out['text'] = K.write_json()
        K2 = MVContext.read_json(json_data=out['text'])
    except Exception as e:
        out['read'] = {'err': exc_name(e)}
        return out
    out['read'] = mv_fields(K2)
    out['eq'] = lib_eq(K2, K)
    return out


def impl_concepts(c):
    from fcapy.lattice.formal_concept import FormalConcept
    from fcapy.lattice.pattern_concept import PatternConcept
    is_f = c['fmt'] == 'fc'
    K = make_ctx(c) if is_f else make_mv(c)
    try:
        cs = mine(K, c['miner'])
    except Exception as e:      # no concepts to serialise: outside C07 (miners are C02/C14/C15)
        return {'skip': 'miner raised ' + exc_name(e)}
    res = []
    for x in cs:
        r = {'orig': (fc_fields if is_f else pc_fields)(x)}
        try:
            if is_f:
                r['text'] = x.write_json(list(K.object_names), list(K.attribute_names))
                d = x.to_dict(list(K.object_names), list(K.attribute_names))
                y0 = FormalConcept.from_dict(d)
                y = FormalConcept.read_json(json_data=r['text'])
                r['read_dict'] = fc_fields(y0)
            else:
                r['text'] = x.write_json()
                y0 = PatternConcept.from_dict(x.to_dict(json_ready=False), json_ready=False)
                r['read_dict'] = pc_fields(y0)
                y = PatternConcept.read_json(json_data=r['text'])
            r['read'] = (fc_fields if is_f else pc_fields)(y)
            r['eq'] = lib_eq(y, x)
            r['hash_eq'] = hash(y) == hash(x)
        except Exception as e:
            r['read'] = {'err': exc_name(e)}
        res.append(r)
    return {'concepts': res, 'objs_order': list(K.object_names), 'attrs_order': list(K.attribute_names)}


def impl_lat(c):
    from fcapy.lattice import ConceptLattice
    is_f = c['fmt'] == 'lat'
    K = make_ctx(c) if is_f else make_mv(c)
    fields = fc_fields if is_f else pc_fields
    try:
        L = ConceptLattice.from_context(K, is_monotone=True) if c.get('mono') else ConceptLattice.from_context(K)
    except Exception as e:      # no lattice to serialise: outside C07 (lattice construction is C02/C12/C14)
        return {'skip': 'from_context raised ' + exc_name(e)}
    out = {'orig': lat_fields(L, fields), 'n': len(L), 'objs_order': list(K.object_names),
           'attrs_order': list(K.attribute_names), 'lat_mono': bool(L.is_monotone)}
    try:
        out['text'] = L.write_json(list(K.object_names), list(K.attribute_names))
        L2 = ConceptLattice.read_json(json_data=out['text'])
    except Exception as e:
        out['read'] = {'err': exc_name(e)}
        return out
    out['read'] = lat_fields(L2, fields)
    out['eq'] = lib_eq(L2, L)
    out['concepts_eq'] = [lib_eq(a, b) for a, b in zip(L2, L)]
    out['read_lat_mono'] = bool(L2.is_monotone)
    return out


# ------------------------------------------------------------------------------------------------
# histories: implementation side
# ------------------------------------------------------------------------------------------------
def _quiet(f):
    """a `use` step: whatever it returns or raises is not C07's business (other properties judge it)"""
    try:
        f()
    except Exception:
        pass


def ctx_use(K, name):
    if name == 'write_cxt':
        _quiet(K.write_cxt)
    elif name == 'write_json':
        _quiet(K.write_json)
    elif name == 'write_csv':
        _quiet(K.write_csv)
    elif name == 'to_pandas':
        _quiet(K.to_pandas)
    elif name == 'hash':
        _quiet(lambda: hash(K))
    elif name == 'hash_fixed':
        _quiet(K.hash_fixed)
    elif name == 'to_list':
        _quiet(lambda: (K.data.to_list(), K.data.to_tuple()))
    elif name == 'eq':
        _quiet(lambda: (K == K, K != K))
    elif name == 'T':
        _quiet(lambda: (K.T.object_names, K.T.data.to_list()))
    elif name == 'derive':
        _quiet(lambda: (K.intention_i([0]), K.extension_i([0]), K.intention(list(K.object_names[:1])),
                        K.extension(list(K.attribute_names[:1]))))
    elif name == 'repr':
        _quiet(lambda: (repr(K), K.n_objects, K.n_attributes, K.object_names, K.attribute_names, K.description, len(K)))
    else:
        raise ValueError(name)


def impl_hctx(c):
    from fcapy.context.bintable import init_bintable
    K = make_ctx(c)
    sh = dict(objs=list(c['objs']), attrs=list(c['attrs']), rows=[list(r) for r in c['rows']], descr=c.get('descr'))
    checks, notes, kept = [], [], []
    for st in c['steps']:
        if st[0] == 'use':
            ctx_use(K, st[1])
        elif st[0] == 'check':
            sub = dict(sh, fmt=st[1], be=c['be'], sep=',', wt='True', wf='False')
            out = ctx_roundtrip(K, sub, kept)
            out.update(fmt=st[1], shadow=dict(sh), obs=ctx_fields(K))
            checks.append(out)
        else:
            before = dict(sh)
            if st[0] == 'objs':
                K.object_names = list(st[1])
            elif st[0] == 'attrs':
                K.attribute_names = list(st[1])
            elif st[0] == 'descr':
                K.description = st[1]
            elif st[0] == 'table':
                rows = [[bool(v) for v in r] for r in st[1]]
                K.data.data = init_bintable(rows, c['be']).data if st[2] else rows
            else:
                raise ValueError(st[0])
            sh = ctx_shadow_apply(sh, st)
            if st[-1] is True:          # a hash-preserving edit: say whether the two contents really collide
                a = make_ctx(dict(before, be=c['be'])).hash_fixed()
                b = make_ctx(dict(sh, be=c['be'])).hash_fixed()
                notes.append('h4:adler32 ' + ('collides' if a == b and before != sh else 'DIFFERS'))
    # (H5) the objects read back earlier keep their content whatever happened to the source afterwards
    for out, (K2, _df) in zip(checks, kept):
        if K2 is not None:
            out['later_read'] = ctx_fields(K2)
    # ... and the source keeps its content when the last read-back object is changed
    final = None
    if kept and kept[-1][0] is not None:
        K2 = kept[-1][0]
        try:
            K2.object_names = [x + '#' for x in K2.object_names]
            K2.data.data = [[not v for v in r] for r in K2.data.to_list()]
        except Exception as e:
            notes.append('reverse-mutation raised ' + exc_name(e))
        final = ctx_fields(K)
    return dict(checks=checks, notes=notes, final_obs=final, final_shadow=dict(sh))


def mv_use(K, name):
    from fcapy.lattice import ConceptLattice
    from fcapy.lattice.pattern_concept import PatternConcept
    if name == 'write_json':
        _quiet(K.write_json)
    elif name == 'hash_fixed':
        _quiet(K.hash_fixed)
    elif name == 'hash':
        _quiet(lambda: hash(K))
    elif name == 'data':
        _quiet(lambda: K.data)
    elif name == 'eq':
        _quiet(lambda: (K == K, K != K))
    elif name == 'from_objects':
        _quiet(lambda: PatternConcept.from_objects([0], K))
    elif name == 'intention':
        _quiet(lambda: (K.intention_i([0]), K.intention(list(K.object_names[:1]))))
    elif name == 'extension':
        _quiet(lambda: K.extension_i(K.intention_i([0])))
    elif name == 'lattice':
        _quiet(lambda: ConceptLattice.from_context(K))
    elif name == 'to_numeric':
        _quiet(K.to_numeric)
    elif name == 'getitem':
        _quiet(lambda: (K[0], K[0:1], K[0, 0]))
    else:
        raise ValueError(name)


def mv_shadow_fields(sh):
    return dict(objs=list(sh['objs']), attrs=list(sh['attrs']), descr=sh['descr'],
                cols=[dict(name=nm, ptype=t, data=[pval(t, x) for x in col])
                      for nm, t, col in zip(sh['ps_names'], sh['types'], sh['cols'])])


def _fresh_mv(sh):
    from fcapy.mvcontext import MVContext, PS
    n = len(sh['objs'])
    rows = [[col[i] for col in sh['cols']] for i in range(n)]
    return MVContext(rows, pattern_types={a: getattr(PS, t) for a, t in zip(sh['attrs'], sh['types'])},
                     object_names=list(sh['objs']), attribute_names=list(sh['attrs']), description=sh['descr'])


def _cell_for(t, v):
    """a normalised value in the form the class stores it (for in-place assignment into `ps.data`)"""
    x = norm_val(t, dec_val(v))
    return set(x) if t == 'SetPS' else x


def mv_apply(K, sh, st):
    """apply one mutation step to the MVContext `K` through its public API and to the shadow by the harness's own rules"""
    types = sh['types']
    sh = dict(sh, cols=[list(col) for col in sh['cols']], objs=list(sh['objs']))
    if st[0] == 'ps_data':
        K.pattern_structures[st[1]].data = [dec_val(v) for v in st[2]]
        sh['cols'][st[1]] = [norm_val(types[st[1]], dec_val(v)) for v in st[2]]
    elif st[0] == 'ps_cell':
        K.pattern_structures[st[1]].data[st[2]] = _cell_for(types[st[1]], st[3])
        sh['cols'][st[1]][st[2]] = norm_val(types[st[1]], dec_val(st[3]))
    elif st[0] == 'ps_list':
        K.pattern_structures = [type(ps)([dec_val(v) for v in col], name=ps.name) for ps, col in zip(K.pattern_structures, st[1])]
        sh['cols'] = [[norm_val(t, dec_val(v)) for v in col] for t, col in zip(types, st[1])]
    elif st[0] == 'ps_item':
        pss = K.pattern_structures
        pss[st[1]] = type(pss[st[1]])([dec_val(v) for v in st[2]], name=pss[st[1]].name)
        sh['cols'][st[1]] = [norm_val(types[st[1]], dec_val(v)) for v in st[2]]
    elif st[0] == 'ps_item_class':
        from fcapy.mvcontext import PS
        pss = K.pattern_structures
        pss[st[1]] = getattr(PS, st[2])([dec_val(v) for v in st[3]], name=pss[st[1]].name)
        sh['types'] = list(types)
        sh['types'][st[1]] = st[2]
        sh['cols'][st[1]] = [norm_val(st[2], dec_val(v)) for v in st[3]]
    elif st[0] == 'attrs':               # the setter renames attributes and pattern structures together (repair 94822bb)
        K.attribute_names = list(st[1])
        sh['attrs'] = list(st[1])
        sh['ps_names'] = list(st[1])
    elif st[0] == 'attr_item_outside':   # (outside the property's scope, see gen_histories: recorded, never judged)
        K.attribute_names[st[1]] = st[2]
        sh['attrs'] = list(sh['attrs'])
        sh['attrs'][st[1]] = st[2]
    elif st[0] == 'attrs_none_outside':
        K.attribute_names = None
        sh['attrs'] = [str(i) for i in range(len(sh['attrs']))]
    elif st[0] == 'objs':
        K.object_names = list(st[1])
        sh['objs'] = list(st[1])
    elif st[0] == 'obj_item':
        K.object_names[st[1]] = st[2]
        sh['objs'][st[1]] = st[2]
    elif st[0] == 'descr':
        K.description = st[1]
        sh['descr'] = st[1]
    elif st[0] == 'alias_data':          # editing the table handed out by `K.data` is not an edit of the context
        rows = K.data
        rows[st[1]][st[2]] = _cell_for(types[st[2]], st[3])
    else:
        raise ValueError(st[0])
    return sh


def mv_byname(K, with_slice=True):
    """the by-name face of the context under its CURRENT names: `intention` keys, `extension({name: d})` against the
    by-index answer, `pattern_types` keys, and the one-object slice `K[:1]`"""
    out = {}
    try:
        d_i = K.intention_i([0])
        d = K.intention([K.object_names[0]])
        out['intention_keys'] = list(d.keys())
        out['ext'] = []
        for j, nm in enumerate(K.attribute_names):
            by_i = K.extension_i({j: d_i[j]})
            out['ext'].append([list(K.extension({nm: d_i[j]})), [K.object_names[g] for g in by_i]])
        out['ptype_keys'] = sorted(K.pattern_types.keys())
        S = K[:1] if with_slice else None
        if S is not None:
            out['slice'] = dict(objs=list(S.object_names), attrs=list(S.attribute_names),
                                cols=[dict(name=ps.name, data=[pval(type(ps).__name__, x) for x in ps.data])
                                      for ps in S.pattern_structures])
    except Exception as e:
        out['err'] = exc_name(e) + ': ' + str(e)[:200]
    return out


def impl_hmv(c):
    from fcapy.mvcontext import MVContext
    K = make_mv(c)
    types = list(c['types'])
    n = len(c['objs'])
    sh = dict(objs=list(c['objs']), attrs=list(c['attrs']), ps_names=list(c['attrs']), types=types, descr=c.get('descr'),
              cols=[[norm_val(t, dec_val(c['data'][i][j])) for i in range(n)] for j, t in enumerate(types)])
    checks, notes, kept = [], [], []
    for st in c['steps']:
        if st[0] == 'use':
            mv_use(K, st[1])
        elif st[0] == 'check':
            out = {'shadow': mv_shadow_fields(sh)}
            try:
                out['text'] = K.write_json()
                K2 = MVContext.read_json(json_data=out['text'])
                out['read'] = mv_fields(K2)
                out['eq'] = lib_eq(K2, K)
                kept.append(K2)
            except Exception as e:
                out['read'] = {'err': exc_name(e)}
                kept.append(None)
            out['obs'] = mv_fields(K)
            if c['stream'] != 'outside-scope':
                # (slicing an MVContext that holds an IntervalNumpyPS column raises TypeError on the unchanged code — the
                #  rows handed to the new context are ndarrays — and a structure replaced by one of another class leaves
                #  `pattern_types` behind: both are outside C07 and reported separately; no slice is taken there)
                out['byname'] = mv_byname(K, 'IntervalNumpyPS' not in sh['types'] and sh['types'] == types)
            checks.append(out)
        else:
            before = sh
            sh = mv_apply(K, sh, st)
            if isinstance(st[-1], str) and st[-1].startswith('h4_'):
                # a hash-preserving edit: say whether the two contents (on fresh objects) really differ and collide
                a, b = _fresh_mv(before), _fresh_mv(sh)
                differs = mv_shadow_fields(before) != mv_shadow_fields(sh)
                if 'adler' in st[-1]:
                    notes.append('h4:adler32 ' + ('collides' if differs and a.hash_fixed() == b.hash_fixed() else 'DIFFERS'))
                else:       # hash() of the pattern structure that holds the edited column (a context with a SetPS is unhashable)
                    j = st[1]
                    try:
                        same = hash(a.pattern_structures[j]) == hash(b.pattern_structures[j])
                        notes.append('h4:hash() ' + ('collides' if differs and same else 'DIFFERS'))
                    except TypeError:       # IntervalNumpyPS defines __eq__ only
                        notes.append('h4:hash() unhashable class')
    for out, K2 in zip(checks, kept):
        if K2 is not None:
            out['later_read'] = mv_fields(K2)
    final = None
    if kept and kept[-1] is not None:
        K2 = kept[-1]
        try:
            K2.object_names = [x + '#' for x in K2.object_names]
            ps = K2.pattern_structures[0]
            ps.data = [set(x) if isinstance(x, set) else (tuple(float(y) for y in x) if hasattr(x, '__len__') else bool(x))
                       for x in list(ps.data)[::-1]]
            K2.pattern_structures[0].data[0] = K2.pattern_structures[0].data[-1]
        except Exception as e:
            notes.append('reverse-mutation raised ' + exc_name(e))
        final = mv_fields(K)
    return dict(checks=checks, notes=notes, final_obs=final, final_shadow=mv_shadow_fields(sh))


def lat_use(L, name, K):
    if name == 'write_json':
        _quiet(lambda: L.write_json(list(K.object_names), list(K.attribute_names)))
    elif name in ('children_dict', 'parents_dict', 'descendants_dict', 'ancestors_dict', 'measures', 'T'):
        _quiet(lambda: getattr(L, name))
    elif name == 'top_bottom':
        _quiet(lambda: (L.top, L.bottom, L.tops, L.bottoms))
    elif name == 'eq':
        _quiet(lambda: L == L)
    elif name == 'chains':
        _quiet(L.get_chains)
    else:
        raise ValueError(name)


def _set_measure(fields_dict, name, val):
    ms = json.loads(fields_dict['measures'])
    ms[name] = val
    return dict(fields_dict, measures=json.dumps(ms))


def impl_hlat(c):
    from fcapy.lattice import ConceptLattice
    is_f = c['fmt'] == 'hlat'
    K = make_ctx(c) if is_f else make_mv(c)
    fields = fc_fields if is_f else pc_fields
    try:
        L = ConceptLattice.from_context(K, is_monotone=True) if c.get('mono') else ConceptLattice.from_context(K)
    except Exception as e:
        return {'skip': 'from_context raised ' + exc_name(e)}
    oo, ao = list(K.object_names), list(K.attribute_names)
    sh = [fields(x) for x in L]
    removed, checks, notes = [], [], []
    for st in c['steps']:
        if st[0] == 'use':
            lat_use(L, st[1], K)
        elif st[0] == 'remove':
            cands = [i for i in range(len(L)) if i not in (L.top, L.bottom)]
            if len(L) < 4 or not cands:
                notes.append('remove skipped: too few concepts')
                continue
            i = cands[st[1] % len(cands)]
            removed.append((L[i], sh[i]))
            if st[2]:
                del L[i]
            else:
                L.remove(L[i])
            sh = sh[:i] + sh[i + 1:]
        elif st[0] == 'add_back':
            if not removed:
                continue
            x, f = removed.pop(st[1] % len(removed))
            L.add(x, fill_up_cache=bool(st[2]))
            sh = sh + [f]
        elif st[0] == 'measure':
            i = st[1] % len(L)
            L[i].measures[st[2]] = st[3]
            sh = sh[:i] + [_set_measure(sh[i], st[2], st[3])] + sh[i + 1:]
        elif st[0] == 'check':
            out = {'n': len(sh), 'shadow': list(sh)}
            try:
                out['text'] = L.write_json(oo, ao)
                L2 = ConceptLattice.read_json(json_data=out['text'])
                out['read'] = lat_fields(L2, fields)
                out['eq'] = lib_eq(L2, L)
                out['concepts_eq'] = [lib_eq(a, b) for a, b in zip(L2, L)]
            except Exception as e:
                out['read'] = {'err': exc_name(e)}
            out['orig'] = lat_fields(L, fields)
            checks.append(out)
        else:
            raise ValueError(st[0])
    return dict(checks=checks, notes=notes, objs_order=oo, attrs_order=ao)


def impl_hconcept(c):
    from fcapy.lattice.formal_concept import FormalConcept
    from fcapy.lattice.pattern_concept import PatternConcept
    is_f = c['fmt'] == 'hfc'
    K = make_ctx(c) if is_f else make_mv(c)
    fields = fc_fields if is_f else pc_fields
    try:
        cs = mine(K, c['miner'])[:3]
    except Exception as e:
        return {'skip': 'miner raised ' + exc_name(e)}
    oo, ao = list(K.object_names), list(K.attribute_names)
    res = []
    for x in cs:
        sh = fields(x)
        for st in c['steps']:
            if st[0] == 'measure':
                x.measures[st[2]] = st[3]
                sh = _set_measure(sh, st[2], st[3])
            elif st[0] == 'measures':
                x.measures = dict(st[1])
                sh = dict(sh, measures=json.dumps(st[1]))
            elif st[0] == 'check':
                r = {'orig': dict(sh)}
                try:
                    if is_f:
                        r['text'] = x.write_json(oo, ao)
                        r['read_dict'] = fc_fields(FormalConcept.from_dict(x.to_dict(oo, ao)))
                        y = FormalConcept.read_json(json_data=r['text'])
                    else:
                        r['text'] = x.write_json()
                        r['read_dict'] = pc_fields(PatternConcept.from_dict(x.to_dict(json_ready=False), json_ready=False))
                        y = PatternConcept.read_json(json_data=r['text'])
                    r['read'] = fields(y)
                    r['eq'] = lib_eq(y, x)
                    r['hash_eq'] = hash(y) == hash(x)
                except Exception as e:
                    r['read'] = {'err': exc_name(e)}
                r['obs'] = fields(x)
                res.append(r)
            else:
                raise ValueError(st[0])
    return {'concepts': res, 'objs_order': oo, 'attrs_order': ao}


# ------------------------------------------------------------------------------------------------
# driver requests
# ------------------------------------------------------------------------------------------------
def requests(c, io):
    fmt = c['fmt']
    if 'setup_err' in io or 'harness_exc' in io or 'skip' in io:
        return []
    if fmt.startswith('h'):
        return hist_requests(c, io)
    if fmt in ('cxt', 'csv', 'json', 'pandas'):
        r = dict(op='C07.' + fmt, objs=c['objs'], attrs=c['attrs'], rows=c['rows'], descr=c.get('descr'),
                 impl_text=io.get('text'))
        if fmt == 'csv':
            r.update(sep=c['sep'], wt=c['wt'], wf=c['wf'])
        return [r]
    if fmt == 'mv':
        return [dict(op='C07.mv', impl_text=io.get('text'), **io['orig'])]
    if fmt == 'fc':
        return [dict(op='C07.fc', c=x['orig'], objs_order=io['objs_order'], attrs_order=io['attrs_order'],
                     impl_text=x.get('text')) for x in io['concepts']]
    if fmt == 'pc':
        return [dict(op='C07.pc', c=x['orig'], impl_text=x.get('text')) for x in io['concepts']]
    if fmt in ('lat', 'mvlat'):
        return [dict(op='C07.lat', kind='f' if fmt == 'lat' else 'p', objs_order=io['objs_order'],
                     attrs_order=io['attrs_order'], impl_text=io.get('text'), **io['orig'])]
    raise ValueError(fmt)


# ------------------------------------------------------------------------------------------------
# judging
# ------------------------------------------------------------------------------------------------
def bad(kind, detail):
    return dict(ok=False, kind=kind, detail=detail[:600])


def strip_measures(x):
    return {k: v for k, v in x.items() if k != 'measures'}


def measures_kept(orig, back):
    a, b = json.loads(orig['measures']), json.loads(back['measures'])
    return all(k in b and b[k] == v for k, v in a.items())


def canon_concept(x, objs_order=None, attrs_order=None):
    """extent/intent are sets: a formal concept is compared with its index lists ascending and its names in
    context order (FormalConcept.to_dict sorts them; `==` and `hash` are by extent set)."""
    if 'mono' not in x or objs_order is None:
        return x
    y = dict(x)
    y['extent_i'], y['intent_i'] = sorted(x['extent_i']), sorted(x['intent_i'])
    y['extent'] = sorted(x['extent'], key=objs_order.index)
    y['intent'] = sorted(x['intent'], key=attrs_order.index)
    return y


def concept_same(orig, back, oo=None, ao=None):
    return ('err' not in back and strip_measures(canon_concept(orig, oo, ao)) == strip_measures(back)
            and measures_kept(orig, back))


def lat_norm(x):
    if 'err' in x:
        return x
    return dict(x, children=[sorted(ch) for ch in x['children']])


def judge(c, io, rep):
    fmt = c['fmt']
    if c['stream'] in ('malformed', 'outside-scope') or 'skip' in io:
        return dict(ok=True)
    if fmt.startswith('h'):
        return judge_hist(c, io, rep)
    if fmt in ('cxt', 'csv', 'json', 'pandas'):
        return judge_ctx(c, io, rep[0])
    if fmt == 'mv':
        return judge_mv(c, io, rep[0])
    if fmt in ('fc', 'pc'):
        for x, r in zip(io['concepts'], rep):
            v = judge_concept(c, x, r, io)
            if not v['ok']:
                return v
        return dict(ok=True)
    return judge_lat(c, io, rep[0])


def judge_ctx(c, io, r):
    fmt = c['fmt']
    orig = dict(objs=c['objs'], attrs=c['attrs'], rows=c['rows'], descr=c.get('descr') if fmt == 'json' else None)
    # (a) the theorem's statement on the model (self-consistency of the driver)
    if r['read'] != orig:
        return bad('harness', f'model read(write K) = {r["read"]} != K = {orig} (contradicts the theorem: input out of scope?)')
    if fmt == 'json' and r['read_text'] != orig:
        return bad('harness', f'model loads(dumps tree) read-back {r["read_text"]} != K')
    # (b) the property on the implementation
    back = io.get('read')
    if back != orig or io.get('eq') is not True or io.get('eq_rev') is not True:
        return bad('property', f'{fmt} round trip on backend {c["be"]}: read-back {back} (==: {io.get("eq")}, reversed ==: '
                               f'{io.get("eq_rev")}) for original {orig}')
    # (c) correspondence: writer text, reader on the implementation's text
    if fmt == 'pandas':
        if io['frame'] != r['frame']:
            return bad('correspondence', f'to_pandas frame {io["frame"]} != model {r["frame"]}')
        return dict(ok=True)
    if io['text'] != r['text']:
        return bad('correspondence', f'writer text {io["text"]!r} != model {r["text"]!r}')
    if fmt == 'csv' and io.get('text_ret') != r['text']:
        return bad('correspondence', f'returned csv text {io.get("text_ret")!r} != file content {r["text"]!r}')
    if r['read_impl'] != back:
        return bad('correspondence', f'model reader on the implementation text gives {r["read_impl"]}, implementation {back}')
    return dict(ok=True)


def judge_mv(c, io, r):
    orig = io['orig']
    back = io.get('read')
    if isinstance(r.get('text'), dict):
        return bad('correspondence', f'model writer raised {r["text"]} on {orig}')
    if r['read'] != orig or r.get('read_text') != orig or r.get('eq') is not True:
        return bad('harness', f'model read(write K) = {r["read"]} / {r.get("read_text")} != K = {orig}')
    if back != orig or io.get('eq') is not True:
        return bad('property', f'MVContext json round trip: read-back {back} (==: {io.get("eq")}) for original {orig}')
    if io['text'] != r['text']:
        return bad('correspondence', f'writer text {io["text"]!r} != model {r["text"]!r}')
    if r['read_impl'] != back:
        return bad('correspondence', f'model reader on the implementation text gives {r["read_impl"]}, implementation {back}')
    return dict(ok=True)


def judge_concept(c, x, r, io):
    orig, back = canon_concept(x['orig'], io['objs_order'], io['attrs_order']), x.get('read')
    if isinstance(r.get('text'), dict):
        return bad('correspondence', f'model to_dict raised {r["text"]} on {orig}')
    if not concept_same(orig, r['read']) or r['read'] != r.get('read_text'):
        return bad('harness', f'model from_dict(to_dict c) = {r["read"]} / {r.get("read_text")} differs from c = {orig}')
    if not concept_same(orig, back) or x.get('eq') is not True or x.get('hash_eq') is not True:
        return bad('property', f'concept round trip ({c.get("miner")}): read-back {back} (==: {x.get("eq")}, hash equal: '
                               f'{x.get("hash_eq")}) for original {orig}')
    if 'read_dict' in x and not concept_same(orig, x['read_dict']):
        return bad('property', f'concept dict round trip ({c.get("miner")}): {x["read_dict"]} for original {orig}')
    if x['text'] != r['text']:
        return bad('correspondence', f'concept json text {x["text"]!r} != model {r["text"]!r}')
    if r['read_impl'] != back:
        return bad('correspondence', f'model from_dict on the implementation text gives {r["read_impl"]}, implementation {back}')
    return dict(ok=True)


def judge_lat(c, io, r, hist=False):
    orig = lat_norm(io['orig'])
    orig = dict(orig, concepts=[canon_concept(x, io['objs_order'], io['attrs_order']) for x in orig['concepts']])
    if io['n'] < 3:
        # the documented precondition of the writer: both sides must refuse
        if io.get('read') == {'err': 'AssertionError'} and r.get('text') == {'err': 'AssertionError'}:
            return dict(ok=True)
        return bad('correspondence', f'lattice with {io["n"]} concepts: implementation {io.get("read")}, model {r.get("text")}')
    back = io.get('read')
    if isinstance(r.get('text'), dict):
        return bad('correspondence', f'model lattice writer raised {r["text"]}')

    def same(a, b):
        return ('err' not in b and len(a['concepts']) == len(b['concepts'])
                and all(concept_same(x, y) for x, y in zip(a['concepts'], b['concepts']))
                and a['children'] == b['children'] and a['top'] == b['top'] and a['bottom'] == b['bottom'])
    def prop_ok():
        return not (back is None or not same(orig, lat_norm(back)) or io.get('eq') is not True
                    or not all(e is True for e in io.get('concepts_eq', [False])))
    if hist and not prop_ok():
        # after a history the lattice's own cover relation / top / bottom are part of what is judged: the reader
        # recomputes them from the concepts, so a stale `children_dict` shows as a read-back that differs from L
        return bad('property', f'lattice round trip after a history: read-back {back} (==: {io.get("eq")}, concept ==: '
                               f'{io.get("concepts_eq")}) for the lattice {orig}')
    if not same(orig, lat_norm(r['read'])) or r['read'] != r.get('read_text'):
        return bad('harness', f'model read(write L) differs from L: {r["read"]} vs {orig}')
    if back is None or not same(orig, lat_norm(back)) or io.get('eq') is not True or not all(e is True for e in io.get('concepts_eq', [False])):
        return bad('property', f'lattice round trip: read-back {back} (==: {io.get("eq")}, concept ==: {io.get("concepts_eq")}) '
                               f'for original {orig}')
    if io['text'] != r['text']:
        return bad('correspondence', f'lattice json text {io["text"]!r} != model {r["text"]!r}')
    if lat_norm(r['read_impl']) != lat_norm(back):
        return bad('correspondence', f'model reader on the implementation text gives {r["read_impl"]}, implementation {back}')
    return dict(ok=True)


# ------------------------------------------------------------------------------------------------
# histories: requests and judging (each `check` of a history is judged like a one-shot case whose original is the
# CURRENT content, as tracked by the harness)
# ------------------------------------------------------------------------------------------------
def hist_requests(c, io):
    fmt = c['fmt']
    if fmt == 'hctx':
        out = []
        for ch in io['checks']:
            s = ch['shadow']
            r = dict(op='C07.' + ch['fmt'], objs=s['objs'], attrs=s['attrs'], rows=s['rows'], descr=s['descr'],
                     impl_text=ch.get('text'))
            if ch['fmt'] == 'csv':
                r.update(sep=',', wt='True', wf='False')
            out.append(r)
        return out
    if fmt == 'hmv':
        return [dict(op='C07.mv', impl_text=ch.get('text'), **ch['shadow']) for ch in io['checks']]
    if fmt in ('hlat', 'hmvlat'):
        return [dict(op='C07.lat', kind='f' if fmt == 'hlat' else 'p', objs_order=io['objs_order'], attrs_order=io['attrs_order'],
                     impl_text=ch.get('text'), **ch['orig']) for ch in io['checks']]
    if fmt == 'hfc':
        return [dict(op='C07.fc', c=x['orig'], objs_order=io['objs_order'], attrs_order=io['attrs_order'],
                     impl_text=x.get('text')) for x in io['concepts']]
    if fmt == 'hpc':
        return [dict(op='C07.pc', c=x['orig'], impl_text=x.get('text')) for x in io['concepts']]
    raise ValueError(fmt)


def judge_byname(b, s):
    """by-name derivation and slicing under the current names (the names a rename installed must be usable)"""
    if 'err' in b:
        return bad('property', f'by-name use of the context with the current names {s["attrs"]} raised {b["err"]}')
    if b['intention_keys'] != s['attrs'] or b['ptype_keys'] != sorted(s['attrs']):
        return bad('property', f'intention keys {b["intention_keys"]} / pattern_types keys {b["ptype_keys"]} are not the current '
                               f'attribute names {s["attrs"]}')
    for nm, (by_name, by_index) in zip(s['attrs'], b['ext']):
        if by_name != by_index:
            return bad('property', f'extension by the name {nm!r} gives {by_name}, by its index {by_index}')
    want = dict(objs=s['objs'][:1], attrs=s['attrs'], cols=[dict(name=c_['name'], data=c_['data'][:1]) for c_ in s['cols']])
    if 'slice' in b and b['slice'] != want:
        return bad('property', f'K[:1] is {b["slice"]}, expected {want}')
    return dict(ok=True)


def _where(c, k):
    return f'history {c["steps"]}, check #{k}: '


def judge_hist(c, io, rep):
    fmt = c['fmt']
    if fmt in ('hfc', 'hpc'):
        for k, (x, r) in enumerate(zip(io['concepts'], rep)):
            if json.loads(x['obs']['measures']) != json.loads(x['orig']['measures']) or strip_measures(x['obs']) != strip_measures(x['orig']):
                return bad('property', _where(c, k) + f'the concept reads {x["obs"]} through its public fields, the history made it {x["orig"]}')
            v = judge_concept(c, x, r, io)
            if not v['ok']:
                return dict(v, detail=(_where(c, k) + v['detail'])[:900])
        return dict(ok=True)
    for k, (ch, r) in enumerate(zip(io['checks'], rep)):
        if fmt == 'hctx':
            s = ch['shadow']
            if ch['obs'] != s:
                return bad('property', _where(c, k) + f'the context reads {ch["obs"]} through its public getters, the history made it {s}')
            v = judge_ctx(dict(s, fmt=ch['fmt'], be=c['be']), ch, r)
        elif fmt == 'hmv':
            s = ch['shadow']
            if ch['obs'] != s:
                return bad('property', _where(c, k) + f'the context reads {ch["obs"]} through its public getters, the history made it {s}')
            v = judge_mv(c, dict(ch, orig=s), r)
            if v['ok'] and 'byname' in ch:
                v = judge_byname(ch['byname'], s)
        else:
            oo, ao = io['objs_order'], io['attrs_order']
            obs = [canon_concept(x, oo, ao) for x in ch['orig']['concepts']]
            want = [canon_concept(x, oo, ao) for x in ch['shadow']]
            if len(obs) != len(want) or any(strip_measures(a) != strip_measures(b) or json.loads(a['measures']) != json.loads(b['measures'])
                                            for a, b in zip(obs, want)):
                return bad('property', _where(c, k) + f'the lattice holds the concepts {obs}, the history made them {want}')
            v = judge_lat(c, dict(ch, objs_order=oo, attrs_order=ao), r, hist=True)
        if not v['ok']:
            return dict(v, detail=(_where(c, k) + v['detail'])[:900])
        if 'later_read' in ch and ch['later_read'] != ch.get('read'):
            return bad('property', _where(c, k) + f'the object read back was {ch.get("read")}; after later changes of the SOURCE '
                                                  f'it reads {ch["later_read"]}')
    if io.get('final_obs') is not None and io['final_obs'] != io['final_shadow']:
        return bad('property', f'history {c["steps"]}: after changing the object READ BACK last, the source reads {io["final_obs"]} '
                               f'instead of {io["final_shadow"]}')
    return dict(ok=True)


# ------------------------------------------------------------------------------------------------
# bookkeeping
# ------------------------------------------------------------------------------------------------
def nontrivial(c):
    if c['stream'] in ('malformed', 'outside-scope'):
        return False
    if 'rows' in c:
        return G.is_mixed(c['rows'])
    return True


def key(c):
    return {k: v for k, v in c.items() if k != 'stream'}


def branch(c, io, rep):
    out = [c['stream'], 'fmt:' + c['fmt'] + (':' + c['be'] if 'be' in c else '')]
    if c['fmt'] == 'csv':
        out.append('csv-sep:' + repr(c['sep']))
    if c['stream'] == 'malformed':
        if 'setup_err' in io:
            out.append('malformed:constructor-refused:' + io['setup_err'])
            return out
        orig = dict(objs=c['objs'], attrs=c['attrs'], rows=c['rows'], descr=None)
        back = io.get('read')
        outside = back != orig or io.get('eq') is not True
        out.append('malformed:%s:%s' % (c['fmt'], 'outside(' + (back.get('err', 'different') if isinstance(back, dict) else '?') + ')'
                                        if outside else 'still-round-trips'))
        if rep:
            out.append('malformed:model-' + ('agrees' if rep[0].get('read_impl') == back and rep[0].get('text') == io.get('text')
                                             else 'differs'))
        return out
    if 'skip' in io:
        out.append('skipped:' + io['skip'])
        return out
    if c['fmt'].startswith('h'):
        for st in c['steps']:
            if st[0] == 'use':
                out.append('hist-use:' + c['fmt'] + ':' + st[1])
            elif st[0] == 'check':
                out.append('hist-check:' + c['fmt'] + (':' + st[1] if len(st) > 1 else ''))
            else:
                tag = st[-1] if isinstance(st[-1], str) and st[-1].startswith('h4_') else st[0]
                out.append('hist-route:' + c['fmt'] + ':' + tag + (':native' if st[0] == 'table' and st[2] else '')
                           + (':h4' if st[0] in ('table', 'objs', 'attrs') and st[-1] is True else ''))
        out.extend('hist-note:' + x for x in io.get('notes', []))
        if c['stream'] == 'outside-scope' and io.get('checks'):
            ch = io['checks'][-1]
            form = [st[0] for st in c['steps'] if st[0].endswith('_outside')][0]
            out.append('outside:mv-' + form + ':' + ('still-round-trips' if ch.get('read') == ch['shadow'] and ch.get('eq') is True
                                                     else 'outside(ps.name stale; ==: %s)' % (ch.get('eq'),)))
        return out
    if c['fmt'] in ('lat', 'mvlat'):
        out.append('lattice:' + ('<3 concepts' if io.get('n', 0) < 3 else '>=3 concepts'))
        if io.get('lat_mono') != io.get('read_lat_mono') and 'read_lat_mono' in io:
            out.append('note:lattice.is_monotone flag not restored')
    if c['fmt'] in ('fc', 'pc'):
        out.append('miner:' + c['miner'])
        extra = set()
        for x in io.get('concepts', []):
            if isinstance(x.get('read'), dict) and 'measures' in x['read']:
                extra |= set(json.loads(x['read']['measures'])) - set(json.loads(x['orig']['measures']))
        if extra:
            out.append('note:read-back measures gain keys ' + ','.join(sorted(extra)))
    return out


def signature(c, io, rep, v):
    cls = 'err' if isinstance(io.get('read'), dict) and 'err' in io.get('read', {}) else 'wrong'
    return f"C07:{c['fmt']}:{c.get('be', '-')}:{v.get('kind')}:{cls}"


def shrink(c):
    if c['fmt'].startswith('h'):
        steps = c['steps']
        for i in range(len(steps)):
            rest = steps[:i] + steps[i + 1:]
            if any(st[0] == 'check' for st in rest):
                yield dict(c, steps=rest)
        return
    if 'rows' in c and c['fmt'] in ('cxt', 'csv', 'json', 'pandas', 'lat', 'fc'):
        rows = c['rows']
        n, m = len(rows), len(rows[0])
        if n > 1:
            for i in range(n):
                yield dict(c, rows=rows[:i] + rows[i + 1:], objs=c['objs'][:i] + c['objs'][i + 1:])
        if m > 1:
            for j in range(m):
                yield dict(c, rows=[r[:j] + r[j + 1:] for r in rows], attrs=c['attrs'][:j] + c['attrs'][j + 1:])
        for i in range(n):
            for j in range(m):
                if rows[i][j]:
                    r2 = [list(r) for r in rows]
                    r2[i][j] = 0
                    yield dict(c, rows=r2)
        for k in ('objs', 'attrs'):
            for i, nm in enumerate(c[k]):
                if len(nm) > 1:
                    for cut in (nm[1:], nm[:-1]):
                        if cut not in c[k]:
                            yield dict(c, **{k: c[k][:i] + [cut] + c[k][i + 1:]})
    elif c['fmt'] in ('mv', 'mvlat', 'pc'):
        n = len(c['data'])
        if n > 1:
            for i in range(n):
                yield dict(c, data=c['data'][:i] + c['data'][i + 1:], objs=c['objs'][:i] + c['objs'][i + 1:])

"""C09 — poset answers never depend on the history of queries and mutations."""
import copy
import itertools
import random

RULE = ('case = (order in {subset of a bit set, divisibility}, start element list, cache on/off, with/without a correct '
        'children_dict, hostile-constructor flag, history of operations); every operation of the history is executed on a '
        'real POSet and on the Lean model, its answer is compared with the Lean Fresh value (the proved value), and a '
        'full observation (all leq pairs, descendants/ancestors/children/parents of every index, tops, bottoms, join '
        'and meet of everything; for <= 4 elements also of every pair, index of every element, == reversed copy) is '
        'compared with Fresh after the last step (enumerated streams) or, on a deep copy, after every step (random '
        'streams).  History operations beyond the model operations: mut = run a query and mutate the RETURNED '
        'set/list in place (clear it / add a foreign index) - for the model it is the plain query; dict = read '
        'children_dict/parents_dict/descendants_dict/ancestors_dict (= the queries it stands for), optionally mutating '
        'the returned dict and its values.  Streams: corpus; alias (H2: every returned value mutated in place, after '
        'nothing / add with and without filling / fill_up_caches / add+del); dictmemo (H1: read a *_dict or join/meet, '
        'net-zero-size remove+add / add+remove / del+add, read again); bigcd (H3: 10..13 elements, two-digit '
        'indexes, children_dict beyond the comparison-table limit, hostile constructor arguments: containers emptied '
        'after construction, one-shot generator); nongraded (H3: add with filling into every poset of 5 and 6 subsets '
        'of a 4-set up to atom permutations, ascending and descending); exhaustive; random; malformed.  '
        'non-trivial = the history contains a mutation and the start list has two comparable elements or the history '
        'adds one; distinct = distinct case')
_ALPHA = ('operation alphabet at a poset with n elements: leq(i,j) all pairs; descendants/ancestors/children/parents(i) '
          'all i; tops; bottoms; join([]), meet([]), join([i,j]), meet([i,j]) i<j; index(first); ==(reversed copy); '
          'fill_up_caches; add(e, fill) for every absent e of the 8 subsets x fill in {True, False}; add(present) '
          '(no-op); del i all i; del n (IndexError); remove(first); remove(absent) (KeyError).  The last operation of a '
          'history ranges over the mutations only (including the no-op / failing ones, so query-only prefixes are '
          'covered too); after it the full observation is taken (all leq pairs, the four relations of every index, '
          'tops, bottoms, join/meet of everything and of every pair, index of every element, == reversed copy).')
EXHAUSTIVE = {
    'quick': 'all histories of length <= 2 over every start set of <= 3 of the 8 subsets of a 3-set (one representative '
             'per orbit of the atom permutations, elements listed ascending), cache on (cold) / cache on with '
             'children_dict / cache off; all histories of length 3, cache on (cold), over the start sets of <= 2 elements '
             'and every 4th history (offset VERIF_SEED mod 4) over the start sets of 3 elements (all of them when the '
             'anchored source drifted, and in the thorough tier); the alias, dictmemo, bigcd and nongraded streams are '
             'enumerated completely; ' + _ALPHA,
    'thorough': 'the quick scope (no sampling) over all 93 start sets of <= 3 subsets (ascending; orbit representatives also '
                'descending), plus children_dict starts with length 3 (first operation a mutation), plus length 4 from '
                'the empty poset and from the one-element poset [{}], cache on, plus start sets of 4 elements (orbit '
                'representatives) with length <= 2; ' + _ALPHA,
}
EXPLANATION = ('order queries are pinned uniquely by Fresh, so implementation != Fresh is a property failure. Lean: '
               'Fca.C09.history_independent proves model = Fresh for every valid history (all queries, fill_up_*, add '
               'with and without cache filling, del, remove, ==) from every state satisfying Inv, for every partial '
               'order and every set-iteration order; Fca.C09.cache_transparent: cached = uncached. In addition the '
               'driver runs the verified checker invCheck (Fca.C09.inv_of_check) on the model state after every step '
               'and on every start state built from a children_dict. Comparison of the private caches with the model '
               'state is diagnostic only (histogram keys state:*)')
ASSUMPTIONS = ['start elements pairwise distinct; leq is a partial order on all elements used (subset of bit masks, '
               'divisibility of positive integers)',
               'index arguments of queries are in range and non-negative (documented API); histories containing an '
               'out-of-range query live in the malformed stream where only model = implementation is checked',
               'a children_dict passed to the constructor is the true cover relation of the start elements']
TRUSTED = ['set iteration order inside POSet (list(frozenset)) is modelled by an arbitrary order parameter; it does not '
           'influence any answer (theorems quantify over it), only which cache entries exist']
CHUNK = 400

LEQ = {'subset': (lambda a, b: a & b == a), 'divides': (lambda a, b: a != 0 and b % a == 0)}
REL = ('descendants', 'ancestors', 'children', 'parents')


# ------------------------------------------------------------------------------------------ helpers
def covers(order, elems):
    leq = LEQ[order]
    n = len(elems)
    lt = [[i != j and leq(elems[i], elems[j]) for j in range(n)] for i in range(n)]
    return [[k, [i for i in range(n) if lt[i][k] and not any(lt[i][z] and lt[z][k] for z in range(n))]]
            for k in range(n)]


def next_elems(E, op):
    nm = op[0]
    if nm == 'add':
        return E if op[1] in E else E + [op[1]]
    if nm == 'del':
        return E[:op[1]] + E[op[1] + 1:] if 0 <= op[1] < len(E) else E
    if nm == 'remove':
        return [x for x in E if x != op[1]]
    return E


DICTS = ('children', 'parents', 'descendants', 'ancestors')


def xops(op, E):
    """model operations a history operation stands for (the model has no aliasing: reading a `*_dict` is the
    sequence of the queries it makes, a hostile in-place mutation of a returned value is just the query)"""
    nm = op[0]
    if nm == 'mut':                      # ['mut', how, query-op]
        return [op[2]]
    if nm == 'dict':                     # ['dict', which] / ['dict', which, how]
        return [[op[1], i] for i in range(len(E))]
    return [op]


def expand(c):
    """[(model op, index of the history op)] for the whole history"""
    E = list(c['elems'])
    out = []
    for h, op in enumerate(c['ops']):
        out += [(x, h) for x in xops(op, E)]
        E = next_elems(E, op)
    return out


def obs_ops(E):
    n = len(E)
    out = [['leq', i, j] for i in range(n) for j in range(n)]
    for i in range(n):
        out += [[r, i] for r in REL]
    out += [['tops'], ['bottoms'], ['join', []], ['meet', []]]
    if n <= 4:
        for i in range(n):
            for j in range(i + 1, n):
                out += [['join', [i, j]], ['meet', [i, j]]]
        out += [['index', x] for x in E]
        out.append(['eq', list(E)[::-1]])
    return out


# ------------------------------------------------------------------------------------------ implementation side
def _canon(x):
    if isinstance(x, (set, frozenset)):
        return sorted(int(v) for v in x)
    return x


def apply_op(P, op, order, use_cache):
    from fcapy.poset import POSet
    nm = op[0]
    try:
        if nm == 'leq':
            return bool(P.leq_elements(op[1], op[2]))
        if nm in REL:
            return sorted(int(v) for v in getattr(P, nm)(op[1]))
        if nm in ('tops', 'bottoms'):
            return {'l': [int(v) for v in getattr(P, nm)]}
        if nm in ('join', 'meet'):
            r = getattr(P, nm)(list(op[1]))
            return {'o': None if r is None else int(r)}
        if nm == 'index':
            return int(P.index(op[1]))
        if nm == 'add':
            P.add(op[1], fill_up_cache=bool(op[2]))
            return None
        if nm == 'del':
            del P[op[1]]
            return None
        if nm == 'remove':
            P.remove(op[1])
            return None
        if nm == 'eq':
            return bool(P == POSet(list(op[1]), LEQ[order], use_cache=False))
        if nm == 'fill':
            if op[1] == 'all':
                P.fill_up_caches()
            else:
                getattr(P, {'leq': 'fill_up_leq_cache', 'desc': 'fill_up_descendants_cache',
                            'anc': 'fill_up_ancestors_cache', 'chil': 'fill_up_children_cache',
                            'par': 'fill_up_parents_cache'}[op[1]])()
            return None
        raise ValueError('harness: unknown op %r' % (op,))
    except (IndexError, KeyError, ValueError, TypeError, AssertionError) as e:
        if isinstance(e, ValueError) and 'harness' in str(e):
            raise
        return {'err': type(e).__name__}


def _hostile(r, how, n, avoid):
    """mutate a RETURNED value in place if it is mutable (on the correct code returned sets are frozensets or copies,
    lists/dicts are freshly built: nothing inside the poset may change)"""
    foreign = next((j for j in range(n) if j != avoid and not (hasattr(r, '__contains__') and j in r)), n + 3)
    try:
        if isinstance(r, set):
            r.clear() if how == 'clear' else r.add(foreign)
        elif isinstance(r, list):
            r.clear() if how == 'clear' else r.append(foreign)
        elif isinstance(r, dict):
            for v in list(r.values()):
                _hostile(v, how, n, avoid)
            r.clear() if how == 'clear' else r.__setitem__(n + 3, frozenset())
    except Exception:
        pass


def apply_mut(P, how, q, order):
    """run query op q, canonicalise its answer, then mutate the returned object in place"""
    nm = q[0]
    try:
        raw = getattr(P, nm)(q[1]) if nm in REL else getattr(P, nm)
    except (IndexError, KeyError, ValueError, TypeError, AssertionError) as e:
        return {'err': type(e).__name__}
    out = sorted(int(v) for v in raw) if nm in REL else {'l': [int(v) for v in raw]}
    _hostile(raw, how, len(P), q[1] if nm in REL else -1)
    return out


def apply_dict(P, which, how):
    n = len(P)
    try:
        d = getattr(P, which + '_dict')
        outs = [sorted(int(v) for v in d[i]) for i in range(n)]
    except (IndexError, KeyError, ValueError, TypeError, AssertionError) as e:
        return [{'err': type(e).__name__}] * n
    if how is not None:
        _hostile(d, how, n, -1)
    return outs


def dump_state(P):
    if not getattr(P, '_use_cache', False):
        return None
    d = {'elems': [int(x) for x in P._elements],
         'leq': sorted([int(a), int(b), int(bool(v))] for (a, b), v in P._cache_leq.items())}
    for nm, attr in (('desc', '_cache_descendants'), ('anc', '_cache_ancestors'), ('chil', '_cache_children'),
                     ('par', '_cache_parents')):
        d[nm] = sorted([int(k)] + sorted(int(x) for x in v) for k, v in getattr(P, attr).items())
    return d


def observe(P, order, in_place=False):
    Q = P if in_place else copy.deepcopy(P)
    return [apply_op(Q, o, order, None) for o in obs_ops([int(x) for x in Q.elements])]


def build(c):
    from fcapy.poset import POSet
    order, E = c['order'], list(c['elems'])
    hostile = c.get('hostile', 0)
    if c['use_cache'] and c.get('cd'):
        # hostile caller: mutable containers that are emptied right after the constructor returned
        cd = {k: (set(v) if hostile else frozenset(v)) for k, v in covers(order, E)}
        E_in = list(E)
        P = POSet(E_in, LEQ[order], use_cache=True, children_dict=cd)
        if hostile:
            E_in.clear()
            for v in cd.values():
                v.clear()
            cd.clear()
        return P
    if hostile == 2:
        return POSet((x for x in E), LEQ[order], use_cache=bool(c['use_cache']))      # one-shot iterable
    E_in = list(E)
    P = POSet(E_in, LEQ[order], use_cache=bool(c['use_cache']))
    if hostile:
        E_in.clear()
    return P


def impl(c):
    order = c['order']
    try:
        P = build(c)
    except Exception as e:
        return {'init_err': type(e).__name__}
    steps = []
    last = len(c['ops']) - 1
    mode = c.get('observe', 'all')
    for k, op in enumerate(c['ops']):
        if op[0] == 'mut':
            sts = [{'out': apply_mut(P, op[1], op[2], order)}]
        elif op[0] == 'dict':
            sts = [{'out': o} for o in apply_dict(P, op[1], op[2] if len(op) > 2 else None)]
        else:
            sts = [{'out': apply_op(P, op, order, c['use_cache'])}]
        for st in sts:
            st['h'] = k
        if sts:
            st = sts[-1]
            if c.get('state'):
                st['state'] = dump_state(P)
            if mode == 'all':
                st['obs'] = observe(P, order)
            elif mode == 'last' and k == last:
                st['obs'] = observe(P, order, in_place=True)    # the poset is discarded afterwards
        steps += sts
    return {'steps': steps}


# ------------------------------------------------------------------------------------------ Lean side
def requests(c):
    cd = covers(c['order'], c['elems']) if (c['use_cache'] and c.get('cd')) else None
    return [dict(op='C09.run', order=c['order'], elems=c['elems'], use_cache=bool(c['use_cache']),
                 children_dict=cd, ops=[x for x, _ in expand(c)], observe=c.get('observe', 'all'),
                 state=bool(c.get('state')))]


def _first_divergence(c, io, rep):
    """(step index, where, kind, detail) of the first divergence, or None."""
    r = rep[0]
    if 'init_err' in r or 'init_err' in io:
        if r.get('init_err') != io.get('init_err'):
            return (-1, 'init', 'correspondence', f'constructor: impl {io} model {r}')
        return None
    if not r.get('init_check', True):
        return (-1, 'init', 'harness', 'the model state built from children_dict fails invCheck (the theorem does '
                                       'not apply to this start state)')
    xs = expand(c)
    if not (len(xs) == len(io['steps']) == len(r['steps'])):
        return (-1, 'len', 'harness', f'step counts differ: history expands to {len(xs)} model operations, '
                                      f'implementation side has {len(io["steps"])}, model {len(r["steps"])}')
    for (xop, h), si, sm in zip(xs, io['steps'], r['steps']):
        k, op = h, (c['ops'][h] if c['ops'][h] == xop else [c['ops'][h], xop])
        if sm['ok']:
            if sm['out'] != sm['fresh']:
                return (k, 'out', 'harness', f'step {k} {op}: model {sm["out"]} != Fresh {sm["fresh"]} although the '
                                             f'history is valid (contradicts theorem out_step)')
            if not sm.get('inv', True):
                return (k, 'inv', 'harness', f'after step {k} {op}: the model state fails invCheck (some cache entry '
                                             f'is not the Fresh value)')
            if si['out'] != sm['fresh']:
                return (k, 'out', 'property', f'step {k} {op}: implementation answered {si["out"]}, a fresh poset '
                                              f'over the current elements answers {sm["fresh"]}')
            if 'obs' in si:
                if not sm.get('obs_eq', True):
                    return (k, 'obs', 'harness', f'after step {k} {op}: model observation != Fresh observation')
                if si['obs'] != sm['obs']:
                    oo = obs_ops(next_elems_all(c, k))
                    bad = [(o, a, b) for o, a, b in zip(oo, si['obs'], sm['obs']) if a != b][:4]
                    return (k, 'obs', 'property', f'after step {k} {op}: observation differs from a fresh poset: '
                            + '; '.join(f'{o}: impl {a} fresh {b}' for o, a, b in bad))
        else:
            if si['out'] != sm['out']:
                return (k, 'out', 'correspondence', f'step {k} {op} (history left the valid range): implementation '
                                                    f'{si["out"]} model {sm["out"]}')
            if 'obs' in si:
                mo = sm.get('obs_model', sm.get('obs'))
                if si['obs'] != mo:
                    return (k, 'obs', 'correspondence', f'after step {k} {op} (history left the valid range): '
                                                        f'observations of implementation and model differ')
    return None


def next_elems_all(c, k):
    E = list(c['elems'])
    for op in c['ops'][:k + 1]:
        E = next_elems(E, op)
    return E


def judge(c, io, rep):
    d = _first_divergence(c, io, rep)
    if d is None:
        return dict(ok=True)
    return dict(ok=False, kind=d[2], detail=d[3], step=d[0], where=d[1])


def nontrivial(c):
    leq = LEQ[c['order']]
    E = c['elems']
    comparable = any(i != j and leq(E[i], E[j]) for i in range(len(E)) for j in range(len(E)))
    muts = [o for o in c['ops'] if o[0] in ('add', 'del', 'remove')]
    return bool(muts) and (comparable or any(o[0] == 'add' for o in muts))


def key(c):
    return [c['order'], c['elems'], bool(c['use_cache']), bool(c.get('cd')), c['ops'], c.get('hostile', 0)]


def branch(c, io, rep):
    out = [c['stream'], ('cache' if c['use_cache'] else 'nocache') + (':cd' if c.get('cd') else '')]
    out += ['op:' + o[0] + (':fill' if o[0] == 'add' and o[2] else '') + (':' + o[2][0] if o[0] == 'mut' else '')
            + (':' + o[1] if o[0] == 'dict' else '') for o in c['ops']]
    if c.get('hostile'):
        out.append('hostile-ctor:%d' % c['hostile'])
    r = rep[0]
    if 'steps' in r and 'steps' in io:
        for si, sm in zip(io['steps'], r['steps']):
            if isinstance(si['out'], dict) and 'err' in si['out']:
                out.append('err:' + si['out']['err'])
            if not sm['ok']:
                out.append('left-valid-range')
                break
        if c.get('state') and c['use_cache']:
            diff = set()
            for si, sm in zip(io['steps'], r['steps']):
                a, b = si.get('state'), sm.get('state')
                if a is None or b is None:
                    continue
                for f in ('leq', 'desc', 'anc', 'chil', 'par'):
                    if a[f] != b[f]:
                        diff.add(f)
            out.append('state:equal' if not diff else 'state:differ:' + '+'.join(sorted(diff)))
    return out


def signature(c, io, rep, v):
    k = v.get('step', -1)
    op = c['ops'][k] if 0 <= k < len(c['ops']) else ['init']
    nm = op[0] + (':fill' if op[0] == 'add' and op[2] else '')
    sym = 'wrong'
    try:
        o = io['steps'][k]['out']
        if isinstance(o, dict) and 'err' in o:
            sym = 'err:' + o['err']
    except Exception:
        pass
    return f"C09:{v.get('kind')}:{nm}:{v.get('where')}:{sym}:{'cache' if c['use_cache'] else 'nocache'}" \
           f"{':cd' if c.get('cd') else ''}"


def shrink(c):
    ops = c['ops']
    for i in range(len(ops)):
        d = dict(c)
        d['ops'] = ops[:i] + ops[i + 1:]
        d['observe'] = 'all'
        yield d
    if len(ops) > 1:
        d = dict(c)
        d['ops'] = ops[:-1]
        d['observe'] = 'all'
        yield d
    E = c['elems']
    for i in range(len(E)):
        # drop a start element and re-index the operations that name positions
        def fix(op):
            nm = op[0]
            if nm == 'leq':
                a, b = op[1], op[2]
                if a == i or b == i:
                    return None
                return ['leq', a - (a > i), b - (b > i)]
            if nm in REL or nm == 'del':
                if op[1] == i:
                    return None
                return [nm, op[1] - (op[1] > i)]
            if nm in ('join', 'meet'):
                return [nm, [x - (x > i) for x in op[1] if x != i]]
            if nm == 'eq':
                return [nm, [x for x in op[1] if x != E[i]]]
            if nm == 'mut':
                q = fix(op[2])
                return None if q is None else ['mut', op[1], q]
            return op
        # only sound while no mutation precedes (positions move); try anyway, the verdict decides
        nops = [fix(o) for o in ops]
        d = dict(c)
        d['elems'] = E[:i] + E[i + 1:]
        d['ops'] = [o for o in nops if o is not None]
        d['observe'] = 'all'
        yield d
    if c.get('hostile'):
        d = dict(c)
        d['hostile'] = 0
        yield d
    for i, o in enumerate(ops):
        if o[0] == 'mut':                   # the plain query instead of the hostile one
            d = dict(c)
            d['ops'] = ops[:i] + [o[2]] + ops[i + 1:]
            yield d
        if o[0] in ('join', 'meet') and len(o[1]) > 0:
            for j in range(len(o[1])):
                d = dict(c)
                d['ops'] = ops[:i] + [[o[0], o[1][:j] + o[1][j + 1:]]] + ops[i + 1:]
                yield d


# ------------------------------------------------------------------------------------------ generators
U3 = list(range(8))


def _orbit_rep(s):
    """canonical representative of a set of 3-bit masks under permutations of the 3 atoms"""
    best = None
    for p in itertools.permutations(range(3)):
        t = tuple(sorted(sum(((m >> b) & 1) << p[b] for b in range(3)) for m in s))
        if best is None or t < best:
            best = t
    return best


def start_sets(kmax, reps_only):
    seen = set()
    for k in range(kmax + 1):
        for s in itertools.combinations(U3, k):
            if reps_only:
                r = _orbit_rep(s)
                if r in seen:
                    continue
                seen.add(r)
                yield list(r)
            else:
                yield list(s)


def alphabet(E, use_cache, last):
    n = len(E)
    pairs = [[i, j] for i in range(n) for j in range(i + 1, n)]
    qs_special = [['join', p] for p in pairs] + [['meet', p] for p in pairs]
    if n > 0:
        qs_special.append(['index', E[0]])
    qs_special.append(['eq', E[::-1]])
    muts = []
    for e in U3:
        if e not in E:
            muts.append(['add', e, True])
            muts.append(['add', e, False])
    if n > 0:
        muts.append(['add', E[-1], True])
        muts.append(['remove', E[0]])
    muts += [['del', i] for i in range(n + 1)]
    absent = next((e for e in U3 if e not in E), None)
    if absent is not None:
        muts.append(['remove', absent])
    if last:
        return muts            # every query after the last mutation is part of the full observation
    qs = [['leq', i, j] for i in range(n) for j in range(n)]
    for i in range(n):
        qs += [[r, i] for r in REL]
    qs += [['tops'], ['bottoms'], ['join', []], ['meet', []]]
    if use_cache:
        qs.append(['fill', 'all'])
    return qs + qs_special + muts


def histories(E, use_cache, length, first_mutation=False):
    """all histories of exactly `length` operations (the alphabet follows the evolving element list)"""
    def rec(E, k, acc):
        if k == length:
            yield list(acc)
            return
        for op in alphabet(E, use_cache, last=(k == length - 1)):
            if first_mutation and k == 0 and op[0] not in ('add', 'del', 'remove'):
                continue
            acc.append(op)
            yield from rec(next_elems(E, op), k + 1, acc)
            acc.pop()
    yield from rec(list(E), 0, [])


def _exh(E, cfg, length, stream='exhaustive', first_mutation=False):
    use_cache, cd = cfg
    for h in histories(E, use_cache, length, first_mutation):
        yield dict(stream=stream, order='subset', elems=list(E), use_cache=use_cache, cd=cd, ops=h, observe='last')


COLD, WITHCD, NOCACHE = (True, False), (True, True), (False, False)


def _exhaustive(tier, boost, seed=0):
    """exhaustive histories; yields the short ones (length <= 2) first"""
    thorough = tier == 'thorough'
    starts = [s for s in start_sets(3, reps_only=True)]
    if thorough:
        starts += [s[::-1] for s in start_sets(3, reps_only=True) if len(s) > 1]
    if thorough:
        have = {tuple(s) for s in starts}
        starts += [s for s in start_sets(3, reps_only=False) if tuple(s) not in have]
    for E in starts:
        for L in (1, 2):
            yield from _exh(E, COLD, L)
            yield from _exh(E, WITHCD, L)
            yield from _exh(E, NOCACHE, L)
    yield 'deep'                                   # marker: the caller interleaves the other streams here
    for E in starts:
        if thorough or boost or len(E) < 3:
            yield from _exh(E, COLD, 3)
        else:                                      # quick: every 4th history, the offset moves with VERIF_SEED
            for k, c in enumerate(_exh(E, COLD, 3)):
                if k % 4 == seed % 4:
                    yield c
        if thorough:
            yield from _exh(E, WITHCD, 3, first_mutation=True)
    if thorough:
        for E in ([], [0]):          # (all start sets of <= 2 elements: 21 M histories, run once: no failure)
            yield from _exh(E, COLD, 4, stream='exhaustive-len4')
        for s in itertools.combinations(U3, 4):
            if list(_orbit_rep(s)) != list(s):
                continue
            for L in (1, 2):
                yield from _exh(list(s), COLD, L, stream='exhaustive-4elems')
                yield from _exh(list(s), WITHCD, L, stream='exhaustive-4elems')


# ---- directed streams (deterministic, cheap, run first) -----------------------------------------------------
def _case(stream, E, cfg, ops, order='subset', **kw):
    return dict(stream=stream, order=order, elems=list(E), use_cache=cfg[0], cd=cfg[1], ops=ops, observe='last', **kw)


def _after(E, ops):
    for o in ops:
        E = next_elems(E, o)
    return E


def _alias():
    """(H2) every relation set / tops-bottoms list / *_dict a query returns is mutated in place by the caller
    (cleared, or a foreign index added) and then everything is asked again: on the correct code the returned values
    are frozensets or copies, so nothing inside the poset may change"""
    for E in start_sets(3, reps_only=True):
        absent = [e for e in U3 if e not in E]
        pres = [[]] + [[['add', e, True]] for e in absent] + [[['add', absent[0], False]], [['fill', 'all']]]
        if E:
            pres += [[['add', absent[0], True], ['del', 0]]]
        for cfg in (COLD, WITHCD):
            for pre in pres:
                n = len(_after(E, pre))
                qs = [[r, i] for r in REL for i in range(n)] + [['tops'], ['bottoms']]
                for how in ('clear', 'add'):
                    for q in qs:
                        yield _case('alias', E, cfg, pre + [['mut', how, q]])
                    if n:
                        for w in DICTS:
                            yield _case('alias', E, cfg, pre + [['dict', w, how]])


def _dictmemo():
    """(H1) read a *_dict / join / meet, change the poset by a net-zero-size mutation (so that a memo keyed on the
    size or never invalidated survives), read again - no read in between"""
    for E in start_sets(3, reps_only=True):
        if not E:
            continue
        absent = [e for e in U3 if e not in E][:3]
        n = len(E)
        reads = [['dict', w] for w in DICTS] + [['join', []], ['meet', []]]
        if n >= 2:
            reads += [['join', [0, n - 1]], ['meet', [0, n - 1]]]
        for cfg in (COLD, WITHCD, NOCACHE):
            for x in {E[0], E[-1]}:
                for y in absent:
                    mids = [[['remove', x], ['add', y, True]], [['remove', x], ['add', y, False]],
                            [['add', y, True], ['remove', x]], [['del', 0], ['add', y, False]]]
                    for mid in mids:
                        for rd in reads:
                            yield _case('dictmemo', E, cfg, [rd] + mid + [rd])


U4 = list(range(16))


def _orbit_rep4(s):
    best = None
    for p in itertools.permutations(range(4)):
        t = tuple(sorted(sum(((m >> b) & 1) << p[b] for b in range(4)) for m in s))
        if best is None or t < best:
            best = t
    return best


_NG = []


def _nongraded_starts():
    if not _NG:
        seen = set()
        for k in (5, 6):
            for s in itertools.combinations(U4, k):
                r = _orbit_rep4(s)
                if r not in seen:
                    seen.add(r)
                    _NG.append(list(r))
    return _NG


def _nongraded(tier, seed):
    """(H3) insertion with cache filling into every poset of 5 and 6 subsets of a 4-set (one per orbit of the atom
    permutations; pentagons and other non graded shapes included), elements listed ascending and descending"""
    for E0 in _nongraded_starts():
        absent = [e for e in U4 if e not in E0]
        for E in (E0, E0[::-1]):
            for j, x in enumerate(absent):
                yield _case('nongraded', E, COLD, [['add', x, True]])
                if tier != 'quick' or j % 2 == seed % 2:
                    yield _case('nongraded', E, WITHCD, [['add', x, True]])


def _bigcd():
    """(H3) posets of 10..14 elements (two-digit indexes; the constructor stops prefilling the comparison table at 10)
    with and without children_dict: one or two mutations, all flags"""
    div = [1, 2, 3, 4, 6, 8, 9, 12, 18, 24, 27, 36, 54, 72, 108, 216]
    mix = [5, 0, 12, 3, 9, 15, 6, 1, 10, 7, 2, 8, 4, 14]
    bases = [('subset', U4[:10], U4), ('subset', U4[:13], U4), ('subset', U4[::-1][:11], U4), ('subset', mix[:12], U4),
             ('divides', div[:10], div), ('divides', div[::-1][:13], div)]
    for order, E, uni in bases:
        absent = [e for e in uni if e not in E][:3]
        n = len(E)
        for cfg, hostile in ((WITHCD, 0), (WITHCD, 1), (COLD, 0), (COLD, 2), (NOCACHE, 1)):
            pres = [[], [['del', 3]], [['descendants', n - 1]], [['remove', E[-1]]], [['dict', 'parents']]]
            for pre in pres:
                for x in absent:
                    for fill in (False, True):
                        yield _case('bigcd', E, cfg, pre + [['add', x, fill]], order=order, hostile=hostile)
                        yield _case('bigcd', E, cfg, pre + [['add', x, fill], ['add', absent[-1], True]], order=order,
                                    hostile=hostile)
                for i in (0, 9, n - 1):
                    yield _case('bigcd', E, cfg, pre + [['del', i]], order=order, hostile=hostile)


def _random_history(rng, order, universe, E, use_cache, length, malformed=False):
    E = list(E)
    ops = []
    bad_at = rng.randrange(length) if malformed and length else -1
    for k in range(length):
        n = len(E)
        r = rng.random()
        if k == bad_at:
            big = n + rng.randint(0, 2)
            op = rng.choice([['leq', big, rng.randint(0, max(n, 1))], ['leq', rng.randint(0, max(n, 1)), big],
                             [rng.choice(REL), big], ['join', [big]], ['meet', [0, big]]])
        elif r < 0.50 and n > 0:
            q = rng.random()
            if q < 0.25:
                op = ['leq', rng.randrange(n), rng.randrange(n)]
            elif q < 0.70:
                op = [rng.choice(REL), rng.randrange(n)]
            elif q < 0.80:
                op = [rng.choice(['tops', 'bottoms'])]
            elif q < 0.93:
                S = [rng.randrange(n) for _ in range(rng.randint(0, 3))]
                op = [rng.choice(['join', 'meet']), S]
            elif q < 0.96:
                op = ['index', rng.choice(E) if rng.random() < 0.8 else rng.choice(universe)]
            else:
                O = list(E)
                rng.shuffle(O)
                if rng.random() < 0.3 and O:
                    O.pop()
                op = ['eq', O]
        elif r < 0.54 and use_cache:
            op = ['fill', rng.choice(['leq', 'desc', 'anc', 'chil', 'par', 'all'])]
        elif r < 0.60 and n > 0:
            if rng.random() < 0.6:
                q = [rng.choice(REL), rng.randrange(n)] if rng.random() < 0.85 else [rng.choice(['tops', 'bottoms'])]
                op = ['mut', rng.choice(['clear', 'add']), q]
            else:
                op = ['dict', rng.choice(DICTS)] + ([rng.choice(['clear', 'add'])] if rng.random() < 0.5 else [])
        elif r < 0.80 or n == 0:
            cand = [e for e in universe if e not in E]
            if cand and len(E) < 16 and rng.random() < 0.93:
                op = ['add', rng.choice(cand), rng.random() < 0.7]
            elif E:
                op = ['add', rng.choice(E), rng.random() < 0.7]
            else:
                op = ['tops']
        else:
            q = rng.random()
            if q < 0.55:
                op = ['del', rng.randrange(n)]
            elif q < 0.95:
                op = ['remove', rng.choice(E)]
            elif q < 0.975:
                op = ['del', n]
            else:
                op = ['remove', rng.choice(universe)]
        ops.append(op)
        E = next_elems(E, op)
    return ops


def _random(tier, rng, boost):
    n = 400 if tier == 'quick' else 12000
    if boost:
        n *= 3
    for k in range(n):
        order = 'subset' if k % 2 == 0 else 'divides'
        if order == 'subset':
            universe = list(range(32)) if rng.random() < 0.4 else list(range(16))
        else:
            universe = rng.choice([list(range(1, 37)), [1, 2, 3, 4, 6, 8, 9, 12, 18, 24, 27, 36, 54, 72, 108, 216],
                                   [2, 3, 4, 5, 6, 8, 10, 12, 15, 20, 30, 60, 7, 14, 21, 42]])
        m = rng.randint(0, min(12, len(universe)))
        E = rng.sample(universe, m)
        use_cache = rng.random() < 0.8
        cd = use_cache and rng.random() < 0.35
        L = rng.randint(1, 40)
        malformed = (k % 10 == 9)
        ops = _random_history(rng, order, universe, E, use_cache, L, malformed)
        hostile = rng.choice([0, 0, 1, 1 if cd else 2])
        yield dict(stream='malformed' if malformed else 'random', order=order, elems=E, use_cache=use_cache, cd=cd,
                   ops=ops, observe='all', state=True, hostile=hostile)


def _corpus():
    import glob
    import json
    import os
    here = os.path.dirname(os.path.dirname(os.path.dirname(os.path.abspath(__file__))))
    for p in sorted(glob.glob(os.path.join(here, 'corpus', 'C09', '*.json'))):
        c = json.load(open(p))
        c['stream'] = 'corpus'
        yield c


def gen(tier, seed, boost=False):
    rng = random.Random(seed * 1000003 + 909)
    yield from _corpus()
    # cheap directed streams first, then the short exhaustive histories, the random ones, and the long exhaustive ones
    yield from _alias()
    yield from _dictmemo()
    yield from _bigcd()
    yield from _nongraded(tier, seed)
    ex = _exhaustive(tier, boost, seed)
    for c in ex:
        if c == 'deep':
            break
        yield c
    yield from _random(tier, rng, boost)
    yield from ex

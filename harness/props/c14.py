"""C14 — many-valued contexts: lattice and binarisation preserve the closure system."""
import itertools
import random

import gen as G
from implutil import ints, exc_name

RULE = ('case = (many-valued table: column types from {IntervalPS, IntervalNumpyPS, SetPS, AttributePS}, one cell per '
        'object and column) x kind in {cl: closure laws on all given non-empty object lists; conj: extension_i of '
        'descriptions (dict orders, partial dicts) x base lists; bin: binarize(); lat: ConceptLattice.from_context with '
        'n_projections_to_binarize in {0,1000}; hist: first use of ONE context object (n_bin_attrs, binarize, both mining '
        'paths, closures, ...) -> mutation through a public setter (ps.data = .., K.pattern_structures = .., K.object_names '
        '= ..) or in-place scribbling on returned values / the caller\'s own inputs -> second use, judged by the property '
        'on the CURRENT content}.  Object lists for closures / from_objects and base lists include repetitions, every '
        'order, tuples, arrays and sets; interval ends are mapped through order-preserving scales with values float32 '
        'cannot hold and +-inf.  Exhaustive over all small tables, then seeded random larger tables. '
        'Tables for which BottomOK fails (AttributePS empty-set convention, finding D17) are kept in their own streams. '
        'non-trivial = at least 2 rows, not all rows equal; distinct = distinct (kind, types, cells, extra arguments)')
EXHAUSTIVE = {
    'quick': 'histories: every 2-row one-column table (IntervalPS, IntervalNumpyPS, SetPS, AttributePS) replaced by every '
             'other one through ps.data after a full first use, judged as bin/lat/cl on the new content; all 1-column '
             'IntervalNumpyPS tables with <=3 rows and 2-column tables with <=2 rows containing one; closure laws on EVERY '
             'index list of length <= n (repetitions included) for n <= 3; then the object-wise stream: all 4-row x 2-column tables over {IntervalPS on {0,1}: 2 points + 1 interval, '
             'SetPS over subsets of {a}, AttributePS} and 300 random 5-7-row tables of shuffled duplicated/nested rows, '
             'each mined with n_projections_to_binarize in {0,1000}; then all tables with <=3 rows x <=2 columns over {IntervalPS on the grid {0,1,2}: 3 points + 3 proper intervals '
             '(3x2 tables: 2 points + 2 intervals), SetPS over subsets of {a,b}, AttributePS}; per table: all non-empty '
             'ordered object lists (closure laws), all descriptions on the grid in every dict order incl. partial dicts x '
             '(None + all ordered base lists) for tables with <=2 rows or 1 column, binarize(), both mining paths',
    'thorough': '(a boosted quick run adds only the IntervalNumpyPS, 4x1 and 3x the random streams) quick scope with the full interval domain for 3x2 tables, IntervalNumpyPS columns, plus 4-row tables '
                'with 1 column (SetPS over {a,b,c}) and 4x2 tables over a reduced cell domain'}
EXPLANATION = ('Lean proves, for every many-valued context with BottomOK, that all three paths of close_by_one (object-wise on '
               'descriptions, binarising, binarising-transposed) return exactly the closed object sets, each once, with '
               'intention_i(extent), and agree (mv_lattice_exact, paths_agree; fuel = closed form closeByOneFuel, which is '
               'the fuel the driver runs the model with).  '
               'closure/extension outputs are pinned uniquely (Lean: model = conjunctive filter, closure laws proved), so '
               'implementation != spec is a property failure; lattices are compared as sets of (extent, description) '
               'against the brute-force closed sets (Lean spec) and the cover relation of inclusion; the binarised table '
               'is judged by brute-force concept enumeration in Lean (Spec.allConcepts).  Failures on tables with '
               'not BottomOK are classified under the known finding C14:attributeps-empty-set-convention.')
ASSUMPTIONS = ['every many-valued context has >= 1 object and >= 1 pattern structure; cells are valid for their structure',
               'interval ends are integral floats (exactly representable); SetPS symbols are single letters',
               'object index arguments are lists/tuples (bases also arrays and sets) of valid indexes, repetitions allowed',
               'descriptions passed to extension_i have the shape of their column (dict keys are valid column indexes)']
TRUSTED = ['the worklist loops of close_by_one_objectwise(_fbarray) are the machine cboLoop of Model/CbO (property C02) run with '
           'the many-valued intention_i/extension_i resp. on the binarised table',
           'IntervalNumpyPS columns are run through the IntervalPS model (agreement of the two engines is property C13)',
           'caspailleur order routines behind order_extents_comparison are modelled by their contract '
           '(cover relation of inclusion; KeyError on repeated extents)',
           'ConceptLattice.sort_concepts order is not compared (not part of the property)']
CHUNK = 150
SYM = 'abc'
KNOWN_SIG = 'C14:attributeps-empty-set-convention'

# ----------------------------------------------------------------------------------------------------------
# cell domains

IV_FULL = [[0, 0], [1, 1], [2, 2], [0, 1], [1, 2], [0, 2]]
IV_SMALL = [[0, 0], [1, 1], [0, 1], [1, 2]]
SET_AB = [[], [0], [1], [0, 1]]
SET_ABC = [list(c) for k in range(4) for c in itertools.combinations(range(3), k)]
ATTR = [0, 1]


def domain(t, iv=IV_FULL, sets=SET_AB):
    return {'I': iv, 'N': iv, 'S': sets, 'A': ATTR}[t]


def bottom_ok_py(types, rows):
    """BottomOK computed directly from the table (used only to pick the stream; Lean's decision is authoritative):
    cl(empty) as the code computes it = objects whose SetPS cells are all empty (nothing when an interval column
    exists); it must be inside the extent of the bottom description (those objects also need every AttributePS cell)."""
    if any(t in 'IN' for t in types):
        return True
    for r in rows:
        if all(len(r[j]) == 0 for j, t in enumerate(types) if t == 'S'):
            if not all(r[j] for j, t in enumerate(types) if t == 'A'):
                return False
    return True


def nbin_py(types, rows):
    """n_bin_attrs computed from the table (only used to aim the generator at the transposed shape)"""
    tot = 0
    for j, t in enumerate(types):
        col = [r[j] for r in rows]
        if t in 'IN':
            tot += len({v[0] for v in col}) + len({v[1] for v in col})
        elif t == 'S':
            tot += 2 ** len({x for v in col for x in v})
        else:
            tot += 1
    return tot


def all_descs(types, iv_grid=(0, 1, 2), syms=2):
    """every description dict on the grid: each column absent or any value of its shape, every key order"""
    per = []
    for t in types:
        if t in 'IN':
            vals = [{'I': None}] + [{'I': [a, b]} for a in iv_grid for b in iv_grid if a <= b]
        elif t == 'S':
            vals = [{'S': None}] + [{'S': list(c)} for k in range(syms + 1) for c in itertools.combinations(range(syms), k)]
        else:
            vals = [{'B': 0}, {'B': 1}]
        per.append(vals)
    out = []
    idx = list(range(len(types)))
    for k in range(len(types) + 1):
        for keys in itertools.permutations(idx, k):
            for combo in itertools.product(*[per[i] for i in keys]):
                out.append([[i, v] for i, v in zip(keys, combo)])
    return out


def fill(c, rng=None):
    """derive the kind-specific arguments of a case from its table"""
    n = len(c['rows'])
    if c['kind'] == 'cl':
        if n <= 3:
            # every non-empty index list of length <= n, repetitions and every order included
            c['subsets'] = [list(p) for k in range(1, n + 1) for p in itertools.product(range(n), repeat=k)]
        else:
            subs = [s for s in G.sorted_sublists(range(n)) if s]
            if n > 4:
                subs = subs if len(subs) <= 63 else subs[:63]
            extra = []
            r = rng or random.Random(n)
            for s in subs:
                if len(s) > 1 and r.random() < 0.4:
                    t = list(s)
                    r.shuffle(t)
                    extra.append(t)
            # index lists with repetitions: "bootstrap samples" of exactly n draws, and of other lengths
            for _ in range(10):
                extra.append([r.randrange(n) for _k in range(n)])
            for _ in range(6):
                extra.append([r.randrange(n) for _k in range(r.randint(1, 2 * n))])
            c['subsets'] = subs + extra
    elif c['kind'] == 'conj':
        if 'descs' not in c:
            c['descs'] = all_descs(c['types'])
        if n <= 3:
            # None, and every index list of length <= n (repetitions and every order included)
            c['bases'] = [None] + [list(p) for k in range(n + 1) for p in itertools.product(range(n), repeat=k)]
        else:
            r = rng or random.Random(n)
            c['bases'] = [None, []] + [G.random_sel(r, n) for _ in range(4)] + \
                [[r.randrange(n) for _k in range(r.randint(1, n + 2))] for _ in range(4)]
    return c


NOTBOTTOM_CAP = 80   # tables; the runner stops a run after 200 failing cases, known-finding hits included
_notbottom_seen = [0]


def table_cases(types, rows, stream, kinds=('cl', 'conj', 'bin', 'lat'), rng=None, descs=None, scale=None):
    if not bottom_ok_py(types, rows):
        stream = stream + '-notbottomok'
        _notbottom_seen[0] += 1
        if _notbottom_seen[0] > NOTBOTTOM_CAP:
            # beyond the cap only the operations that D17 does not touch are exercised on such tables
            kinds = tuple(k for k in kinds if k in ('cl', 'conj'))
    for kind in kinds:
        c = dict(stream=stream, kind=kind, types=list(types), rows=[list(r) for r in rows])
        if scale is not None:
            c['scale'] = scale
        if kind == 'conj' and descs is not None:
            c['descs'] = descs
        yield fill(c, rng)


def tables(n, types, doms):
    cols = [list(itertools.product(d, repeat=n)) for d in doms]
    for combo in itertools.product(*cols):
        yield [[combo[j][i] for j in range(len(types))] for i in range(n)]


def random_desc(rng, types, grid, syms):
    keys = [i for i in range(len(types)) if rng.random() < 0.8]
    rng.shuffle(keys)
    d = []
    for i in keys:
        t = types[i]
        if t in 'IN':
            if rng.random() < 0.1:
                v = {'I': None}
            else:
                a, b = sorted((rng.choice(grid), rng.choice(grid)))
                v = {'I': [a, b]}
        elif t == 'S':
            v = {'S': None} if rng.random() < 0.1 else {'S': sorted(rng.sample(range(syms), rng.randint(0, syms)))}
        else:
            v = {'B': rng.randint(0, 1)}
        d.append([i, v])
    return d


def random_table(rng, nmax, mmax, grid, syms, np_ok=True):
    n, m = rng.randint(1, nmax), rng.randint(1, mmax)
    types = [rng.choice('ISAAN' if np_ok else 'ISAA') for _ in range(m)]
    if rng.random() < 0.35:   # make not-BottomOK tables less dominant: force an interval column sometimes
        types[rng.randrange(m)] = 'I'
    rows = []
    fam = rng.choice(('random', 'random', 'random', 'duprows', 'const', 'chain'))
    for i in range(n):
        r = []
        for t in types:
            if t in 'IN':
                a, b = sorted((rng.choice(grid), rng.choice(grid)))
                if rng.random() < 0.5:
                    b = a
                if fam == 'chain':
                    a, b = min(grid), grid[min(i, len(grid) - 1)]
                r.append([a, b])
            elif t == 'S':
                s = sorted(rng.sample(range(syms), rng.randint(0, syms)))
                if fam == 'chain':
                    s = list(range(min(i, syms)))
                r.append(s)
            else:
                r.append(rng.randint(0, 1) if fam != 'chain' else int(i % 2 == 0))
        rows.append(r)
    if fam == 'duprows' and n > 1:
        rows[rng.randrange(n)] = [list(x) if isinstance(x, list) else x for x in rows[rng.randrange(n)]]
    if fam == 'const':
        rows = [[list(x) if isinstance(x, list) else x for x in rows[0]] for _ in range(n)]
    return types, rows


def pooled_table(rng):
    """5..7 rows drawn (with repetition, shuffled) from a small pool of nested / overlapping row values in 1..2
    columns: duplicated and nested rows that are NOT adjacent, the situation in which an extent jumps ahead"""
    m = rng.randint(1, 2)
    types = [rng.choice('IISSA') for _ in range(m)]
    if rng.random() < 0.5 and 'I' not in types:
        types[rng.randrange(m)] = 'I'       # keep most of these tables BottomOK
    npool = rng.randint(2, 4)
    pool = []
    for _ in range(npool):
        r = []
        for t in types:
            if t == 'I':
                a, b = sorted((rng.randint(0, 2), rng.randint(0, 2)))
                r.append([a, b])
            elif t == 'S':
                r.append(sorted(rng.sample(range(2), rng.randint(0, 2))))
            else:
                r.append(rng.randint(0, 1))
        pool.append(r)
    n = rng.randint(5, 7)
    rows = [[list(v) if isinstance(v, list) else v for v in rng.choice(pool)] for _ in range(n)]
    return types, rows


def hist_cases(types, rows0, rows, stream, mut, pre, rng=None, names2=None, scale=None, subs=('bin', 'lat', 'cl'),
               all_cols=False):
    """use -> mutate -> use on one object; the second use is judged on the final content `rows`"""
    if not bottom_ok_py(types, rows):
        subs = tuple(x for x in subs if x == 'cl')     # D17 tables: only what the known finding does not touch
    for sub in subs:
        c = dict(stream=stream, kind='hist', sub=sub, types=list(types), rows0=[list(r) for r in rows0],
                 rows=[list(r) for r in rows], mut=mut, pre=list(pre))
        if names2 is not None:
            c['names2'] = names2
        if scale is not None:
            c['scale'] = scale
        if all_cols:
            c['all_cols'] = True
        if sub == 'cl':
            c['subsets'] = fill(dict(kind='cl', rows=c['rows']), rng)['subsets']
        yield c


def mutate_rows(rng, types, rows, grid, syms):
    """a different table of the same shape: a column redrawn, a cell changed, two rows swapped, or all redrawn"""
    n = len(rows)
    new = [[list(v) if isinstance(v, list) else v for v in r] for r in rows]

    def cell(t):
        if t in 'IN':
            a, b = sorted((rng.choice(grid), rng.choice(grid)))
            return [a, a] if rng.random() < 0.5 else [a, b]
        if t == 'S':
            return sorted(rng.sample(range(syms), rng.randint(0, syms)))
        return rng.randint(0, 1)
    how = rng.choice(('column', 'column', 'cell', 'swap', 'all'))
    if how == 'column':
        j = rng.randrange(len(types))
        for i in range(n):
            new[i][j] = cell(types[j])
    elif how == 'cell':
        i, j = rng.randrange(n), rng.randrange(len(types))
        new[i][j] = cell(types[j])
    elif how == 'swap' and n > 1:
        i, k = rng.sample(range(n), 2)
        new[i], new[k] = new[k], new[i]
    else:
        new = [[cell(t) for t in types] for _ in range(n)]
    return new


def load_corpus():
    import json
    import os
    d = os.path.join(os.path.dirname(os.path.dirname(os.path.dirname(os.path.abspath(__file__)))), 'corpus', 'C14')
    if os.path.isdir(d):
        for f in sorted(os.listdir(d)):
            if f.endswith('.json'):
                c = json.load(open(os.path.join(d, f)))
                c['stream'] = 'corpus' + ('-notbottomok' if not bottom_ok_py(c['types'], c['rows']) else '')
                yield c


def gen(tier, seed, boost=False):
    rng = random.Random(seed * 1000003 + 1414)
    _notbottom_seen[0] = 0
    thorough = tier == 'thorough'          # the full thorough scope
    extra = thorough or boost              # a boosted quick run adds the cheap extra streams only (stays ~minutes)
    yield from load_corpus()
    # the two witnesses of the known finding and a mixed table, always first
    yield from table_cases(['A'], [[0], [1]], 'exhaustive')
    yield from table_cases(['A'], [[0]], 'exhaustive')
    # ---- object-wise path on 4..7 objects (n_projections_to_binarize=0 judged against the closed sets) ----
    # early in the stream: CbO's canonicity/extent computation only has room to go wrong when a closure jumps
    # over an object that joins later, which needs >= 4 objects in an unsorted row order
    ow = {'I': [[0, 0], [1, 1], [0, 1]], 'S': [[], [0]], 'A': ATTR}
    for types in itertools.product('ISA', repeat=2):
        for rows in tables(4, types, [ow[t] for t in types]):
            yield from table_cases(types, rows, 'objectwise-4rows', kinds=('lat',))
    for _ in range(300 if tier == 'quick' else 3000):
        types, rows = pooled_table(rng)
        yield from table_cases(types, rows, 'objectwise-random', kinds=('cl', 'lat'), rng=rng)
    # ---- histories on ONE context object: use -> public setter -> use again (judged on the current content) ----
    # every 2-row one-column table replaced by every other one through `ps.data = ...` after everything was used once
    for t in 'INSA':
        tabs = list(tables(2, [t], [domain(t)]))
        for rows0 in tabs:
            for rows in tabs:
                if rows0 != rows:
                    yield from hist_cases([t], rows0, rows, 'history-2rows', 'data', PRE_OPS,
                                          scale=SCALES[1] if t == 'N' else None)
    for k in range(250 if tier == 'quick' else 2500):
        grid = list(range(rng.choice((3, 5))))
        syms = rng.choice((2, 3))
        types, rows0 = random_table(rng, 5, 3, grid, syms)
        if len(rows0) < 2:
            continue
        mut = rng.choice(('data', 'data', 'ps', 'hostile'))
        rows = rows0 if mut == 'hostile' else mutate_rows(rng, types, rows0, grid, syms)
        pre = PRE_OPS if rng.random() < 0.6 else [op for op in PRE_OPS if rng.random() < 0.5]
        names2 = [f'h{i}' for i in reversed(range(len(rows0)))] if rng.random() < 0.4 else None
        yield from hist_cases(types, rows0, rows, 'history-random', mut, pre, rng=rng, names2=names2,
                              scale=rng.choice(SCALES), all_cols=rng.random() < 0.3)
    # ---- IntervalNumpyPS columns, small, with values that float32 cannot hold ----------------------------------
    for n in (1, 2, 3):
        for rows in tables(n, ['N'], [IV_FULL]):
            yield from table_cases(['N'], rows, 'numpy-small', scale=SCALES[1])
    for types in itertools.product('NISA', repeat=2):
        if 'N' in types:
            for n in (1, 2):
                for rows in tables(n, types, [domain(t, IV_SMALL) for t in types]):
                    yield from table_cases(types, rows, 'numpy-small', kinds=('cl', 'bin', 'lat'),
                                           scale=SCALES[2] if n == 2 else None)
    # ---- exhaustive small scope ------------------------------------------------------------------------
    base_types = 'ISA'
    for n in (1, 2, 3):
        for m in (1, 2):
            for types in itertools.product(base_types, repeat=m):
                small = (n == 3 and m == 2 and not thorough)
                doms = [domain(t, IV_SMALL if small else IV_FULL) for t in types]
                conj = (n <= 2 or m == 1)
                for rows in tables(n, types, doms):
                    yield from table_cases(types, rows, 'exhaustive',
                                           kinds=('cl', 'conj', 'bin', 'lat') if conj else ('cl', 'bin', 'lat'))
    if extra:
        # IntervalNumpyPS columns: all 1-column tables and 2-column tables with <= 2 rows
        for n in (1, 2, 3):
            for m in (1, 2):
                if n == 3 and m == 2:
                    continue
                for types in itertools.product('NISA', repeat=m):
                    if 'N' not in types:
                        continue
                    for rows in tables(n, types, [domain(t) for t in types]):
                        yield from table_cases(types, rows, 'exhaustive-numpy')
        # 4 rows, 1 column (SetPS over {a,b,c})
        for t in 'ISAN':
            for rows in tables(4, [t], [domain(t, IV_FULL, SET_ABC)]):
                yield from table_cases([t], rows, 'exhaustive-4rows',
                                       descs=all_descs([t], syms=3) if t == 'S' else None)
    if thorough:
        # 4 rows, 2 columns over a reduced cell domain
        red = {'I': [[0, 0], [1, 1], [0, 1]], 'S': [[], [0], [0, 1]], 'A': ATTR}
        for types in itertools.product('ISA', repeat=2):
            for rows in tables(4, types, [red[t] for t in types]):
                yield from table_cases(types, rows, 'exhaustive-4rows', kinds=('cl', 'bin', 'lat'))
    # ---- tall tables: more objects than binary attributes (the transposed binarising shape) ------------
    ntall = 150 if tier == 'quick' else 1500
    made = 0
    while made < ntall:
        n = rng.randint(3, 6)
        m = rng.randint(1, 2)
        types = [rng.choice('IAAS') for _ in range(m)]
        const = {j: rng.choice(domain(t)) for j, t in enumerate(types)}
        alt = {j: rng.choice(domain(t)) for j, t in enumerate(types)}
        rows = [[(alt[j] if (t == 'A' or rng.random() < 0.25) and rng.random() < 0.5 else const[j])
                 for j, t in enumerate(types)] for _i in range(n)]
        rows = [[list(v) if isinstance(v, list) else v for v in r] for r in rows]
        if n <= nbin_py(types, rows):
            continue
        made += 1
        yield from table_cases(types, rows, 'tall', kinds=('cl', 'bin', 'lat'), rng=rng)
    # ---- seeded random larger tables -------------------------------------------------------------------
    nrand = 400 if tier == 'quick' else 6000
    if boost:
        nrand *= 3
    for _ in range(nrand):
        grid = list(range(rng.choice((3, 5))))
        syms = rng.choice((2, 3))
        types, rows = random_table(rng, 6, 3, grid, syms)
        descs = [random_desc(rng, types, grid, syms) for _k in range(12)] + [[]]
        yield from table_cases(types, rows, 'random', rng=rng, descs=descs, scale=rng.choice(SCALES))


# ----------------------------------------------------------------------------------------------------------
# implementation side

# Interval ends live on an integer grid in the cases and in the Lean model; the implementation is fed the grid
# point's image under a strictly increasing `scale` (the structures only compare, take min/max and copy values, so the
# model is the same up to that order isomorphism).  The non-identity scales hold values that float32 cannot represent
# and the infinities; a value that comes back changed (rounded, cast) is not found in the inverse table => failure.
INF = float('inf')
SCALES = [None,
          [0.1, 19.99, 16777217.0, 16777218.5, 1e300],
          [-INF, -19.99, 0.1, 16777217.0, INF]]
_SCALE = [None]       # scale of the case being executed (set by _impl)


def _up(x):
    sc = _SCALE[0]
    return float(x) if sc is None else sc[x]


def _cell(t, v):
    if t in 'IN':
        a, b = v
        return _up(a) if a == b else (_up(a), _up(b))
    if t == 'S':
        return {SYM[x] for x in v}
    return bool(v)


def _ps_classes():
    from fcapy.mvcontext import pattern_structure as PS
    return {'I': PS.IntervalPS, 'N': PS.IntervalNumpyPS, 'S': PS.SetPS, 'A': PS.AttributePS}


def make_mv(c, rows=None, obj_names=None):
    from fcapy.mvcontext import MVContext
    cls = _ps_classes()
    _SCALE[0] = c.get('scale')
    names = [str(j) for j in range(len(c['types']))]
    data = [[_cell(t, v) for t, v in zip(c['types'], r)] for r in (c['rows'] if rows is None else rows)]
    return MVContext(data, {nm: cls[t] for nm, t in zip(names, c['types'])}, attribute_names=names,
                     object_names=obj_names or [f'g{i}' for i in range(len(data))])


def _num(x):
    x = float(x)
    sc = _SCALE[0]
    if sc is not None:
        for i, v in enumerate(sc):
            if v == x:
                return i
        raise ValueError(f'interval end {x!r} is not a value of the table')
    if x != int(x):
        raise ValueError(f'non-integral interval end {x}')
    return int(x)


def canon_dval(t, v):
    if t in 'IN':
        return {'I': None if v is None else [_num(v[0]), _num(v[1])]}
    if t == 'S':
        return {'S': None if v is None else sorted(SYM.index(s) for s in v)}
    return {'B': int(bool(v))}


def canon_desc(types, d):
    return [[int(i), canon_dval(types[int(i)], v)] for i, v in d.items()]


def py_dval(v):
    if 'I' in v:
        return None if v['I'] is None else (_up(v['I'][0]), _up(v['I'][1]))
    if 'S' in v:
        return None if v['S'] is None else {SYM[x] for x in v['S']}
    return bool(v['B'])


def py_desc(desc):
    return {i: py_dval(v) for i, v in desc}


def _closure(K, A):
    return ints(K.extension_i(K.intention_i(list(A))))


def _closed_mv(K, n, kmin=0):
    out = set()
    for k in range(kmin, n + 1):
        for A in itertools.combinations(range(n), k):
            out.add(tuple(sorted(_closure(K, A))))
    return sorted([list(x) for x in out], key=lambda e: (len(e), e))


CASE_TIME_LIMIT_S = 10
_TIMED_OUT = set()      # cases (of this process) on which the implementation ran into the time guard


def _case_id(c):
    import json
    return json.dumps([c['kind'], c['types'], c['rows'], c.get('sub'), c.get('rows0'), c.get('mut')])


class NonTermination(BaseException):     # not an Exception: the per-call handlers of _impl must not swallow it
    pass


def _alarm(signum, frame):
    raise NonTermination()


def impl(c):
    """run the real code under a per-case time guard: a hang / blow-up is a property failure, never a silent stall"""
    import signal
    try:
        old = signal.signal(signal.SIGALRM, _alarm)
    except ValueError:          # not in the main thread of the process: no guard available
        return _impl(c)
    signal.setitimer(signal.ITIMER_REAL, CASE_TIME_LIMIT_S)
    try:
        return _impl(c)
    except NonTermination:
        _TIMED_OUT.add(_case_id(c))
        return {'err': 'NonTermination'}
    finally:
        signal.setitimer(signal.ITIMER_REAL, 0)
        signal.signal(signal.SIGALRM, old)


def _base_variant(j, base):
    """how the j-th base list of a conj case is handed over: list / tuple / ndarray / set (sets only when duplicate-free)"""
    if base is None:
        return 'none'
    v = ('list', 'tuple', 'array', 'list', 'set')[j % 5]
    if v == 'set' and len(set(base)) != len(base):
        v = 'list'
    return v


def _as_variant(v, base):
    if v == 'none':
        return None
    if v == 'tuple':
        return tuple(base)
    if v == 'array':
        import numpy as np
        return np.array(base, dtype=int)
    if v == 'set':
        return set(base)
    return list(base)


def _observe(K, c):
    """the observation of kind c['kind'] on the context object K (whose content is c['rows'])"""
    types, n = c['types'], len(c['rows'])
    kind = c['kind']
    if kind == 'cl':
        from fcapy.lattice.pattern_concept import PatternConcept
        res = []
        for k, A in enumerate(c['subsets']):
            try:
                arg = list(A) if k % 2 == 0 else tuple(A)      # CbO itself passes tuples
                d = K.intention_i(arg)
                e = ints(K.extension_i(d))
                ee = _closure(K, e) if e else None
                x = {'int': canon_desc(types, d), 'cl': e, 'clcl': ee}
                if k % 3 == 0:
                    objs = list(A) if k % 2 == 0 else [K.object_names[g] for g in A]
                    pc = PatternConcept.from_objects(objs, K)
                    x['fo'] = {'e': ints(pc.extent_i), 'i': canon_desc(types, dict(pc.intent_i)),
                               'names': [str(g) for g in pc.extent]}
                    x['fo_names_want'] = [str(K.object_names[g]) for g in pc.extent_i]
                res.append(x)
            except Exception as ex:
                res.append({'err': exc_name(ex)})
        return {'res': res}
    if kind == 'conj':
        mat = []
        for desc in c['descs']:
            row = []
            for jb, base in enumerate(c['bases']):
                try:
                    row.append(ints(K.extension_i(py_desc(desc), _as_variant(_base_variant(jb, base), base))))
                except Exception as ex:
                    row.append({'err': exc_name(ex)})
            mat.append(row)
        return {'mat': mat}
    if kind == 'bin':
        try:
            Kb = K.binarize()
            rows = [[int(bool(v)) for v in r] for r in Kb.data.to_list()]
            return {'names': [str(x) for x in Kb.object_names], 'mvnames': [str(x) for x in K.object_names],
                    'rows': rows, 'w': int(Kb.n_attributes), 'n': int(Kb.n_objects), 'nbin': int(K.n_bin_attrs),
                    'nattrnames': len(Kb.attribute_names),
                    'nprod': len(list(K.to_bin_attr_extents())), 'closed_mv': _closed_mv(K, n)}
        except Exception as ex:
            return {'err': exc_name(ex)}
    if kind == 'lat':
        from fcapy.lattice import ConceptLattice
        out = {'paths': [], 'closed_ne': _closed_mv(K, n, 1), 'cl_empty': _closure(K, [])}
        bot = {j: (None if t in 'IN' else (set() if t == 'S' else True)) for j, t in enumerate(types)}
        out['ext_bottom'] = ints(K.extension_i(bot))
        for thr in (0, 1000):
            try:
                L = ConceptLattice.from_context(K, algo='CbO', n_projections_to_binarize=thr)
                cs = list(L)
                conc = []
                for cc in cs:
                    e = ints(cc.extent_i)
                    conc.append({'e': sorted(e), 'i': canon_desc(types, dict(cc.intent_i)),
                                 'i_of_e': canon_desc(types, K.intention_i(sorted(e)))})
                cov = sorted([conc[p]['e'], conc[ch]['e']] for p, chs in L.children_dict.items() for ch in chs)
                out['paths'].append({'thr': thr, 'ok': conc, 'covers': cov})
            except Exception as ex:
                out['paths'].append({'thr': thr, 'err': exc_name(ex)})
        return out
    raise ValueError(kind)


PRE_OPS = ('nbin', 'binarize', 'tobin', 'lat1000', 'lat0', 'cl', 'int0', 'data', 'hash')


def _warm(K, ops, n):
    """first use of the object: everything that could fill a memo; returns the values handed back to the caller"""
    from fcapy.lattice import ConceptLattice
    got = []
    for op in ops:
        try:
            if op == 'nbin':
                got.append(K.n_bin_attrs)
                got.extend(ps.n_bin_attrs for ps in K.pattern_structures)
            elif op == 'binarize':
                got.append(K.binarize())
            elif op == 'tobin':
                got.append(list(K.to_bin_attr_extents()))
            elif op == 'lat1000':
                got.append(ConceptLattice.from_context(K, algo='CbO'))
            elif op == 'lat0':
                got.append(ConceptLattice.from_context(K, algo='CbO', n_projections_to_binarize=0))
            elif op == 'cl':
                for A in ([0], list(range(n)), [n - 1, 0]):
                    d = K.intention_i(A)
                    got.append(d)
                    got.append(K.extension_i(d))
                    got.append(K.extension_i(d, base_objects_i=A))
            elif op == 'int0':
                got.append(K.intention_i([]))
            elif op == 'data':
                # read only: `ps.data` / the cells of `K.data` ARE the structure's own storage (the getter hands the
                # list out on purpose, it is also how a caller edits a column); they are not scribbled on
                K.data
                [ps.data for ps in K.pattern_structures]
            elif op == 'hash':
                got.append(K.hash_fixed())
        except Exception:
            pass        # e.g. the KeyError of finding D17 on the first content; the judged observation comes later
    return got


def _scribble(v, depth=0):
    """in-place mutation of a value the library RETURNED to the caller (it must be the caller's own copy)"""
    try:
        import numpy as np
    except Exception:
        np = None
    if depth > 3:
        return
    if isinstance(v, dict):
        for x in list(v.values()):
            _scribble(x, depth + 1)
        try:
            v.clear()
        except Exception:
            pass
    elif isinstance(v, set):
        v.add('q')
        v.discard('a')
    elif isinstance(v, list):
        for x in v:
            _scribble(x, depth + 1)
        v.reverse()
        v.append(10 ** 6)
    elif np is not None and isinstance(v, np.ndarray) and v.flags.writeable:
        try:
            v[...] = -7
        except Exception:
            pass


def _impl_hist(c):
    """use -> mutate through public setters (or scribble on returned values / own inputs) -> use again, on ONE object"""
    from fcapy.mvcontext import MVContext
    cls = _ps_classes()
    _SCALE[0] = c.get('scale')
    types, rows0, rows = c['types'], c['rows0'], c['rows']
    n = len(rows0)
    names = [str(j) for j in range(len(types))]
    data = [[_cell(t, v) for t, v in zip(types, r)] for r in rows0]
    objn = [f'g{i}' for i in range(n)]
    K = MVContext(data, {nm: cls[t] for nm, t in zip(names, types)}, attribute_names=names, object_names=objn)
    got = _warm(K, c['pre'], n)
    mut = c['mut']
    if mut == 'data':
        for j, t in enumerate(types):
            if c.get('all_cols') or any(r0[j] != r[j] for r0, r in zip(rows0, rows)):
                K.pattern_structures[j].data = [_cell(t, r[j]) for r in rows]
    elif mut == 'ps':
        K.pattern_structures = [cls[t]([_cell(t, r[j]) for r in rows], name=names[j]) for j, t in enumerate(types)]
    elif mut == 'hostile':
        for v in got:
            _scribble(v)
        for r in data:          # the caller's own table, after the context was built from it
            for k in range(len(r)):
                if isinstance(r[k], set):
                    r[k].add('q')
            r.reverse()
        data.reverse()
    if c.get('names2') is not None:
        K.object_names = list(c['names2'])
    if c.get('attr_names2') is not None:
        K.attribute_names = list(c['attr_names2'])
    sub = dict(c, kind=c['sub'])
    return _observe(K, sub)


def _impl(c):
    if c['kind'] == 'hist':
        return _impl_hist(c)
    return _observe(make_mv(c), c)


# ----------------------------------------------------------------------------------------------------------
# Lean side

def lean_K(c):
    cols = []
    for j, t in enumerate(c['types']):
        cols.append({'t': 'I' if t in 'IN' else t, 'd': [r[j] for r in c['rows']]})
    n = len(c['rows'])
    return {'n': n, 'names': list(c.get('names2') or [f'g{i}' for i in range(n)]), 'cols': cols}


REQUESTS_NEED_IMPL = True


def requests(c, io):
    if c['kind'] == 'hist':
        return requests(dict(c, kind=c['sub']), io)
    K = lean_K(c)
    kind = c['kind']
    if kind == 'cl':
        return [dict(op='C14.cl', K=K, subsets=c['subsets'])]
    if kind == 'conj':
        return [dict(op='C14.ext', K=K, descs=c['descs'], bases=c['bases'])]
    if kind == 'bin':
        rows = io.get('rows') or [[0]]
        return [dict(op='C14.bin', K=K, rows=rows, w=io.get('w', 1))]
    if kind == 'lat':
        return [dict(op='C14.lat', K=K, thrs=[0, 1000])]
    raise ValueError(kind)


def _key(e):
    return (len(e), e)


def _canon_concepts(cs):
    return sorted(([x['e'], sorted(x['i'])] for x in cs), key=lambda p: (_key(p[0]), str(p[1])))


def judge(c, io, rep):
    if c['kind'] == 'hist':
        # the second use is judged by the property on the CURRENT content (c['rows']), exactly like a fresh context
        v = judge(dict(c, kind=c['sub']), io, rep)
        if not v['ok']:
            v = dict(v, detail=f"after first use {c['pre']} on {c['rows0']} and mutation '{c['mut']}' "
                               f"(names: {c.get('names2')}): " + str(v.get('detail')))
        return v
    kind = c['kind']
    n = len(c['rows'])
    if io.get('err') == 'NonTermination':
        return dict(ok=False, kind='property',
                    detail=f'{kind}: the implementation did not finish within {CASE_TIME_LIMIT_S}s on this table')
    if kind == 'cl':
        r = rep[0]
        if not r['wf']:
            return dict(ok=False, kind='harness', detail='context not well-formed in the model')
        cl_of = {}
        for A, x, y in zip(c['subsets'], io['res'], r['res']):
            if 'ok' not in y['cl'] or y['cl']['ok'] != y['spec']:
                return dict(ok=False, kind='harness', detail=f'model closure {y["cl"]} != spec {y["spec"]} for {A}')
            if 'err' in x:
                return dict(ok=False, kind='property', detail=f'closure of {A} raised {x["err"]}')
            if x['cl'] != y['spec']:
                return dict(ok=False, kind='property',
                            detail=f'extension_i(intention_i({A})) = {x["cl"]}, objects covered by the common description: {y["spec"]}')
            if not set(A) <= set(x['cl']):
                return dict(ok=False, kind='property', detail=f'closure not extensive: {A} -> {x["cl"]}')
            if x['clcl'] != x['cl']:
                return dict(ok=False, kind='property', detail=f'closure not idempotent: {A} -> {x["cl"]} -> {x["clcl"]}')
            if sorted(x['int']) != sorted(y['int']):
                return dict(ok=False, kind='property', detail=f'intention_i({A}) = {x["int"]}, most specific description: {y["int"]}')
            if 'fo' in x:
                fo = x['fo']
                if sorted(fo['e']) != y['spec'] or sorted(fo['i']) != sorted(y['int']):
                    return dict(ok=False, kind='property',
                                detail=f'PatternConcept.from_objects({A}) = ({fo["e"]}, {fo["i"]}); closure {y["spec"]}, '
                                       f'most specific description {y["int"]}')
                if fo['names'] != x['fo_names_want']:
                    return dict(ok=False, kind='property', detail=f'from_objects({A}): extent names {fo["names"]} do not '
                                                                  f'name the extent {fo["e"]}')
            fs = frozenset(A)
            if fs in cl_of and cl_of[fs] != x['cl']:
                return dict(ok=False, kind='property', detail=f'closure depends on how the object set {sorted(fs)} is listed ({A})')
            cl_of[fs] = x['cl']
        for A, ca in cl_of.items():
            for B, cb in cl_of.items():
                if A <= B and not set(ca) <= set(cb):
                    return dict(ok=False, kind='property', detail=f'closure not monotone: {sorted(A)} <= {sorted(B)} but {ca} !<= {cb}')
        return dict(ok=True)
    if kind == 'conj':
        for d, row, lrow in zip(c['descs'], io['mat'], rep[0]['mat']):
            for jb, (b, x, y) in enumerate(zip(c['bases'], row, lrow)):
                if _base_variant(jb, b) == 'set' and isinstance(x, list):
                    # a set has no order of its own: compare as sets (the base is duplicate-free here)
                    x, y = sorted(x), dict(y, spec=sorted(y['spec']), model={'ok': sorted(y['model'].get('ok', []))}
                                           if 'ok' in y['model'] else y['model'])
                if not y['typed']:
                    return dict(ok=False, kind='harness', detail=f'description {d} not well-typed for the model')
                if y['model'] != {'ok': y['spec']}:
                    return dict(ok=False, kind='harness', detail=f'model {y["model"]} != spec {y["spec"]} for {d} / {b}')
                if x != y['spec']:
                    return dict(ok=False, kind='property',
                                detail=f'extension_i({d}, base={b}) = {x}; objects of the base covered by every column: {y["spec"]}')
        return dict(ok=True)
    if kind == 'bin':
        r = rep[0]
        if 'err' in io:
            return dict(ok=False, kind='property', detail=f'binarize() raised {io["err"]}')
        if io['names'] != io['mvnames'] or io['n'] != n:
            return dict(ok=False, kind='property', detail=f'binarised context has objects {io["names"]}, expected {io["mvnames"]}')
        if not (io['w'] == io['nbin'] == io['nprod'] == io['nattrnames']):
            return dict(ok=False, kind='property',
                        detail=f'n_bin_attrs={io["nbin"]}, produced={io["nprod"]}, width={io["w"]}, names={io["nattrnames"]}')
        if r['closed_impl_table'] != io['closed_mv']:
            return dict(ok=False, kind='property',
                        detail=f'closed object sets of the binarised context {r["closed_impl_table"]} != closed sets of the '
                               f'many-valued context {io["closed_mv"]}')
        m = r['model']
        if 'err' in m or m['rows'] != io['rows'] or m['w'] != io['w'] or r['nbin'] != io['nbin'] or m['names'] != io['names']:
            return dict(ok=False, kind='correspondence', detail=f'binarised table differs from the model: {io["rows"]} vs {m}')
        if r['nproduced'] != r['nbin']:
            return dict(ok=False, kind='harness', detail='model: n_bin_attrs != number produced (contradicts theorem)')
        return dict(ok=True)
    if kind == 'lat':
        r = rep[0]
        if r['bottomOK'] != bottom_ok_py(c['types'], c['rows']):
            return dict(ok=False, kind='harness', detail='BottomOK of the Lean side differs from the generator predicate')
        closed = r['closed']
        # the spec's closed sets, recomputed with the implementation's own closure (cross-check of the oracle)
        impl_closed = sorted({tuple(e) for e in io['closed_ne']} | {tuple(io['ext_bottom'])}, key=_key)
        if r['clEmpty'] != {'ok': io['cl_empty']}:
            return dict(ok=False, kind='correspondence', detail=f'closure of the empty set: {io["cl_empty"]} vs model {r["clEmpty"]}')
        prop_fail = None
        if [list(e) for e in impl_closed] != closed:
            prop_fail = f'closed sets by the implementation\'s closure {impl_closed} != closed sets of the context {closed}'
        covers_spec = sorted([closed[i], closed[j]] for i, j in r['covers'])
        int_of = {tuple(e): sorted(d) for e, d in zip(closed, r['closedInt'])}
        results = []
        for p in io['paths']:
            if prop_fail:
                break
            if 'err' in p:
                prop_fail = f'from_context(n_projections_to_binarize={p["thr"]}) raised {p["err"]}'
                break
            exts = [x['e'] for x in p['ok']]
            if sorted(exts, key=_key) != closed:
                prop_fail = (f'from_context(n_projections_to_binarize={p["thr"]}) has extents {sorted(exts, key=_key)}, '
                             f'closed object sets are {closed}')
                break
            for x in p['ok']:
                if sorted(x['i']) != sorted(x['i_of_e']) or sorted(x['i']) != int_of[tuple(x['e'])]:
                    prop_fail = f'concept {x["e"]} carries {x["i"]}, most specific description is {int_of[tuple(x["e"])]}'
                    break
            if prop_fail:
                break
            if p['covers'] != covers_spec:
                prop_fail = f'cover relation {p["covers"]} != covers of inclusion {covers_spec} (thr={p["thr"]})'
                break
            results.append(_canon_concepts(p['ok']))
        if not prop_fail and len(results) == 2 and results[0] != results[1]:
            prop_fail = f'the object-wise and the binarising path differ: {results[0]} vs {results[1]}'
        # the model must obey its theorem: under BottomOK every path returns exactly the closed sets
        # (Fca.C14.mv_lattice_exact, with the fuel the driver uses = MVCtx.closeByOneFuel)
        if r['bottomOK']:
            for q in r['paths']:
                if 'ok' not in q['res'] or sorted([x['e'] for x in q['res']['ok']], key=_key) != closed:
                    return dict(ok=False, kind='harness',
                                detail=f'model contradicts mv_lattice_exact on a BottomOK table: {q["path"]} -> {q["res"]}')
        # correspondence with the model
        corr = None
        for p, q in zip(io['paths'], r['paths']):
            mine = {'err': p['err']} if 'err' in p else {'ok': _canon_concepts(p['ok'])}
            model = {'err': q['res']['err']} if 'err' in q['res'] else {'ok': _canon_concepts(q['res']['ok'])}
            if mine != model:
                corr = f'thr={p["thr"]} ({q["path"]}): implementation {mine} vs model {model}'
                break
        if prop_fail:
            return dict(ok=False, kind='property', detail=prop_fail, bottomOK=r['bottomOK'], model_agrees=corr is None)
        if corr:
            return dict(ok=False, kind='correspondence', detail=corr)
        return dict(ok=True)
    return dict(ok=False, kind='harness', detail='unknown kind')


def nontrivial(c):
    rows = c['rows']
    return len(rows) >= 2 and any(r != rows[0] for r in rows)


def key(c):
    return [c['kind'], c['types'], c['rows'], c.get('descs') if c['stream'].startswith('random') else None,
            c.get('subsets') if c['stream'].startswith('random') else None,
            c.get('sub'), c.get('rows0'), c.get('mut'), c.get('pre'), c.get('names2'), c.get('scale')]


def branch(c, io, rep):
    out = [c['stream'], f"kind:{c['kind']}", f"types:{''.join(sorted(c['types']))}"]
    if c['kind'] == 'hist':
        out.append(f"hist:{c['mut']}:{c['sub']}" + (':names' if c.get('names2') else ''))
    if c.get('scale'):
        out.append('scale:non-float32' + ('+inf' if INF in c['scale'] else ''))
    if c.get('sub', c['kind']) == 'lat' and rep and 'paths' in rep[0]:
        out += [f"path:{p['path']}" for p in rep[0]['paths']]
        out.append('bottomOK' if rep[0]['bottomOK'] else 'notBottomOK')
        out += [f"impl:{'err:' + p['err'] if 'err' in p else 'ok'}" for p in io.get('paths', [])]
    return out


def signature(c, io, rep, v):
    kind = c.get('sub', c['kind']) if c['kind'] == 'hist' else c['kind']
    bok = None
    if rep and isinstance(rep[0], dict) and 'bottomOK' in rep[0]:
        bok = rep[0]['bottomOK']
    if kind in ('lat', 'bin') and v.get('kind') == 'property' and bok is False:
        if kind == 'bin' or v.get('model_agrees'):
            return KNOWN_SIG
        return f'C14:{kind}:notbottomok-model-mismatch'
    return f"C14:{kind}:{v.get('kind')}:{(v.get('detail') or '')[:40]}"


def shrink(c):
    """smaller cases.  Two guards: (1) a case that BottomOK holds for is never shrunk into a table without BottomOK
    (it would slide into the known finding D17 and the genuine failure would be filed under it); (2) a case on which
    the implementation hit the time guard is reported as it is (every shrinking step would cost the full time limit)."""
    if _case_id(c) in _TIMED_OUT or c['kind'] == 'hist':
        return
    keep_bottom = bottom_ok_py(c['types'], c['rows'])
    for d in _shrink(c):
        if keep_bottom and not bottom_ok_py(d['types'], d['rows']):
            continue
        yield d


def _shrink(c):
    rows, types = c['rows'], c['types']
    n, m = len(rows), len(types)

    def rebuild(nrows, ntypes):
        d = dict(stream=c['stream'], kind=c['kind'], types=list(ntypes), rows=nrows)
        if c.get('scale'):
            d['scale'] = c['scale']
        return fill(d)
    if n > 1:
        for i in range(n):
            yield rebuild(rows[:i] + rows[i + 1:], types)
    if m > 1:
        for j in range(m):
            yield rebuild([r[:j] + r[j + 1:] for r in rows], types[:j] + types[j + 1:])
    for i in range(n):
        for j, t in enumerate(types):
            v = rows[i][j]
            simpler = []
            if t in 'IN':
                if v[0] != v[1]:
                    simpler = [[v[0], v[0]], [v[1], v[1]]]
                elif v[0] != 0:
                    simpler = [[0, 0]]
            elif t == 'S':
                simpler = [v[:k] + v[k + 1:] for k in range(len(v))]
            elif v:
                simpler = [0]
            for s in simpler:
                nr = [list(r) for r in rows]
                nr[i][j] = s
                yield rebuild(nr, types)

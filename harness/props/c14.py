"""C14 — many-valued contexts: lattice and binarisation preserve the closure system."""
import itertools
import random

import gen as G
from implutil import ints, exc_name

RULE = ('case = (many-valued table: column types from {IntervalPS, IntervalNumpyPS, SetPS, AttributePS}, one cell per '
        'object and column) x kind in {cl: closure laws on all given non-empty object lists; conj: extension_i of '
        'descriptions (dict orders, partial dicts) x base lists; bin: binarize(); lat: ConceptLattice.from_context with '
        'n_projections_to_binarize in {0,1000}; hist: first use of ONE context object (n_bin_attrs, binarize, both mining '
        'paths, closures, ...) -> mutation through a public setter (ps.data = .., K.pattern_structures = .., K.object_names '
        '= ..) or in-place scribbling on returned values / the caller\'s own inputs -> second use, judged by the property '
        'on the CURRENT content}.  Object lists for closures / from_objects and base lists include repetitions, every '
        'order, tuples, arrays and sets; interval ends are mapped through order-preserving scales with values float32 '
        'cannot hold and +-inf.  Exhaustive over all small tables, then seeded random larger tables. '
        'Wave-4 classes: (H6) SetPS values / column names / object names containing the library\'s own separators and '
        'sentinels (\', \', \': \', a value named like the empty-description mark, names ending in _from/_to, an AttributePS column '
        'named exactly like a binary attribute another column generates), judged on width = n_bin_attrs = produced (in '
        'total and per column), columns of binarize() = produced extents in order, closed sets, both mining paths and the '
        'name-keyed extension(intention(.)); (H4) every history also with edits that keep hash(): -1 <-> -2, 1.0 <-> 2.0**61, '
        '0 <-> 2**61-1, tuples / frozensets of them, equal re-spellings 1 / 1.0 / True, 0 / 0.0 / False, and edits that keep '
        'zlib.adler32 of the hash_fixed() text (131.0 <-> 212.0, bdb <-> cbc in values and object names), through ps.data = .., '
        'in-place edits of ps.data[i], pattern_structures = .., and a SECOND context object with colliding hashes (H4b); '
        '(H5) Kb = binarize() then a mutation of K or of Kb, then both asked, and binarize() asked again; (H7) index '
        'lists with repetitions of length n, full-range permutations, n+-1 entries for closures, from_objects and bases; '
        '(H8) 64 / 65 / 129 objects in both binarising shapes and object-wise, the last object distinguishing closed sets. '
        'Tables for which BottomOK fails (AttributePS empty-set convention, finding D17) are kept in their own streams. '
        'non-trivial = at least 2 rows, not all rows equal; distinct = distinct (kind, types, cells, extra arguments)')
EXHAUSTIVE = {
    'quick': 'H6: every 3-row one-column SetPS table over the cells {}, {a}, {b}, {"a, b"}, {a,b}, {the empty mark}; every 2-row '
             '(SetPS, AttributePS named like a generated binary attribute) table; H4: every 3-row one-column interval table '
             '(IntervalPS and IntervalNumpyPS) of points over {-3,-2,-1,0} x every single swap -1 <-> -2 x {ps.data =, in place}, '
             'every 3-row SetPS table over {-2}, {-1}, {1}, {-1,1} x every swap to the hash partner; '
             'histories: every 2-row one-column table (IntervalPS, IntervalNumpyPS, SetPS, AttributePS) replaced by every '
             'other one through ps.data after a full first use, judged as bin/lat/cl on the new content; all 1-column '
             'IntervalNumpyPS tables with <=3 rows and 2-column tables with <=2 rows containing one; closure laws on EVERY '
             'index list of length <= n (repetitions included) for n <= 3; then the object-wise stream: all 4-row x 2-column tables over {IntervalPS on {0,1}: 2 points + 1 interval, '
             'SetPS over subsets of {a}, AttributePS} and 300 random 5-7-row tables of shuffled duplicated/nested rows, '
             'each mined with n_projections_to_binarize in {0,1000}; then all tables with <=3 rows x <=2 columns over {IntervalPS on the grid {0,1,2}: 3 points + 3 proper intervals '
             '(3x2 tables: 2 points + 2 intervals), SetPS over subsets of {a,b}, AttributePS}; per table: all non-empty '
             'ordered object lists (closure laws), all descriptions on the grid in every dict order incl. partial dicts x '
             '(None + all ordered base lists) for tables with <=2 rows or 1 column, binarize(), both mining paths',
    'thorough': '(a boosted quick run adds only the IntervalNumpyPS, 4x1 and 3x the random streams) quick scope with the full interval domain for 3x2 tables, IntervalNumpyPS columns, plus 4-row tables '
                'with 1 column (SetPS over {a,b,c}) and 4x2 tables over a reduced cell domain'}
EXPLANATION = ('Lean proves, for every many-valued context with BottomOK, that all three paths of close_by_one (object-wise on '
               'descriptions, binarising, binarising-transposed) return exactly the closed object sets, each once, with '
               'intention_i(extent), and agree (mv_lattice_exact, paths_agree; fuel = closed form closeByOneFuel, which is '
               'the fuel the driver runs the model with).  '
               'closure/extension outputs are pinned uniquely (Lean: model = conjunctive filter, closure laws proved), so '
               'implementation != spec is a property failure; lattices are compared as sets of (extent, description) '
               'against the brute-force closed sets (Lean spec) and the cover relation of inclusion; the binarised table '
               'is judged by brute-force concept enumeration in Lean (Spec.allConcepts).  Names of binary attributes are '
               'labels of positions (binarize_one_attribute_per_description: one attribute per produced description whatever the '
               'names) and every answer is about the current content (binarize_after_history).  On 64 / 65 / 129 objects '
               'nothing is enumerated: the binarised table is judged point-wise by binarize_same_closed_sets on directed '
               'object lists, the lattice against the model\'s own path, which IS the set of closed sets by mv_lattice_exact '
               '(BottomOK from an interval column, bottomOK_characterised).  Failures on tables with '
               'not BottomOK are classified under the known finding C14:attributeps-empty-set-convention.')
ASSUMPTIONS = ['every many-valued context has >= 1 object and >= 1 pattern structure; cells are valid for their structure',
               'interval ends are exactly representable floats; the values of one SetPS column are mutually comparable '
               '(sorted() of mixed strings and numbers raises in the unchanged code) or, for the frozenset pool, the order of '
               'the binary attributes is left open (columns compared as a multiset)',
               'column (pattern structure) names and object names are pairwise distinct strings (the constructor takes a dict; '
               'from_objects / extension / intention resolve names); names of BINARY attributes may repeat',
               'in-place edits of ps.data[i] store a value of the shape the structure itself stores',
               'object index arguments are lists/tuples (bases also arrays and sets) of valid indexes, repetitions allowed',
               'descriptions passed to extension_i have the shape of their column (dict keys are valid column indexes)']
TRUSTED = ['the worklist loops of close_by_one_objectwise(_fbarray) are the machine cboLoop of Model/CbO (property C02) run with '
           'the many-valued intention_i/extension_i resp. on the binarised table',
           'IntervalNumpyPS columns are run through the IntervalPS model (agreement of the two engines is property C13)',
           'caspailleur order routines behind order_extents_comparison are modelled by their contract '
           '(cover relation of inclusion; KeyError on repeated extents)',
           'ConceptLattice.sort_concepts order is not compared (not part of the property)']
CHUNK = 150
SYM = 'abc'
KNOWN_SIG = 'C14:attributeps-empty-set-convention'

# ----------------------------------------------------------------------------------------------------------
# value pools of SetPS columns (class H6: the library's own separators / sentinels inside values; class H4: values
# with colliding hashes).  A case names its pool; its SetPS cells are lists of indexes into the pool, and the pool is
# listed in the order Python's sorted() gives (the order in which SetPS numbers its binary attributes), so the Lean
# model (symbols = Nat, numbered in sorted order) is the same up to that order isomorphism.
P61 = 2 ** 61 - 1           # CPython: hash(x) = x mod P61 for ints, and -1 is mapped to -2
POOLS = {
    'abc': list('abc'),
    'abcdefg': list('abcdefg'),
    # values containing ', ' / ': ' (the separators of generated binary-attribute names), the empty-description mark,
    # the column suffixes of to_numeric, the empty string
    'sep': sorted(['a', 'b', 'a, b', 'b, a', '\u2205', ', ', ': ', 'a: b', '', 'a_from']),
    # equal-length strings with equal zlib.adler32 (x+1, y-2, z+1 on three consecutive characters)
    'adler': sorted(['bdb', 'cbc', 'a', 'ace', 'bad']),
    # numbers with colliding hash(): -1/-2, 0/2**61-1, 1/2**61
    'num': [-2, -1, 0, 1, 2, P61, P61 + 1],
    # tuples of such numbers
    'tup': sorted([(-2, 0), (-1, 0), (0, -2), (0, -1), (0, 0), (0, P61), (1, 1), (1, P61 + 1)]),
    # frozensets of such numbers: pairwise incomparable, so sorted() keeps the iteration order of the set -- the ORDER of
    # the produced binary attributes is not modelled for this pool (columns are compared as a multiset)
    'fs': [frozenset([-2, 5]), frozenset([-1, 5]), frozenset([0, 6]), frozenset([P61, 6]), frozenset([7])],
}
UNORDERED_POOLS = ('fs',)
for _nm, _p in POOLS.items():
    assert len(set(_p)) == len(_p), _nm
    if _nm not in UNORDERED_POOLS:
        assert sorted(_p) == _p and all(a < b for a, b in zip(_p, _p[1:])), _nm


def pool_of(c):
    return POOLS[c.get('pool') or 'abc']


def hash_partners(vals):
    """{i: [j..]}: indexes of DIFFERENT values with the same CPython hash()"""
    out = {}
    for i, a in enumerate(vals):
        js = [j for j, b in enumerate(vals) if j != i and a != b and hash(a) == hash(b)]
        if js:
            out[i] = js
    return out


def adler_partners(vals):
    import zlib
    out = {}
    for i, a in enumerate(vals):
        js = [j for j, b in enumerate(vals) if j != i and a != b and len(repr(a)) == len(repr(b)) and
              zlib.adler32(('x' + repr(a) + 'y').encode()) == zlib.adler32(('x' + repr(b) + 'y').encode()) and
              zlib.adler32((repr(a) + 'yz').encode()) == zlib.adler32((repr(b) + 'yz').encode())]
        if js:
            out[i] = js
    return out


# the one helper the shared generator module offers for this class; the pools above extend it to the other collisions
assert G.pyhash_collide_value(-1) == -2 and G.pyhash_collide_value(-2.0) == -1.0
assert hash_partners(POOLS['num']) == {0: [1], 1: [0], 2: [5], 5: [2], 3: [6], 6: [3]}
assert hash_partners(POOLS['tup']) and hash_partners(POOLS['fs']) and adler_partners(POOLS['adler'])

# ----------------------------------------------------------------------------------------------------------
# cell domains

IV_FULL = [[0, 0], [1, 1], [2, 2], [0, 1], [1, 2], [0, 2]]
IV_SMALL = [[0, 0], [1, 1], [0, 1], [1, 2]]
SET_AB = [[], [0], [1], [0, 1]]
SET_ABC = [list(c) for k in range(4) for c in itertools.combinations(range(3), k)]
ATTR = [0, 1]


def domain(t, iv=IV_FULL, sets=SET_AB):
    return {'I': iv, 'N': iv, 'S': sets, 'A': ATTR}[t]


def bottom_ok_py(types, rows):
    """BottomOK computed directly from the table (used only to pick the stream; Lean's decision is authoritative):
    cl(empty) as the code computes it = objects whose SetPS cells are all empty (nothing when an interval column
    exists); it must be inside the extent of the bottom description (those objects also need every AttributePS cell)."""
    if any(t in 'IN' for t in types):
        return True
    for r in rows:
        if all(len(r[j]) == 0 for j, t in enumerate(types) if t == 'S'):
            if not all(r[j] for j, t in enumerate(types) if t == 'A'):
                return False
    return True


def nbin_py(types, rows):
    """n_bin_attrs computed from the table (only used to aim the generator at the transposed shape)"""
    tot = 0
    for j, t in enumerate(types):
        col = [r[j] for r in rows]
        if t in 'IN':
            tot += len({v[0] for v in col}) + len({v[1] for v in col})
        elif t == 'S':
            tot += 2 ** len({x for v in col for x in v})
        else:
            tot += 1
    return tot


def all_descs(types, iv_grid=(0, 1, 2), syms=2):
    """every description dict on the grid: each column absent or any value of its shape, every key order"""
    per = []
    for t in types:
        if t in 'IN':
            vals = [{'I': None}] + [{'I': [a, b]} for a in iv_grid for b in iv_grid if a <= b]
        elif t == 'S':
            vals = [{'S': None}] + [{'S': list(c)} for k in range(syms + 1) for c in itertools.combinations(range(syms), k)]
        else:
            vals = [{'B': 0}, {'B': 1}]
        per.append(vals)
    out = []
    idx = list(range(len(types)))
    for k in range(len(types) + 1):
        for keys in itertools.permutations(idx, k):
            for combo in itertools.product(*[per[i] for i in keys]):
                out.append([[i, v] for i, v in zip(keys, combo)])
    return out


def h7_lists(n):
    """class H7: index lists whose LENGTH says "all objects" although they are not: repetitions of length n, full-range
    permutations, the full range plus / minus one entry"""
    full = list(range(n))
    out = [[n - 1] * n, [0] * n, list(reversed(full)), full + [0], [n - 1] + full, full[1:] + full[1:2]]
    if n >= 2:
        out += [[(i // 2) * 2 % n for i in range(n)], [n - 1 - (i // 2) for i in range(n)], full[1:], full[:-1],
                [n - 1] * (n + 1), full[1:] + [n - 1]]
    return [x for k, x in enumerate(out) if x and x not in out[:k]]


def fill(c, rng=None):
    """derive the kind-specific arguments of a case from its table"""
    n = len(c['rows'])
    if c.get('big'):
        return c            # the large directed cases bring their own lists
    if c['kind'] == 'cl':
        if n <= 3:
            # every non-empty index list of length <= n, repetitions and every order included; and the H7 lists
            # that are one longer than the number of objects
            c['subsets'] = [list(p) for k in range(1, n + 1) for p in itertools.product(range(n), repeat=k)]
            c['subsets'] += [x for x in h7_lists(n) if len(x) > n]
        else:
            subs = [s for s in G.sorted_sublists(range(n)) if s]
            if n > 4:
                subs = subs if len(subs) <= 63 else subs[:63]
            extra = []
            r = rng or random.Random(n)
            for s in subs:
                if len(s) > 1 and r.random() < 0.4:
                    t = list(s)
                    r.shuffle(t)
                    extra.append(t)
            # index lists with repetitions: "bootstrap samples" of exactly n draws, and of other lengths
            for _ in range(10):
                extra.append([r.randrange(n) for _k in range(n)])
            for _ in range(6):
                extra.append([r.randrange(n) for _k in range(r.randint(1, 2 * n))])
            c['subsets'] = subs + extra + [x for x in h7_lists(n) if x not in subs]
    elif c['kind'] == 'conj':
        if 'descs' not in c:
            c['descs'] = all_descs(c['types'])
        if n <= 3:
            # None, and every index list of length <= n (repetitions and every order included)
            c['bases'] = [None] + [list(p) for k in range(n + 1) for p in itertools.product(range(n), repeat=k)]
            c['bases'] += [x for x in h7_lists(n) if len(x) > n]
        else:
            r = rng or random.Random(n)
            c['bases'] = [None, []] + [G.random_sel(r, n) for _ in range(4)] + \
                [[r.randrange(n) for _k in range(r.randint(1, n + 2))] for _ in range(4)] + h7_lists(n)[:6]
    return c


NOTBOTTOM_CAP = 80   # tables; the runner stops a run after 200 failing cases, known-finding hits included
_notbottom_seen = [0]


def table_cases(types, rows, stream, kinds=('cl', 'conj', 'bin', 'lat'), rng=None, descs=None, scale=None, **extra):
    if not bottom_ok_py(types, rows):
        stream = stream + '-notbottomok'
        _notbottom_seen[0] += 1
        if _notbottom_seen[0] > NOTBOTTOM_CAP:
            # beyond the cap only the operations that D17 does not touch are exercised on such tables
            kinds = tuple(k for k in kinds if k in ('cl', 'conj'))
    for kind in kinds:
        c = dict(stream=stream, kind=kind, types=list(types), rows=[list(r) for r in rows])
        c.update({k: v for k, v in extra.items() if v is not None and (k != 'subsets' or kind in ('cl', 'bin'))})
        if scale is not None:
            c['scale'] = scale
        if kind == 'conj' and descs is not None:
            c['descs'] = descs
        yield fill(c, rng)


def tables(n, types, doms):
    cols = [list(itertools.product(d, repeat=n)) for d in doms]
    for combo in itertools.product(*cols):
        yield [[combo[j][i] for j in range(len(types))] for i in range(n)]


def random_desc(rng, types, grid, syms):
    keys = [i for i in range(len(types)) if rng.random() < 0.8]
    rng.shuffle(keys)
    d = []
    for i in keys:
        t = types[i]
        if t in 'IN':
            if rng.random() < 0.1:
                v = {'I': None}
            else:
                a, b = sorted((rng.choice(grid), rng.choice(grid)))
                v = {'I': [a, b]}
        elif t == 'S':
            v = {'S': None} if rng.random() < 0.1 else {'S': sorted(rng.sample(range(syms), rng.randint(0, syms)))}
        else:
            v = {'B': rng.randint(0, 1)}
        d.append([i, v])
    return d


def random_table(rng, nmax, mmax, grid, syms, np_ok=True):
    n, m = rng.randint(1, nmax), rng.randint(1, mmax)
    types = [rng.choice('ISAAN' if np_ok else 'ISAA') for _ in range(m)]
    if rng.random() < 0.35:   # make not-BottomOK tables less dominant: force an interval column sometimes
        types[rng.randrange(m)] = 'I'
    rows = []
    fam = rng.choice(('random', 'random', 'random', 'duprows', 'const', 'chain'))
    for i in range(n):
        r = []
        for t in types:
            if t in 'IN':
                a, b = sorted((rng.choice(grid), rng.choice(grid)))
                if rng.random() < 0.5:
                    b = a
                if fam == 'chain':
                    a, b = min(grid), grid[min(i, len(grid) - 1)]
                r.append([a, b])
            elif t == 'S':
                s = sorted(rng.sample(range(syms), rng.randint(0, syms)))
                if fam == 'chain':
                    s = list(range(min(i, syms)))
                r.append(s)
            else:
                r.append(rng.randint(0, 1) if fam != 'chain' else int(i % 2 == 0))
        rows.append(r)
    if fam == 'duprows' and n > 1:
        rows[rng.randrange(n)] = [list(x) if isinstance(x, list) else x for x in rows[rng.randrange(n)]]
    if fam == 'const':
        rows = [[list(x) if isinstance(x, list) else x for x in rows[0]] for _ in range(n)]
    return types, rows


def pooled_table(rng):
    """5..7 rows drawn (with repetition, shuffled) from a small pool of nested / overlapping row values in 1..2
    columns: duplicated and nested rows that are NOT adjacent, the situation in which an extent jumps ahead"""
    m = rng.randint(1, 2)
    types = [rng.choice('IISSA') for _ in range(m)]
    if rng.random() < 0.5 and 'I' not in types:
        types[rng.randrange(m)] = 'I'       # keep most of these tables BottomOK
    npool = rng.randint(2, 4)
    pool = []
    for _ in range(npool):
        r = []
        for t in types:
            if t == 'I':
                a, b = sorted((rng.randint(0, 2), rng.randint(0, 2)))
                r.append([a, b])
            elif t == 'S':
                r.append(sorted(rng.sample(range(2), rng.randint(0, 2))))
            else:
                r.append(rng.randint(0, 1))
        pool.append(r)
    n = rng.randint(5, 7)
    rows = [[list(v) if isinstance(v, list) else v for v in rng.choice(pool)] for _ in range(n)]
    return types, rows


def hist_cases(types, rows0, rows, stream, mut, pre, rng=None, names2=None, scale=None, subs=('bin', 'lat', 'cl'),
               all_cols=False, **extra):
    """use -> mutate -> use on one object; the second use is judged on the final content `rows`"""
    if not bottom_ok_py(types, rows):
        subs = tuple(x for x in subs if x in ('cl', 'conj'))     # D17 tables: only what the known finding does not touch
    for sub in subs:
        c = dict(stream=stream, kind='hist', sub=sub, types=list(types), rows0=[list(r) for r in rows0],
                 rows=[list(r) for r in rows], mut=mut, pre=list(pre))
        if names2 is not None:
            c['names2'] = names2
        if scale is not None:
            c['scale'] = scale
        if all_cols:
            c['all_cols'] = True
        big_subsets = extra.get('subsets')
        c.update({k: v for k, v in extra.items() if v is not None and k not in ('subsets', 'descs')})
        if extra.get('descs') is not None:
            c['descs'] = extra['descs']     # asked before the mutation (first use) and, in the 'conj' sub-case, after it
        if sub == 'conj':
            c['bases'] = fill(dict(kind='conj', rows=c['rows'], types=c['types'], descs=c['descs']), rng)['bases']
        if big_subsets is not None and sub in ('cl', 'bin'):
            c['subsets'] = big_subsets
        elif sub == 'cl':
            c['subsets'] = fill(dict(kind='cl', rows=c['rows']), rng)['subsets']
        yield c


def mutate_rows(rng, types, rows, grid, syms):
    """a different table of the same shape: a column redrawn, a cell changed, two rows swapped, or all redrawn"""
    n = len(rows)
    new = [[list(v) if isinstance(v, list) else v for v in r] for r in rows]

    def cell(t):
        if t in 'IN':
            a, b = sorted((rng.choice(grid), rng.choice(grid)))
            return [a, a] if rng.random() < 0.5 else [a, b]
        if t == 'S':
            return sorted(rng.sample(range(syms), rng.randint(0, syms)))
        return rng.randint(0, 1)
    how = rng.choice(('column', 'column', 'cell', 'swap', 'all'))
    if how == 'column':
        j = rng.randrange(len(types))
        for i in range(n):
            new[i][j] = cell(types[j])
    elif how == 'cell':
        i, j = rng.randrange(n), rng.randrange(len(types))
        new[i][j] = cell(types[j])
    elif how == 'swap' and n > 1:
        i, k = rng.sample(range(n), 2)
        new[i], new[k] = new[k], new[i]
    else:
        new = [[cell(t) for t in types] for _ in range(n)]
    return new


# ----------------------------------------------------------------------------------------------------------
# wave-4 classes: H6 (separators / sentinels in values and names), H4 (hash-preserving edits), H5 (binarize() results
# are independent objects), H8 (64 / 65 / 129 objects)

ATTR_NAME_POOL = ['s', 'i', 'x_from', 'x_to', 'x', ', ', ': ', '\u2205', '', 's: a', 's_from', 'not s', 'a, b']
OBJ_NAME_POOL = ['g0', 'g1', 'g0, g1', ', ', ': ', '\u2205', '', 'g_from', 'bdb', 'cbc', 'a', 'b', 'a, b']


def py_bin_names(types, rows, names, pool, scale):
    """names the library generates for the binary attributes of each column (replicated here only to AIM the generator
    at collisions; nothing is judged with it)"""
    out = []
    for j, (t, nm) in enumerate(zip(types, names)):
        col = [r[j] for r in rows]
        if t == 'S':
            uniq = sorted({x for v in col for x in v})
            for k in range(len(uniq), -1, -1):
                for comb in itertools.combinations(uniq, k):
                    out.append(f"{nm}: " + (', '.join(str(pool[x]) for x in comb) if comb else '\u2205'))
        elif t in 'IN':
            up = (lambda x: float(x)) if scale is None else (lambda x: scale[x])
            lo, hi = min(v[0] for v in col), max(v[1] for v in col)
            out += [f"{nm}: ({up(lo)}, {up(hi)})", f"{nm}: \u2205"]
        else:
            out.append(nm)
    return out


def special_names(rng, types, rows, pool, scale, collide=0.6):
    """distinct column names from the pool of special spellings; with probability `collide` an AttributePS column is
    named exactly like a binary attribute another column generates"""
    m = len(types)
    names = rng.sample(ATTR_NAME_POOL, m)
    if 'A' in types and m > 1 and rng.random() < collide:
        j = rng.choice([k for k, t in enumerate(types) if t == 'A'])
        others = [k for k in range(m) if k != j]
        gen_names = py_bin_names([types[k] for k in others], [[r[k] for k in others] for r in rows],
                                 [names[k] for k in others], pool, scale)
        cand = [g for g in gen_names if g not in names]
        if cand:
            names[j] = rng.choice(cand)
    return names


def set_cell(rng, universe, kmax=2):
    return sorted(rng.sample(universe, rng.randint(0, min(kmax, len(universe)))))


def h6_cases(tier, rng):
    sep = POOLS['sep']
    ix = sep.index
    # (1) one SetPS column: the values 'a', 'b' next to 'a, b' (equal generated names "s: a, b"), the value named like
    #     the empty-description mark next to empty cells: every 3-row table over these six cells
    cells = [[], [ix('a')], [ix('b')], [ix('a, b')], sorted([ix('a'), ix('b')]), [ix('\u2205')]]
    for combo in itertools.product(cells, repeat=3):
        rows = [[list(v)] for v in combo]
        yield from table_cases(['S'], rows, 'h6-exhaustive', kinds=('cl', 'bin', 'lat'), pool='sep',
                               attr_names=['s'], byname=True)
    # (2) an AttributePS column named like a binary attribute of the SetPS column next to it
    cells2 = [[ix('a')], [ix('b')], [ix('a, b')], sorted([ix('a'), ix('b')])]
    anames = ['s: a', 's: a, b', 's: \u2205', 's: b']
    k = 0
    for combo in itertools.product(cells2, repeat=2):
        for flags in itertools.product((0, 1), repeat=2):
            rows = [[list(v), f] for v, f in zip(combo, flags)]
            k += 1
            if bottom_ok_py(['S', 'A'], rows):
                yield from table_cases(['S', 'A'], rows, 'h6-exhaustive', kinds=('bin', 'lat'), pool='sep',
                                       attr_names=['s', anames[k % 4]])
    # (3) random tables: values from the separator / adler pools, special column and object names
    for _ in range(140 if tier == 'quick' else 1500):
        n, m = rng.randint(2, 5), rng.randint(1, 3)
        types = [rng.choice('SSSIA') for _j in range(m)]
        if 'S' not in types:
            types[rng.randrange(m)] = 'S'
        pool_name = rng.choice(('sep', 'sep', 'adler'))
        pool = POOLS[pool_name]
        univ = {j: rng.sample(range(len(pool)), min(len(pool), rng.randint(2, 4))) for j in range(m)}
        if pool_name == 'sep' and rng.random() < 0.6:
            univ[rng.randrange(m)] = [ix('a'), ix('b'), ix('a, b')] + ([ix('\u2205')] if rng.random() < 0.5 else [])
        grid = [0, 1, 2]
        rows = []
        for _i in range(n):
            r = []
            for j, t in enumerate(types):
                if t == 'S':
                    r.append(set_cell(rng, univ[j]))
                elif t == 'I':
                    a, b = sorted((rng.choice(grid), rng.choice(grid)))
                    r.append([a, a] if rng.random() < 0.5 else [a, b])
                else:
                    r.append(rng.randint(0, 1))
            rows.append(r)
        if not bottom_ok_py(types, rows):
            continue
        names = special_names(rng, types, rows, pool, None)
        objn = rng.sample(OBJ_NAME_POOL, n)
        descs = []
        for _k in range(8):
            d = []
            for j in rng.sample(range(m), rng.randint(0, m)):
                t = types[j]
                if t == 'S':
                    d.append([j, {'S': None if rng.random() < 0.1 else set_cell(rng, univ[j], 3)}])
                elif t == 'I':
                    a, b = sorted((rng.choice(grid), rng.choice(grid)))
                    d.append([j, {'I': None if rng.random() < 0.1 else [a, b]}])
                else:
                    d.append([j, {'B': rng.randint(0, 1)}])
            descs.append(d)
        yield from table_cases(types, rows, 'h6-random', rng=rng, descs=descs, pool=pool_name, attr_names=names,
                               obj_names=objn, byname=True, sp=rng.choice((0, 0, rng.randrange(1, 10 ** 6))))


def h6_hist_cases(tier, rng):
    """class H1 x H6: the colliding names only come into being through a mutation (a cell corrected from {'a','b'} to
    {'a, b'}, structures replaced by ones whose names collide) after everything was used once"""
    sep = POOLS['sep']
    ix = sep.index
    univ = [ix('a'), ix('b'), ix('a, b'), ix('\u2205')]
    made = 0
    want = 70 if tier == 'quick' else 700
    while made < want:
        n, m = rng.randint(2, 4), rng.randint(1, 2)
        types = ['S'] + [rng.choice('AI') for _j in range(m - 1)]

        def cell(t):
            if t == 'S':
                return set_cell(rng, univ)
            if t == 'I':
                a, b = sorted((rng.randint(0, 2), rng.randint(0, 2)))
                return [a, b]
            return rng.randint(0, 1)
        rows0 = [[cell(t) for t in types] for _i in range(n)]
        rows = [[(cell(t) if rng.random() < 0.5 else v) for t, v in zip(types, r)] for r in rows0]
        if not (bottom_ok_py(types, rows0) and bottom_ok_py(types, rows)) or rows == rows0:
            continue
        made += 1
        mut = rng.choice(('data', 'inplace', 'ps', 'fresh2'))
        names = ['s'] + rng.sample(['t', 'x_from', '\u2205'], m - 1)
        ps_names2 = special_names(rng, types, rows, sep, None, collide=1.0) if mut == 'ps' else None
        yield from hist_cases(types, rows0, rows, 'h6-history', mut, PRE_OPS, rng=rng, pool='sep', attr_names=names,
                              ps_names2=ps_names2, obj_names=rng.sample(OBJ_NAME_POOL, n), byname=(mut != 'ps'))


def h4_partner_edit(rng, types, rows, scale, pool):
    """one cell changed into a DIFFERENT cell with the same hash(): an interval end / a set value replaced by its
    hash partner (-1 <-> -2, 1.0 <-> 2.0**61, 0 <-> 2**61-1, tuples / frozensets of them).  None if no cell allows it."""
    ivp = hash_partners(scale) if scale else {}
    sp = hash_partners(pool)
    cand = []
    for i, r in enumerate(rows):
        for j, t in enumerate(types):
            v = r[j]
            if t in 'IN':
                for a2 in [v[0]] + ivp.get(v[0], []):
                    for b2 in [v[1]] + ivp.get(v[1], []):
                        if a2 <= b2 and [a2, b2] != list(v):
                            cand.append((i, j, [a2, b2]))
            elif t == 'S':
                for x in v:
                    for y in sp.get(x, []):
                        if y not in v:
                            cand.append((i, j, sorted([z for z in v if z != x] + [y])))
    if not cand:
        return None
    i, j, nv = rng.choice(cand)
    new = [[list(x) if isinstance(x, list) else x for x in r] for r in rows]
    new[i][j] = nv
    return new


def _check_hash_kept(types, rows0, rows, scale, pool):
    """the generator's own proof that the edit keeps hash() and changes the content (class H4)"""
    for r0, r in zip(rows0, rows):
        for t, v0, v in zip(types, r0, r):
            if v0 == v:
                continue
            if t in 'IN':
                c0, c1 = tuple(scale[x] for x in v0), tuple(scale[x] for x in v)
            else:
                c0, c1 = frozenset(pool[x] for x in v0), frozenset(pool[x] for x in v)
            assert c0 != c1 and hash(c0) == hash(c1), (c0, c1)


H4_MUTS = ('data', 'data', 'inplace', 'inplace', 'ps', 'fresh2')


def h4_cases(tier, rng):
    pts = hash_partners(SCALE_H4)
    # (1) interval columns: every 3-row table of points over {-3,-2,-1,0}, every single swap -1 <-> -2, re-assigned
    #     through `ps.data = ...` and edited in place, after everything was used once
    for t in 'IN':
        for combo in itertools.product(range(4), repeat=3):
            rows0 = [[[a, a]] for a in combo]
            for i, a in enumerate(combo):
                if a in pts:
                    rows = [[list(v) for v in r] for r in rows0]
                    rows[i][0] = [pts[a][0], pts[a][0]]
                    _check_hash_kept([t], rows0, rows, SCALE_H4, POOLS['abc'])
                    for mut in ('data', 'inplace'):
                        yield from hist_cases([t], rows0, rows, 'h4-exhaustive', mut, PRE_OPS, scale=SCALE_H4,
                                              subs=('bin', 'lat'), sp=(7 * i + a + 1) if mut == 'data' else None)
    # (2) SetPS over numbers: cells {-2}, {-1}, {1}, {-1, 1}; swaps -1 <-> -2 and 1 <-> 2**61
    num = POOLS['num']
    sp_ = hash_partners(num)
    cells = [[0], [1], [3], [1, 3]]
    for combo in itertools.product(cells, repeat=3):
        rows0 = [[list(v)] for v in combo]
        for i, v in enumerate(combo):
            for x in v:
                y = sp_[x][0]
                if y in v:
                    continue
                rows = [[list(w) for w in r] for r in rows0]
                rows[i][0] = sorted([z for z in v if z != x] + [y])
                _check_hash_kept(['S'], rows0, rows, None, num)
                mut = ('data', 'inplace')[(i + x) % 2]
                yield from hist_cases(['S'], rows0, rows, 'h4-exhaustive', mut, PRE_OPS, pool='num',
                                      subs=('bin', 'lat'), sp=(5 * i + x + 1) if mut == 'data' else None)
    # (3) random tables of all four structures; 1-3 hash-preserving edits (or a mere re-spelling 1 / 1.0 / True of the
    #     same content), every mutation route, every sub-observation
    made = 0
    want = 220 if tier == 'quick' else 2500
    while made < want:
        n, m = rng.randint(2, 5), rng.randint(1, 3)
        types = [rng.choice('IINSSA') for _j in range(m)]
        pool_name = rng.choice(('num', 'num', 'tup', 'fs'))
        pool = POOLS[pool_name]
        univ = {j: rng.sample(range(len(pool)), min(len(pool), 3)) for j in range(m)}
        hot = [1, 2, 4, 6, 5, 7]
        rows0 = []
        for _i in range(n):
            r = []
            for j, t in enumerate(types):
                if t in 'IN':
                    a, b = sorted((rng.choice(hot if rng.random() < 0.7 else range(8)),
                                   rng.choice(hot if rng.random() < 0.7 else range(8))))
                    r.append([a, a] if rng.random() < 0.6 else [a, b])
                elif t == 'S':
                    r.append(set_cell(rng, univ[j]))
                else:
                    r.append(rng.randint(0, 1))
            rows0.append(r)
        rows = rows0
        for _k in range(rng.randint(1, 3)):
            nxt = h4_partner_edit(rng, types, rows, SCALE_H4, pool)
            if nxt is not None:
                rows = nxt
        if rows == rows0 and rng.random() < 0.7:
            continue                    # (a few content-preserving re-spellings are kept)
        _check_hash_kept(types, rows0, rows, SCALE_H4, pool)
        made += 1
        pre = PRE_OPS if rng.random() < 0.6 else [op for op in PRE_OPS if rng.random() < 0.5]
        descs = []
        for _k in range(6):
            d = []
            for j in rng.sample(range(m), rng.randint(1, m)):
                t = types[j]
                if t in 'IN':
                    a, b = sorted((rng.choice(hot), rng.choice(hot)))
                    d.append([j, {'I': [a, b]}])
                elif t == 'S':
                    d.append([j, {'S': set_cell(rng, univ[j], 3)}])
                else:
                    d.append([j, {'B': rng.randint(0, 1)}])
            descs.append(d)
        yield from hist_cases(types, rows0, rows, 'h4-random', rng.choice(H4_MUTS), pre, rng=rng, scale=SCALE_H4,
                              pool=pool_name, sp=rng.randrange(1, 10 ** 6), all_cols=rng.random() < 0.2,
                              subs=('bin', 'lat', 'cl', 'conj'), descs=descs)
    # (4) edits that keep zlib.adler32 of the text MVContext.hash_fixed() hashes: a value 131.0 <-> 212.0, a SetPS value
    #     'bdb' <-> 'cbc', an object name 'bdb' <-> 'cbc'
    import zlib
    adl = POOLS['adler']
    ap, aiv = adler_partners(adl), adler_partners(SCALE_ADLER)
    made = 0
    want = 60 if tier == 'quick' else 600
    while made < want:
        n, m = rng.randint(2, 4), rng.randint(1, 2)
        types = [rng.choice('ISA') for _j in range(m)]
        rows0 = [[([rng.choice((1, 1, 2, 0, 3))] * 2 if t == 'I' else [rng.choice(range(len(adl)))] if t == 'S'
                   else rng.randint(0, 1)) for t in types] for _i in range(n)]
        rows = [[list(v) if isinstance(v, list) else v for v in r] for r in rows0]
        for i in range(n):
            for j, t in enumerate(types):
                if rng.random() < 0.5:
                    v = rows[i][j]
                    if t == 'I' and v[0] in aiv:
                        rows[i][j] = [aiv[v[0]][0]] * 2
                    elif t == 'S' and v[0] in ap:
                        rows[i][j] = [ap[v[0]][0]]
        objn = rng.sample(['bdb', 'cbc', 'g0', 'g1', 'ace', 'bcf'], n)
        names2 = [G.adler_collide_name(x) or x for x in objn] if rng.random() < 0.5 else None
        if names2 is not None and len(set(names2)) < n:
            names2 = None
        if rows == rows0 and (names2 is None or names2 == objn):
            continue

        def text(rs, on):
            data = [[((SCALE_ADLER[v[0]], SCALE_ADLER[v[1]]) if t == 'I' else {adl[v[0]]} if t == 'S' else bool(v))
                     for t, v in zip(types, r)] for r in rs]
            return str(on) + str([str(j) for j in range(m)]) + str(data)
        if zlib.adler32(text(rows0, objn).encode()) != zlib.adler32(text(rows, names2 or objn).encode()):
            continue
        if not (bottom_ok_py(types, rows0) and bottom_ok_py(types, rows)):
            continue
        made += 1
        yield from hist_cases(types, rows0, rows, 'h4-adler', rng.choice(('data', 'inplace', 'ps', 'fresh2')), PRE_OPS,
                              rng=rng, scale=SCALE_ADLER, pool='adler', obj_names=objn, names2=names2)


def h5_cases(tier, rng):
    made = 0
    want = 110 if tier == 'quick' else 1200
    while made < want:
        pool_name = rng.choice(('abc', 'sep', 'num'))
        pool = POOLS[pool_name]
        n, m = rng.randint(2, 5), rng.randint(1, 3)
        types = [rng.choice('ISAAN') for _j in range(m)]
        if rng.random() < 0.5:
            types[rng.randrange(m)] = 'I'
        univ = {j: rng.sample(range(len(pool)), min(len(pool), 3)) for j in range(m)}

        def cell(j, t):
            if t in 'IN':
                a, b = sorted((rng.randrange(8), rng.randrange(8)))
                return [a, a] if rng.random() < 0.5 else [a, b]
            if t == 'S':
                return set_cell(rng, univ[j])
            return rng.randint(0, 1)
        rows0 = [[cell(j, t) for j, t in enumerate(types)] for _i in range(n)]
        side = rng.choice(('src', 'src', 'der'))
        names2 = None
        if side == 'src':
            mut = rng.choice(('data', 'inplace', 'ps'))
            rows = h4_partner_edit(rng, types, rows0, SCALE_H4, pool) if rng.random() < 0.4 else None
            if rows is None:
                rows = [[(cell(j, t) if rng.random() < 0.4 else v) for j, (t, v) in enumerate(zip(types, r))]
                        for r in rows0]
            if rng.random() < 0.5:
                names2 = rng.sample(OBJ_NAME_POOL, n)
        else:
            mut = rng.choice(('der-names', 'der-attrs', 'der-data', 'der-all', 'der-scribble'))
            rows = rows0
        if not (bottom_ok_py(types, rows0) and bottom_ok_py(types, rows)):
            continue
        made += 1
        c = dict(stream='h5-binarize', kind='h5', side=side, mut=mut, types=list(types), rows0=rows0, rows=rows,
                 scale=SCALE_H4, pool=pool_name, sp=rng.choice((0, rng.randrange(1, 10 ** 6))),
                 pre=[op for op in PRE_OPS if rng.random() < 0.3])
        if names2 is not None:
            c['names2'] = names2
        if pool_name == 'sep':
            c['attr_names'] = special_names(rng, types, rows0, pool, SCALE_H4)
        c['subsets'] = fill(dict(kind='cl', rows=rows), rng)['subsets'][:40]
        yield c


def big_lists(n):
    full = list(range(n))
    out = [[n - 1], [0, n - 1], [n - 1, 0], [n - 1] * n, full, list(reversed(full)), full + [0], full[1:], full[:-1],
           [i for i in full if i % 3 == 0], [0], [1], [0, 1], [n - 2, n - 1], [2, n - 1, 2],
           [(i // 2) * 2 % n for i in full], [n - 1 - (i // 2) for i in full]]
    if n > 64:
        out += [[63, 64], [64], [64] * n, full[:64], full[64:]]
    return out


def big_cases():
    """class H8: 64 / 65 / 129 objects in both binarising shapes and on the object-wise path; the last object (index
    >= 63 / 64 / 128) carries a unique value, so every closed set containing it differs from one that does not"""
    for n in (64, 65, 129):
        subsets = big_lists(n)
        # (a) more objects than binary attributes: an interval column (H4 grid) and a flag
        vals = [[[0, 4], 1], [[3, 3], 0], [[4, 4], 1], [[0, 0], 1]]
        rows = [[list(vals[(5 * i + 1) % 4][0]), vals[(5 * i + 1) % 4][1]] for i in range(n)]
        rows[n - 1] = [[2, 5], 0]
        yield from table_cases(['I', 'A'], rows, 'h8-objects', kinds=('cl', 'bin', 'lat'), scale=SCALE_H4, big=True,
                               subsets=subsets)
        if n == 65:
            rows2 = [[list(r[0]), r[1]] for r in rows]
            rows2[n - 1] = [[1, 5], 0]         # -1 -> -2 in the left end of the last object: same hash, a new threshold
            _check_hash_kept(['I', 'A'], rows, rows2, SCALE_H4, POOLS['abc'])
            for mut in ('data', 'inplace'):
                yield from hist_cases(['I', 'A'], rows, rows2, 'h8-objects', mut, PRE_OPS, scale=SCALE_H4, big=True,
                                      subsets=subsets)
            yield from table_cases(['N', 'A'], rows, 'h8-objects', kinds=('cl', 'bin', 'lat'), scale=SCALE_H4, big=True,
                                   subsets=subsets)
        # (b) at least as many binary attributes as objects: SetPS over 7 values (128 attributes) and an interval column
        svals = [[0, 1, 2], [2, 3], [4, 5, 6], [0, 6]] if n < 129 else [[0, 1, 2], [2, 3], [4, 5, 6]]
        rows = [[list(svals[(3 * i + 2) % len(svals)]), [i % 2, i % 2]] for i in range(n)]
        rows[n - 1] = [[1, 3, 5], [0, 1]]
        yield from table_cases(['S', 'I'], rows, 'h8-objects', kinds=('cl', 'bin', 'lat'), pool='abcdefg', big=True,
                               subsets=subsets)


def load_corpus():
    import json
    import os
    d = os.path.join(os.path.dirname(os.path.dirname(os.path.dirname(os.path.abspath(__file__)))), 'corpus', 'C14')
    if os.path.isdir(d):
        for f in sorted(os.listdir(d)):
            if f.endswith('.json'):
                c = json.load(open(os.path.join(d, f)))
                c['stream'] = 'corpus' + ('-notbottomok' if not bottom_ok_py(c['types'], c['rows']) else '')
                yield c


def gen(tier, seed, boost=False):
    rng = random.Random(seed * 1000003 + 1414)
    _notbottom_seen[0] = 0
    thorough = tier == 'thorough'          # the full thorough scope
    extra = thorough or boost              # a boosted quick run adds the cheap extra streams only (stays ~minutes)
    yield from load_corpus()
    # the two witnesses of the known finding and a mixed table, always first
    yield from table_cases(['A'], [[0], [1]], 'exhaustive')
    yield from table_cases(['A'], [[0]], 'exhaustive')
    # ---- object-wise path on 4..7 objects (n_projections_to_binarize=0 judged against the closed sets) ----
    # early in the stream: CbO's canonicity/extent computation only has room to go wrong when a closure jumps
    # over an object that joins later, which needs >= 4 objects in an unsorted row order
    ow = {'I': [[0, 0], [1, 1], [0, 1]], 'S': [[], [0]], 'A': ATTR}
    for types in itertools.product('ISA', repeat=2):
        for rows in tables(4, types, [ow[t] for t in types]):
            yield from table_cases(types, rows, 'objectwise-4rows', kinds=('lat',))
    for _ in range(300 if tier == 'quick' else 3000):
        types, rows = pooled_table(rng)
        yield from table_cases(types, rows, 'objectwise-random', kinds=('cl', 'lat'), rng=rng)
    # ---- histories on ONE context object: use -> public setter -> use again (judged on the current content) ----
    # every 2-row one-column table replaced by every other one through `ps.data = ...` after everything was used once
    for t in 'INSA':
        tabs = list(tables(2, [t], [domain(t)]))
        for rows0 in tabs:
            for rows in tabs:
                if rows0 != rows:
                    yield from hist_cases([t], rows0, rows, 'history-2rows', 'data', PRE_OPS,
                                          scale=SCALES[1] if t == 'N' else None)
    for k in range(250 if tier == 'quick' else 2500):
        grid = list(range(rng.choice((3, 5))))
        syms = rng.choice((2, 3))
        types, rows0 = random_table(rng, 5, 3, grid, syms)
        if len(rows0) < 2:
            continue
        mut = rng.choice(('data', 'data', 'ps', 'hostile'))
        rows = rows0 if mut == 'hostile' else mutate_rows(rng, types, rows0, grid, syms)
        pre = PRE_OPS if rng.random() < 0.6 else [op for op in PRE_OPS if rng.random() < 0.5]
        names2 = [f'h{i}' for i in reversed(range(len(rows0)))] if rng.random() < 0.4 else None
        yield from hist_cases(types, rows0, rows, 'history-random', mut, pre, rng=rng, names2=names2,
                              scale=rng.choice(SCALES), all_cols=rng.random() < 0.3)
    # ---- wave-4 classes (tools/CLASSES.md): H6, H4 (+H4b), H5, H8 -------------------------------------------------
    yield from h6_cases(tier, rng)
    yield from h6_hist_cases(tier, rng)
    yield from h4_cases(tier, rng)
    yield from h5_cases(tier, rng)
    yield from big_cases()
    # ---- IntervalNumpyPS columns, small, with values that float32 cannot hold ----------------------------------
    for n in (1, 2, 3):
        for rows in tables(n, ['N'], [IV_FULL]):
            yield from table_cases(['N'], rows, 'numpy-small', scale=SCALES[1])
    for types in itertools.product('NISA', repeat=2):
        if 'N' in types:
            for n in (1, 2):
                for rows in tables(n, types, [domain(t, IV_SMALL) for t in types]):
                    yield from table_cases(types, rows, 'numpy-small', kinds=('cl', 'bin', 'lat'),
                                           scale=SCALES[2] if n == 2 else None)
    # ---- exhaustive small scope ------------------------------------------------------------------------
    base_types = 'ISA'
    for n in (1, 2, 3):
        for m in (1, 2):
            for types in itertools.product(base_types, repeat=m):
                small = (n == 3 and m == 2 and not thorough)
                doms = [domain(t, IV_SMALL if small else IV_FULL) for t in types]
                conj = (n <= 2 or m == 1)
                for rows in tables(n, types, doms):
                    yield from table_cases(types, rows, 'exhaustive',
                                           kinds=('cl', 'conj', 'bin', 'lat') if conj else ('cl', 'bin', 'lat'))
    if extra:
        # IntervalNumpyPS columns: all 1-column tables and 2-column tables with <= 2 rows
        for n in (1, 2, 3):
            for m in (1, 2):
                if n == 3 and m == 2:
                    continue
                for types in itertools.product('NISA', repeat=m):
                    if 'N' not in types:
                        continue
                    for rows in tables(n, types, [domain(t) for t in types]):
                        yield from table_cases(types, rows, 'exhaustive-numpy')
        # 4 rows, 1 column (SetPS over {a,b,c})
        for t in 'ISAN':
            for rows in tables(4, [t], [domain(t, IV_FULL, SET_ABC)]):
                yield from table_cases([t], rows, 'exhaustive-4rows',
                                       descs=all_descs([t], syms=3) if t == 'S' else None)
    if thorough:
        # 4 rows, 2 columns over a reduced cell domain
        red = {'I': [[0, 0], [1, 1], [0, 1]], 'S': [[], [0], [0, 1]], 'A': ATTR}
        for types in itertools.product('ISA', repeat=2):
            for rows in tables(4, types, [red[t] for t in types]):
                yield from table_cases(types, rows, 'exhaustive-4rows', kinds=('cl', 'bin', 'lat'))
    # ---- tall tables: more objects than binary attributes (the transposed binarising shape) ------------
    ntall = 150 if tier == 'quick' else 1500
    made = 0
    while made < ntall:
        n = rng.randint(3, 6)
        m = rng.randint(1, 2)
        types = [rng.choice('IAAS') for _ in range(m)]
        const = {j: rng.choice(domain(t)) for j, t in enumerate(types)}
        alt = {j: rng.choice(domain(t)) for j, t in enumerate(types)}
        rows = [[(alt[j] if (t == 'A' or rng.random() < 0.25) and rng.random() < 0.5 else const[j])
                 for j, t in enumerate(types)] for _i in range(n)]
        rows = [[list(v) if isinstance(v, list) else v for v in r] for r in rows]
        if n <= nbin_py(types, rows):
            continue
        made += 1
        yield from table_cases(types, rows, 'tall', kinds=('cl', 'bin', 'lat'), rng=rng)
    # ---- seeded random larger tables -------------------------------------------------------------------
    nrand = 400 if tier == 'quick' else 6000
    if boost:
        nrand *= 3
    for _ in range(nrand):
        grid = list(range(rng.choice((3, 5))))
        syms = rng.choice((2, 3))
        types, rows = random_table(rng, 6, 3, grid, syms)
        descs = [random_desc(rng, types, grid, syms) for _k in range(12)] + [[]]
        yield from table_cases(types, rows, 'random', rng=rng, descs=descs, scale=rng.choice(SCALES))


# ----------------------------------------------------------------------------------------------------------
# implementation side

# Interval ends live on an integer grid in the cases and in the Lean model; the implementation is fed the grid
# point's image under a strictly increasing `scale` (the structures only compare, take min/max and copy values, so the
# model is the same up to that order isomorphism).  The non-identity scales hold values that float32 cannot represent
# and the infinities; a value that comes back changed (rounded, cast) is not found in the inverse table => failure.
INF = float('inf')
SCALES = [None,
          [0.1, 19.99, 16777217.0, 16777218.5, 1e300],
          [-INF, -19.99, 0.1, 16777217.0, INF]]
# class H4: grid points whose images have colliding hash(): -2.0/-1.0, 1.0/2.0**61, 2.0/2.0**62 (hash(float) is the
# value mod 2**61-1); and images whose repr() have colliding zlib.adler32 in every context: 131.0/212.0
SCALE_H4 = [-3.0, -2.0, -1.0, 0.0, 1.0, 2.0, 2.0 ** 61, 2.0 ** 62]
SCALE_ADLER = [0.0, 131.0, 212.0, 300.0]
assert hash_partners(SCALE_H4) == {1: [2], 2: [1], 4: [6], 6: [4], 5: [7], 7: [5]}
assert adler_partners(SCALE_ADLER) == {1: [2], 2: [1]}
_SCALE = [None]       # scale of the case being executed (set by _impl)
_POOL = [POOLS['abc']]  # SetPS value pool of the case being executed


def _enter(c):
    _SCALE[0] = c.get('scale')
    _POOL[0] = pool_of(c)


def _up(x):
    sc = _SCALE[0]
    return float(x) if sc is None else sc[x]


def _mix(*xs):
    h = 2166136261
    for x in xs:
        h = ((h ^ (int(x) & 0xffffffff)) * 16777619 + 0x9e3779b9) & 0xffffffff
        h ^= h >> 15
    return h


def _spell_num(x, salt):
    """a Python number EQUAL to x (hence with the same hash): int / float / bool spellings"""
    import math
    vs = [x]
    if isinstance(x, float) and math.isfinite(x) and x == int(x):
        vs.append(int(x))
    if isinstance(x, int) and not isinstance(x, bool) and abs(x) < 2 ** 53:
        vs.append(float(x))
    if x == 0 or x == 1:
        vs.append(bool(x))
    v = vs[salt % len(vs)]
    assert v == x and hash(v) == hash(x)
    return v


def _spell_val(v, salt):
    """an equal spelling of a SetPS value (numbers inside tuples / frozensets included)"""
    if isinstance(v, str):
        return v
    if isinstance(v, tuple):
        return tuple(_spell_num(e, salt + k) for k, e in enumerate(v))
    if isinstance(v, frozenset):
        return frozenset(_spell_num(e, salt + k) for k, e in enumerate(sorted(v)))
    return _spell_num(v, salt)


ATTR_TRUE = [True, 1, 1.0, -1, -2, P61, 2 ** 61]
ATTR_FALSE = [False, 0, 0.0]


def _cell(t, v, salt=0):
    """the Python cell for the abstract cell `v`; salt 0 = the plain spelling, otherwise one of the equal spellings
    (1 / 1.0 / True, scalar / tuple / list for a point interval, set / frozenset / list / tuple / bare value)"""
    if t in 'IN':
        a, b = v
        lo, hi = _up(a), _up(b)
        if not salt:
            return lo if a == b else (lo, hi)
        lo, hi = _spell_num(lo, salt), _spell_num(hi, salt >> 3)
        how = (salt >> 6) % 4
        if a == b and how == 0:
            return lo
        if a == b and how == 1:
            return [lo]
        return (lo, hi) if how < 3 else [lo, hi]
    if t == 'S':
        pool = _POOL[0]
        if not salt:
            return {pool[x] for x in v}
        vals = [_spell_val(pool[x], salt + k) for k, x in enumerate(v)]
        how = (salt >> 6) % 6
        scalar = len(vals) == 1 and isinstance(vals[0], (str, int, float))
        if how == 0 and scalar:
            return vals[0]                         # a bare value stands for the one-element set
        if how == 1:
            return frozenset(vals)
        if how == 2:
            return list(vals) + [_spell_val(pool[x], salt + 5 + k) for k, x in enumerate(v)]   # repetitions
        if how == 3:
            return tuple(reversed(vals))
        return set(vals)
    if not salt:
        return bool(v)
    return (ATTR_TRUE if v else ATTR_FALSE)[salt % (len(ATTR_TRUE) if v else len(ATTR_FALSE))]


def _stored(t, v):
    """the value the structure itself stores for the abstract cell `v` (what `_transform_data` produces): used for
    in-place edits of `ps.data[i]`"""
    if t in 'IN':
        return (float(_up(v[0])), float(_up(v[1])))
    if t == 'S':
        return {_POOL[0][x] for x in v}
    return bool(v)


def _ps_classes():
    from fcapy.mvcontext import pattern_structure as PS
    return {'I': PS.IntervalPS, 'N': PS.IntervalNumpyPS, 'S': PS.SetPS, 'A': PS.AttributePS}


def _attr_names(c):
    return list(c.get('attr_names') or [str(j) for j in range(len(c['types']))])


def _obj_names(c, n):
    return list(c.get('obj_names') or [f'g{i}' for i in range(n)])


def _cells(c, rows, phase=0):
    sp = c.get('sp') or 0
    return [[_cell(t, v, _mix(sp, i, j, phase) if sp else 0) for j, (t, v) in enumerate(zip(c['types'], r))]
            for i, r in enumerate(rows)]


def make_mv(c, rows=None, obj_names=None, phase=0):
    from fcapy.mvcontext import MVContext
    cls = _ps_classes()
    _enter(c)
    names = _attr_names(c)
    data = _cells(c, c['rows'] if rows is None else rows, phase)
    return MVContext(data, {nm: cls[t] for nm, t in zip(names, c['types'])}, attribute_names=names,
                     object_names=obj_names or _obj_names(c, len(data)))


def _num(x):
    x = float(x)
    sc = _SCALE[0]
    if sc is not None:
        for i, v in enumerate(sc):
            if v == x:
                return i
        raise ValueError(f'interval end {x!r} is not a value of the table')
    if x != int(x):
        raise ValueError(f'non-integral interval end {x}')
    return int(x)


def canon_dval(t, v):
    if t in 'IN':
        return {'I': None if v is None else [_num(v[0]), _num(v[1])]}
    if t == 'S':
        return {'S': None if v is None else sorted(_POOL[0].index(s) for s in v)}
    return {'B': int(bool(v))}


def canon_desc(types, d):
    return [[int(i), canon_dval(types[int(i)], v)] for i, v in d.items()]


def py_dval(v):
    if 'I' in v:
        return None if v['I'] is None else (_up(v['I'][0]), _up(v['I'][1]))
    if 'S' in v:
        return None if v['S'] is None else {_POOL[0][x] for x in v['S']}
    return bool(v['B'])


def py_desc(desc):
    return {i: py_dval(v) for i, v in desc}


def _closure(K, A):
    return ints(K.extension_i(K.intention_i(list(A))))


def _closed_mv(K, n, kmin=0):
    out = set()
    for k in range(kmin, n + 1):
        for A in itertools.combinations(range(n), k):
            out.add(tuple(sorted(_closure(K, A))))
    return sorted([list(x) for x in out], key=lambda e: (len(e), e))


CASE_TIME_LIMIT_S = 10
_TIMED_OUT = set()      # cases (of this process) on which the implementation ran into the time guard


def _case_id(c):
    import json
    return json.dumps([c['kind'], c['types'], c['rows'], c.get('sub'), c.get('rows0'), c.get('mut'), c.get('pool'),
                       c.get('sp'), c.get('attr_names'), c.get('obj_names'), c.get('side')])


class NonTermination(BaseException):     # not an Exception: the per-call handlers of _impl must not swallow it
    pass


def _alarm(signum, frame):
    raise NonTermination()


def impl(c):
    """run the real code under a per-case time guard: a hang / blow-up is a property failure, never a silent stall"""
    import signal
    try:
        old = signal.signal(signal.SIGALRM, _alarm)
    except ValueError:          # not in the main thread of the process: no guard available
        return _impl(c)
    signal.setitimer(signal.ITIMER_REAL, CASE_TIME_LIMIT_S)
    try:
        return _impl(c)
    except NonTermination:
        _TIMED_OUT.add(_case_id(c))
        return {'err': 'NonTermination'}
    finally:
        signal.setitimer(signal.ITIMER_REAL, 0)
        signal.signal(signal.SIGALRM, old)


def _base_variant(j, base):
    """how the j-th base list of a conj case is handed over: list / tuple / ndarray / set (sets only when duplicate-free)"""
    if base is None:
        return 'none'
    v = ('list', 'tuple', 'array', 'list', 'set')[j % 5]
    if v == 'set' and len(set(base)) != len(base):
        v = 'list'
    return v


def _as_variant(v, base):
    if v == 'none':
        return None
    if v == 'tuple':
        return tuple(base)
    if v == 'array':
        import numpy as np
        return np.array(base, dtype=int)
    if v == 'set':
        return set(base)
    return list(base)


def _snap(Kb):
    """everything a binarised FormalContext answers: table, width, object / attribute names"""
    rows = [[int(bool(v)) for v in r] for r in Kb.data.to_list()]
    return {'names': [str(x) for x in Kb.object_names], 'rows': rows, 'w': int(Kb.n_attributes),
            'n': int(Kb.n_objects), 'attrnames': [str(x) for x in Kb.attribute_names]}


def _observe_bin(K, c, n):
    Kb = K.binarize()
    out = _snap(Kb)
    produced = list(K.to_bin_attr_extents())
    out.update(mvnames=[str(x) for x in K.object_names], nbin=int(K.n_bin_attrs), nattrnames=len(out['attrnames']),
               nprod=len(produced), prodnames=[str(m) for m, _e in produced],
               tobin=[[int(bool(v)) for v in e] for _m, e in produced],
               nbin_cols=[int(ps.n_bin_attrs) for ps in K.pattern_structures],
               nprod_cols=[len(list(ps.to_bin_attr_extents())) for ps in K.pattern_structures])
    if not c.get('big'):
        out['closed_mv'] = _closed_mv(K, n)
    return out


def _observe(K, c):
    """the observation of kind c['kind'] on the context object K (whose content is c['rows'])"""
    types, n = c['types'], len(c['rows'])
    kind = c['kind']
    if kind == 'cl':
        from fcapy.lattice.pattern_concept import PatternConcept
        res = []
        for k, A in enumerate(c['subsets']):
            try:
                arg = list(A) if k % 2 == 0 else tuple(A)      # CbO itself passes tuples
                d = K.intention_i(arg)
                e = ints(K.extension_i(d))
                ee = _closure(K, e) if e else None
                x = {'int': canon_desc(types, d), 'cl': e, 'clcl': ee}
                if k % 3 == 0:
                    objs = list(A) if k % 2 == 0 else [K.object_names[g] for g in A]
                    pc = PatternConcept.from_objects(objs, K)
                    x['fo'] = {'e': ints(pc.extent_i), 'i': canon_desc(types, dict(pc.intent_i)),
                               'names': [str(g) for g in pc.extent]}
                    x['fo_names_want'] = [str(K.object_names[g]) for g in pc.extent_i]
                if c.get('byname') and k % 3 == 1:
                    # the name-keyed forms: descriptions keyed by pattern-structure name, objects by name
                    x['byname'] = [str(g) for g in K.extension(K.intention([K.object_names[g] for g in A]))]
                    x['byname_want'] = [str(K.object_names[g]) for g in e]
                res.append(x)
            except Exception as ex:
                res.append({'err': exc_name(ex)})
        return {'res': res}
    if kind == 'conj':
        mat = []
        for desc in c['descs']:
            row = []
            for jb, base in enumerate(c['bases']):
                try:
                    row.append(ints(K.extension_i(py_desc(desc), _as_variant(_base_variant(jb, base), base))))
                except Exception as ex:
                    row.append({'err': exc_name(ex)})
            mat.append(row)
        return {'mat': mat}
    if kind == 'bin':
        try:
            return _observe_bin(K, c, n)
        except Exception as ex:
            return {'err': exc_name(ex)}
    if kind == 'lat':
        from fcapy.lattice import ConceptLattice
        out = {'paths': [], 'closed_ne': None if c.get('big') else _closed_mv(K, n, 1), 'cl_empty': _closure(K, [])}
        bot = {j: (None if t in 'IN' else (set() if t == 'S' else True)) for j, t in enumerate(types)}
        out['ext_bottom'] = ints(K.extension_i(bot))
        for thr in (0, 1000):
            try:
                L = ConceptLattice.from_context(K, algo='CbO', n_projections_to_binarize=thr)
                cs = list(L)
                conc = []
                for cc in cs:
                    e = ints(cc.extent_i)
                    conc.append({'e': sorted(e), 'i': canon_desc(types, dict(cc.intent_i)),
                                 'i_of_e': canon_desc(types, K.intention_i(sorted(e)))})
                cov = sorted([conc[p]['e'], conc[ch]['e']] for p, chs in L.children_dict.items() for ch in chs)
                out['paths'].append({'thr': thr, 'ok': conc, 'covers': cov})
            except Exception as ex:
                out['paths'].append({'thr': thr, 'err': exc_name(ex)})
        return out
    raise ValueError(kind)


PRE_OPS = ('nbin', 'binarize', 'tobin', 'lat1000', 'lat0', 'cl', 'int0', 'data', 'hash', 'pyhash', 'byname')


def _warm(K, ops, n, descs=()):
    """first use of the object: everything that could fill a memo; returns the values handed back to the caller"""
    from fcapy.lattice import ConceptLattice
    got = []
    for desc in descs or ():
        try:
            got.append(K.extension_i(py_desc(desc)))
            got.append(K.extension_i(py_desc(desc), base_objects_i=[n - 1, 0]))
        except Exception:
            pass
    for op in ops:
        try:
            if op == 'nbin':
                got.append(K.n_bin_attrs)
                got.extend(ps.n_bin_attrs for ps in K.pattern_structures)
            elif op == 'binarize':
                got.append(K.binarize())
            elif op == 'tobin':
                got.append(list(K.to_bin_attr_extents()))
            elif op == 'lat1000':
                got.append(ConceptLattice.from_context(K, algo='CbO'))
            elif op == 'lat0':
                got.append(ConceptLattice.from_context(K, algo='CbO', n_projections_to_binarize=0))
            elif op == 'cl':
                for A in ([0], list(range(n)), [n - 1, 0]):
                    d = K.intention_i(A)
                    got.append(d)
                    got.append(K.extension_i(d))
                    got.append(K.extension_i(d, base_objects_i=A))
            elif op == 'int0':
                got.append(K.intention_i([]))
            elif op == 'data':
                # read only: `ps.data` / the cells of `K.data` ARE the structure's own storage (the getter hands the
                # list out on purpose, it is also how a caller edits a column); they are not scribbled on
                K.data
                [ps.data for ps in K.pattern_structures]
            elif op == 'hash':
                got.append(K.hash_fixed())
            elif op == 'pyhash':
                for ps in K.pattern_structures:
                    try:
                        got.append(hash(ps))        # TypeError for SetPS (a list of sets)
                    except TypeError:
                        pass
                got.append(hash(K))
            elif op == 'byname':
                d = K.intention([K.object_names[0], K.object_names[n - 1]])
                got.append(d)
                got.append(K.extension(d))
        except Exception:
            pass        # e.g. the KeyError of finding D17 on the first content; the judged observation comes later
    return got


def _scribble(v, depth=0):
    """in-place mutation of a value the library RETURNED to the caller (it must be the caller's own copy)"""
    try:
        import numpy as np
    except Exception:
        np = None
    if depth > 3:
        return
    if isinstance(v, dict):
        for x in list(v.values()):
            _scribble(x, depth + 1)
        try:
            v.clear()
        except Exception:
            pass
    elif isinstance(v, set):
        v.add('q')
        v.discard('a')
    elif isinstance(v, list):
        for x in v:
            _scribble(x, depth + 1)
        v.reverse()
        v.append(10 ** 6)
    elif np is not None and isinstance(v, np.ndarray) and v.flags.writeable:
        try:
            v[...] = -7
        except Exception:
            pass


def _inplace(K, c, rows0, rows):
    """edit the changed cells in place through `ps.data` -- the structure's own storage, which the getter hands out
    (that is how a caller corrects one cell); the value written is the one the structure itself would store"""
    for j, t in enumerate(c['types']):
        d = K.pattern_structures[j].data
        for i, (r0, r) in enumerate(zip(rows0, rows)):
            if r0[j] == r[j] and not c.get('all_cols'):
                continue
            v = _stored(t, r[j])
            if t == 'S' and (i + j) % 2 == 0:
                d[i].clear()            # the very set object the structure holds
                d[i].update(v)
            elif t == 'N' and (i + j) % 2 == 0:
                d[i, 0] = v[0]
                d[i, 1] = v[1]
            else:
                d[i] = v


def _mutate(K, c, got, data):
    """the mutation step of a history; returns the object the second use is made on"""
    from fcapy.mvcontext import MVContext
    cls = _ps_classes()
    types, rows0, rows = c['types'], c['rows0'], c['rows']
    names = _attr_names(c)
    mut = c['mut']
    new = _cells(c, rows, 1)
    if mut == 'data':
        for j, t in enumerate(types):
            if c.get('all_cols') or any(r0[j] != r[j] for r0, r in zip(rows0, rows)):
                K.pattern_structures[j].data = [r[j] for r in new]
    elif mut == 'inplace':
        _inplace(K, c, rows0, rows)
    elif mut == 'ps':
        K.pattern_structures = [cls[t]([r[j] for r in new], name=(c.get('ps_names2') or names)[j])
                                for j, t in enumerate(types)]
    elif mut == 'fresh2':
        # class H4b: ANOTHER context object (same names, colliding hashes) used after the first one was used
        K = MVContext(new, {nm: cls[t] for nm, t in zip(names, types)}, attribute_names=names,
                      object_names=_obj_names(c, len(rows)))
    elif mut == 'hostile':
        for v in got:
            _scribble(v)
        for r in data:          # the caller's own table, after the context was built from it
            for k in range(len(r)):
                if isinstance(r[k], set):
                    r[k].add('q')
            if isinstance(r, list):
                r.reverse()
        data.reverse()
    if c.get('names2') is not None:
        K.object_names = list(c['names2'])
    if c.get('attr_names2') is not None:
        K.attribute_names = list(c['attr_names2'])
    return K


def _impl_hist(c):
    """use -> mutate through public setters (or scribble on returned values / own inputs) -> use again, on ONE object"""
    from fcapy.mvcontext import MVContext
    cls = _ps_classes()
    _enter(c)
    types, rows0 = c['types'], c['rows0']
    n = len(rows0)
    names = _attr_names(c)
    data = _cells(c, rows0, 0)
    K = MVContext(data, {nm: cls[t] for nm, t in zip(names, types)}, attribute_names=names,
                  object_names=_obj_names(c, n))
    got = _warm(K, c['pre'], n, c.get('descs'))
    K = _mutate(K, c, got, data)
    sub = dict(c, kind=c['sub'])
    return _observe(K, sub)


def _impl_h5(c):
    """class H5: Kb = K.binarize() is a NEW object.  Mutate one of the two through its public API, then ask both:
    Kb answers for the content it was derived from (unless it is the one mutated), K for its current content, and
    K.binarize() asked AGAIN is the binarisation of K as it is now, with K's names."""
    from fcapy.mvcontext import MVContext
    cls = _ps_classes()
    _enter(c)
    types, rows0 = c['types'], c['rows0']
    n = len(rows0)
    names = _attr_names(c)
    data = _cells(c, rows0, 0)
    K = MVContext(data, {nm: cls[t] for nm, t in zip(names, types)}, attribute_names=names,
                  object_names=_obj_names(c, n))
    got = _warm(K, c.get('pre') or (), n)
    Kb = K.binarize()
    snap0 = _snap(Kb)
    if c['side'] == 'src':
        K2 = _mutate(K, c, got, data)
        assert K2 is K
    else:
        how = c['mut']
        if how in ('der-names', 'der-all'):
            Kb.object_names = [f'b{i}, x' for i in range(n)]
        if how in ('der-attrs', 'der-all'):
            Kb.attribute_names = [f'm{k}' for k in range(Kb.n_attributes)]
        if how in ('der-data', 'der-all'):
            Kb.data.data = [[not v for v in r] for r in Kb.data.to_list()]
        if how == 'der-scribble':
            for v in (Kb.data.to_list(), Kb.object_names, Kb.attribute_names, list(K.to_bin_attr_extents())):
                _scribble(v)
    first = _snap(Kb)
    return {'snap0': snap0, 'first': first, 'again': _observe(K, dict(c, kind='bin')),
            'cl': _observe(K, dict(c, kind='cl'))}


def _impl(c):
    if c['kind'] == 'hist':
        return _impl_hist(c)
    if c['kind'] == 'h5':
        return _impl_h5(c)
    return _observe(make_mv(c), c)


# ----------------------------------------------------------------------------------------------------------
# Lean side

def lean_K(c, rows=None, names=None):
    rows = c['rows'] if rows is None else rows
    cols = []
    for j, t in enumerate(c['types']):
        cols.append({'t': 'I' if t in 'IN' else t, 'd': [r[j] for r in rows]})
    n = len(rows)
    return {'n': n, 'names': list(names or c.get('names2') or _obj_names(c, n)), 'cols': cols}


REQUESTS_NEED_IMPL = True


def requests(c, io):
    if c['kind'] == 'hist':
        return requests(dict(c, kind=c['sub']), io)
    K = lean_K(c)
    kind = c['kind']
    if kind == 'h5':
        first, again = io.get('first') or {}, io.get('again') or {}
        return [dict(op='C14.bin', K=lean_K(c, c['rows0'], _obj_names(c, len(c['rows0']))),
                     rows=first.get('rows') or [[0]], w=first.get('w', 1)),
                dict(op='C14.bin', K=K, rows=again.get('rows') or [[0]], w=again.get('w', 1)),
                dict(op='C14.cl', K=K, subsets=c['subsets'])]
    if kind == 'cl':
        return [dict(op='C14.cl', K=K, subsets=c['subsets'])]
    if kind == 'conj':
        return [dict(op='C14.ext', K=K, descs=c['descs'], bases=c['bases'])]
    if kind == 'bin':
        rows = io.get('rows') or [[0]]
        if c.get('big'):
            return [dict(op='C14.binBig', K=K, rows=rows, w=io.get('w', 1), subsets=c['subsets'])]
        return [dict(op='C14.bin', K=K, rows=rows, w=io.get('w', 1))]
    if kind == 'lat':
        return [dict(op='C14.latBig' if c.get('big') else 'C14.lat', K=K, thrs=[0, 1000])]
    raise ValueError(kind)


def _key(e):
    return (len(e), e)


def _canon_concepts(cs):
    return sorted(([x['e'], sorted(x['i'])] for x in cs), key=lambda p: (_key(p[0]), str(p[1])))


def _cols_of(rows, w):
    return [[r[k] for r in rows] for k in range(w)]


def _judge_bin(c, io, r, n, closed_mv=None):
    """the binarised context: same objects; declared = produced = actual number of binary attributes, column by
    column of the many-valued context (names of binary attributes may repeat: they are counted, never merged); its
    columns are the produced extents in order; same closed object sets as the many-valued context"""
    if 'err' in io:
        return dict(ok=False, kind='property', detail=f'binarize() raised {io["err"]}')
    if io['names'] != io['mvnames'] or io['n'] != n:
        return dict(ok=False, kind='property', detail=f'binarised context has objects {io["names"]}, expected {io["mvnames"]}')
    if not (io['w'] == io['nbin'] == io['nprod'] == io['nattrnames']):
        return dict(ok=False, kind='property',
                    detail=f'n_bin_attrs={io["nbin"]}, produced={io["nprod"]}, width={io["w"]}, names={io["nattrnames"]}')
    if io['nbin_cols'] != io['nprod_cols'] or sum(io['nbin_cols']) != io['nbin']:
        return dict(ok=False, kind='property',
                    detail=f'per column: declared n_bin_attrs {io["nbin_cols"]}, produced {io["nprod_cols"]}, total {io["nbin"]}')
    if c.get('big'):
        if not r['wf'] or not r['bottomOK']:
            return dict(ok=False, kind='harness', detail='large case without an interval column / not well-formed')
        for A, y in zip(c['subsets'], r['closures']):
            if A and y['table'] != y['mv']:
                return dict(ok=False, kind='property',
                            detail=f'the binarised context closes {A} to {y["table"]}, the many-valued context to {y["mv"]}')
        if r['tableBottom'] != r['extBottom']:
            return dict(ok=False, kind='property',
                        detail=f'least closed set of the binarised context {r["tableBottom"]} != {r["extBottom"]}')
    else:
        want = io['closed_mv'] if closed_mv is None else closed_mv
        if r['closed_impl_table'] != want:
            return dict(ok=False, kind='property',
                        detail=f'closed object sets of the binarised context {r["closed_impl_table"]} != closed sets of the '
                               f'many-valued context {want}')
    if _cols_of(io['rows'], io['w']) != io['tobin']:
        return dict(ok=False, kind='property',
                    detail=f'the columns of binarize() {_cols_of(io["rows"], io["w"])} are not the extents produced by '
                           f'to_bin_attr_extents() in their order {io["tobin"]}')
    if io['attrnames'] != io['prodnames']:
        return dict(ok=False, kind='correspondence',
                    detail=f'attribute names of binarize() {io["attrnames"]} are not the produced names {io["prodnames"]}')
    m = r['model']
    same_rows = 'err' not in m and m['rows'] == io['rows']
    if not same_rows and 'err' not in m and (c.get('pool') in UNORDERED_POOLS) and m['w'] == io['w']:
        # the order in which SetPS lists incomparable values is the set's iteration order: compare as a multiset
        same_rows = sorted(_cols_of(m['rows'], m['w'])) == sorted(_cols_of(io['rows'], io['w']))
    if 'err' in m or not same_rows or m['w'] != io['w'] or r['nbin'] != io['nbin'] or m['names'] != io['names']:
        return dict(ok=False, kind='correspondence', detail=f'binarised table differs from the model: {io["rows"]} vs {m}')
    if r['nproduced'] != r['nbin']:
        return dict(ok=False, kind='harness', detail='model: n_bin_attrs != number produced (contradicts theorem)')
    return dict(ok=True)


def _judge_h5(c, io, rep):
    n = len(c['rows0'])
    snap0, first, again = io['snap0'], io['first'], io['again']
    r0, r1, rcl = rep
    if c['side'] == 'src' or c['mut'] == 'der-scribble':
        if first != snap0:
            return dict(ok=False, kind='property',
                        detail=f'the context returned by binarize() changed when {"the many-valued context" if c["side"] == "src" else "values it returned"} '
                               f'was mutated ({c["mut"]}): {snap0} -> {first}')
        # it is (still) the binarisation of the content it was derived from
        if first['names'] != _obj_names(c, n) or first['n'] != n:
            return dict(ok=False, kind='property', detail=f'binarize() of the first content has objects {first["names"]}')
        if r0['bottomOK'] and r0['closed_impl_table'] != r0['closed_mv']:
            return dict(ok=False, kind='property',
                        detail=f'closed sets of binarize() of the FIRST content {r0["closed_impl_table"]} != {r0["closed_mv"]}')
        m = r0['model']
        if c.get('pool') not in UNORDERED_POOLS and ('err' in m or m['rows'] != first['rows'] or m['w'] != first['w']):
            return dict(ok=False, kind='correspondence', detail=f'first binarize() differs from the model: {first} vs {m}')
    v = _judge_bin(c, again, r1, len(c['rows']))
    if not v['ok']:
        return dict(v, detail=f'binarize() asked AGAIN after mutation {c["mut"]} of the {c["side"]} side: ' + str(v.get('detail')))
    v = judge(dict(c, kind='cl'), io['cl'], [rcl])
    if not v['ok']:
        return dict(v, detail=f'after binarize() and mutation {c["mut"]} of the {c["side"]} side: ' + str(v.get('detail')))
    return dict(ok=True)


def judge(c, io, rep):
    if c['kind'] == 'hist':
        # the second use is judged by the property on the CURRENT content (c['rows']), exactly like a fresh context
        v = judge(dict(c, kind=c['sub']), io, rep)
        if not v['ok']:
            v = dict(v, detail=f"after first use {c['pre']} on {c['rows0']} and mutation '{c['mut']}' "
                               f"(names: {c.get('names2')}): " + str(v.get('detail')))
        return v
    kind = c['kind']
    n = len(c['rows'])
    if kind == 'h5':
        return _judge_h5(c, io, rep)
    if io.get('err') == 'NonTermination':
        return dict(ok=False, kind='property',
                    detail=f'{kind}: the implementation did not finish within {CASE_TIME_LIMIT_S}s on this table')
    if kind == 'cl':
        r = rep[0]
        if not r['wf']:
            return dict(ok=False, kind='harness', detail='context not well-formed in the model')
        cl_of = {}
        for A, x, y in zip(c['subsets'], io['res'], r['res']):
            if 'ok' not in y['cl'] or y['cl']['ok'] != y['spec']:
                return dict(ok=False, kind='harness', detail=f'model closure {y["cl"]} != spec {y["spec"]} for {A}')
            if 'err' in x:
                return dict(ok=False, kind='property', detail=f'closure of {A} raised {x["err"]}')
            if x['cl'] != y['spec']:
                return dict(ok=False, kind='property',
                            detail=f'extension_i(intention_i({A})) = {x["cl"]}, objects covered by the common description: {y["spec"]}')
            if not set(A) <= set(x['cl']):
                return dict(ok=False, kind='property', detail=f'closure not extensive: {A} -> {x["cl"]}')
            if x['clcl'] != x['cl']:
                return dict(ok=False, kind='property', detail=f'closure not idempotent: {A} -> {x["cl"]} -> {x["clcl"]}')
            if sorted(x['int']) != sorted(y['int']):
                return dict(ok=False, kind='property', detail=f'intention_i({A}) = {x["int"]}, most specific description: {y["int"]}')
            if 'fo' in x:
                fo = x['fo']
                if sorted(fo['e']) != y['spec'] or sorted(fo['i']) != sorted(y['int']):
                    return dict(ok=False, kind='property',
                                detail=f'PatternConcept.from_objects({A}) = ({fo["e"]}, {fo["i"]}); closure {y["spec"]}, '
                                       f'most specific description {y["int"]}')
                if fo['names'] != x['fo_names_want']:
                    return dict(ok=False, kind='property', detail=f'from_objects({A}): extent names {fo["names"]} do not '
                                                                  f'name the extent {fo["e"]}')
            if 'byname' in x and x['byname'] != x['byname_want']:
                return dict(ok=False, kind='property',
                            detail=f'extension(intention(names of {A})) = {x["byname"]}, the closure {x["cl"]} is '
                                   f'named {x["byname_want"]}')
            fs = frozenset(A)
            if fs in cl_of and cl_of[fs] != x['cl']:
                return dict(ok=False, kind='property', detail=f'closure depends on how the object set {sorted(fs)} is listed ({A})')
            cl_of[fs] = x['cl']
        for A, ca in cl_of.items():
            for B, cb in cl_of.items():
                if A <= B and not set(ca) <= set(cb):
                    return dict(ok=False, kind='property', detail=f'closure not monotone: {sorted(A)} <= {sorted(B)} but {ca} !<= {cb}')
        return dict(ok=True)
    if kind == 'conj':
        for d, row, lrow in zip(c['descs'], io['mat'], rep[0]['mat']):
            for jb, (b, x, y) in enumerate(zip(c['bases'], row, lrow)):
                if _base_variant(jb, b) == 'set' and isinstance(x, list):
                    # a set has no order of its own: compare as sets (the base is duplicate-free here)
                    x, y = sorted(x), dict(y, spec=sorted(y['spec']), model={'ok': sorted(y['model'].get('ok', []))}
                                           if 'ok' in y['model'] else y['model'])
                if not y['typed']:
                    return dict(ok=False, kind='harness', detail=f'description {d} not well-typed for the model')
                if y['model'] != {'ok': y['spec']}:
                    return dict(ok=False, kind='harness', detail=f'model {y["model"]} != spec {y["spec"]} for {d} / {b}')
                if x != y['spec']:
                    return dict(ok=False, kind='property',
                                detail=f'extension_i({d}, base={b}) = {x}; objects of the base covered by every column: {y["spec"]}')
        return dict(ok=True)
    if kind == 'bin':
        return _judge_bin(c, io, rep[0], n)
    if kind == 'lat':
        r = rep[0]
        if r['bottomOK'] != bottom_ok_py(c['types'], c['rows']):
            return dict(ok=False, kind='harness', detail='BottomOK of the Lean side differs from the generator predicate')
        closed = r['closed']
        if c.get('big'):
            # no enumeration of object subsets: the oracle is the model's own first path, which IS the list of closed
            # sets by mv_lattice_exact (BottomOK from the interval column: bottomOK_characterised)
            if not (r['bottomOK'] and r['wf'] and r['selfClosed']) or any('ok' not in q['res'] for q in r['paths']):
                return dict(ok=False, kind='harness', detail=f'large case: model oracle not applicable / failed: {r}'[:300])
            io = dict(io, closed_ne=[e for e in closed if e != io['ext_bottom']])
        # the spec's closed sets, recomputed with the implementation's own closure (cross-check of the oracle)
        impl_closed = sorted({tuple(e) for e in io['closed_ne']} | {tuple(io['ext_bottom'])}, key=_key)
        if r['clEmpty'] != {'ok': io['cl_empty']}:
            return dict(ok=False, kind='correspondence', detail=f'closure of the empty set: {io["cl_empty"]} vs model {r["clEmpty"]}')
        prop_fail = None
        if [list(e) for e in impl_closed] != closed:
            prop_fail = f'closed sets by the implementation\'s closure {impl_closed} != closed sets of the context {closed}'
        covers_spec = sorted([closed[i], closed[j]] for i, j in r['covers'])
        int_of = {tuple(e): sorted(d) for e, d in zip(closed, r['closedInt'])}
        results = []
        for p in io['paths']:
            if prop_fail:
                break
            if 'err' in p:
                prop_fail = f'from_context(n_projections_to_binarize={p["thr"]}) raised {p["err"]}'
                break
            exts = [x['e'] for x in p['ok']]
            if sorted(exts, key=_key) != closed:
                prop_fail = (f'from_context(n_projections_to_binarize={p["thr"]}) has extents {sorted(exts, key=_key)}, '
                             f'closed object sets are {closed}')
                break
            for x in p['ok']:
                if sorted(x['i']) != sorted(x['i_of_e']) or sorted(x['i']) != int_of[tuple(x['e'])]:
                    prop_fail = f'concept {x["e"]} carries {x["i"]}, most specific description is {int_of[tuple(x["e"])]}'
                    break
            if prop_fail:
                break
            if p['covers'] != covers_spec:
                prop_fail = f'cover relation {p["covers"]} != covers of inclusion {covers_spec} (thr={p["thr"]})'
                break
            results.append(_canon_concepts(p['ok']))
        if not prop_fail and len(results) == 2 and results[0] != results[1]:
            prop_fail = f'the object-wise and the binarising path differ: {results[0]} vs {results[1]}'
        # the model must obey its theorem: under BottomOK every path returns exactly the closed sets
        # (Fca.C14.mv_lattice_exact, with the fuel the driver uses = MVCtx.closeByOneFuel)
        if r['bottomOK']:
            for q in r['paths']:
                if 'ok' not in q['res'] or sorted([x['e'] for x in q['res']['ok']], key=_key) != closed:
                    return dict(ok=False, kind='harness',
                                detail=f'model contradicts mv_lattice_exact on a BottomOK table: {q["path"]} -> {q["res"]}')
        # correspondence with the model
        corr = None
        for p, q in zip(io['paths'], r['paths']):
            mine = {'err': p['err']} if 'err' in p else {'ok': _canon_concepts(p['ok'])}
            model = {'err': q['res']['err']} if 'err' in q['res'] else {'ok': _canon_concepts(q['res']['ok'])}
            if mine != model:
                corr = f'thr={p["thr"]} ({q["path"]}): implementation {mine} vs model {model}'
                break
        if prop_fail:
            return dict(ok=False, kind='property', detail=prop_fail, bottomOK=r['bottomOK'], model_agrees=corr is None)
        if corr:
            return dict(ok=False, kind='correspondence', detail=corr)
        return dict(ok=True)
    return dict(ok=False, kind='harness', detail='unknown kind')


def nontrivial(c):
    rows = c['rows']
    return len(rows) >= 2 and any(r != rows[0] for r in rows)


def key(c):
    return [c['kind'], c['types'], c['rows'], c.get('descs') if c['stream'].startswith('random') else None,
            c.get('subsets') if c['stream'].startswith('random') else None,
            c.get('sub'), c.get('rows0'), c.get('mut'), c.get('pre'), c.get('names2'), c.get('scale'),
            c.get('pool'), c.get('sp'), c.get('attr_names'), c.get('obj_names'), c.get('side'), c.get('ps_names2'),
            c.get('subsets') if c.get('big') else None]


def branch(c, io, rep):
    out = [c['stream'], f"kind:{c['kind']}", f"types:{''.join(sorted(c['types']))}"]
    if c['kind'] == 'hist':
        out.append(f"hist:{c['mut']}:{c['sub']}" + (':names' if c.get('names2') else ''))
    if c['kind'] == 'h5':
        out.append(f"h5:{c['side']}:{c['mut']}")
    if c.get('pool'):
        out.append(f"pool:{c['pool']}")
    if c.get('sp'):
        out.append('spelled')
    if c.get('big'):
        out.append(f"objects:{len(c['rows'])}")
    if c.get('attr_names') or c.get('obj_names'):
        out.append('names:special')
    if c.get('scale'):
        out.append('scale:non-float32' + ('+inf' if INF in c['scale'] else ''))
    if c.get('sub', c['kind']) == 'lat' and rep and 'paths' in rep[0]:
        out += [f"path:{p['path']}" for p in rep[0]['paths']]
        out.append('bottomOK' if rep[0]['bottomOK'] else 'notBottomOK')
        out += [f"impl:{'err:' + p['err'] if 'err' in p else 'ok'}" for p in io.get('paths', [])]
    return out


def signature(c, io, rep, v):
    kind = c.get('sub', c['kind']) if c['kind'] == 'hist' else c['kind']
    bok = None
    if rep and isinstance(rep[0], dict) and 'bottomOK' in rep[0]:
        bok = rep[0]['bottomOK']
    if kind in ('lat', 'bin') and v.get('kind') == 'property' and bok is False:
        if kind == 'bin' or v.get('model_agrees'):
            return KNOWN_SIG
        return f'C14:{kind}:notbottomok-model-mismatch'
    return f"C14:{kind}:{v.get('kind')}:{(v.get('detail') or '')[:40]}"


def shrink(c):
    """smaller cases.  Two guards: (1) a case that BottomOK holds for is never shrunk into a table without BottomOK
    (it would slide into the known finding D17 and the genuine failure would be filed under it); (2) a case on which
    the implementation hit the time guard is reported as it is (every shrinking step would cost the full time limit)."""
    if _case_id(c) in _TIMED_OUT or c['kind'] in ('hist', 'h5') or c.get('big'):
        return
    keep_bottom = bottom_ok_py(c['types'], c['rows'])
    for d in _shrink(c):
        if keep_bottom and not bottom_ok_py(d['types'], d['rows']):
            continue
        yield d


def _shrink(c):
    rows, types = c['rows'], c['types']
    n, m = len(rows), len(types)

    def rebuild(nrows, ntypes, drop_row=None, drop_col=None):
        d = dict(stream=c['stream'], kind=c['kind'], types=list(ntypes), rows=nrows)
        for k in ('scale', 'pool', 'sp', 'byname'):
            if c.get(k):
                d[k] = c[k]
        if c.get('obj_names'):
            d['obj_names'] = [x for i, x in enumerate(c['obj_names']) if i != drop_row]
        if c.get('attr_names'):
            d['attr_names'] = [x for j, x in enumerate(c['attr_names']) if j != drop_col]
        return fill(d)
    if n > 1:
        for i in range(n):
            yield rebuild(rows[:i] + rows[i + 1:], types, drop_row=i)
    if m > 1:
        for j in range(m):
            yield rebuild([r[:j] + r[j + 1:] for r in rows], types[:j] + types[j + 1:], drop_col=j)
    for i in range(n):
        for j, t in enumerate(types):
            v = rows[i][j]
            simpler = []
            if t in 'IN':
                if v[0] != v[1]:
                    simpler = [[v[0], v[0]], [v[1], v[1]]]
                elif v[0] != 0:
                    simpler = [[0, 0]]
            elif t == 'S':
                simpler = [v[:k] + v[k + 1:] for k in range(len(v))]
            elif v:
                simpler = [0]
            for s in simpler:
                nr = [list(r) for r in rows]
                nr[i][j] = s
                yield rebuild(nr, types)

"""C18 — the minimal-generator search returns exactly the minimum-size generators."""
import itertools
import math
import random

import gen as G
from implutil import BACKENDS, SHORT, make_context, exc_name

RULE = ('formal: case = (table, backend, entry point in {get_minimal_generators_i, get_minimal_generators(use_indexes=True), '
        'get_minimal_generators by name}, intent (closed or not), base generator, base objects or None); exhaustive over all '
        'tables of the tier scope x every attribute subset as intent x every base generator inside the intent x every base '
        'object subset x 3 backends, a stream with base generators outside the intent, a stream with unsorted base lists, '
        'then seeded random tables to 5x6; histories on ONE context object (query, public mutation: attribute/object names '
        'permuted or replaced, table replaced through BinTable.data, caller edits the returned list / re-fills its own list, '
        'reads of .T/hash in between; then the same query again, by name and by both index entry points), every query judged '
        'against the spec for the content at that moment; arguments passed as list/tuple/set/frozenset/dict keys (by index '
        'also generator/iter/map); wide tables (9..11 attributes, up to 14 objects) with set/frozenset index collections; mv: interval tables on a small integer grid, intent = intention of an object '
        'subset, base objects = None / superset of the extent, optional base generator taken from the intent; '
        'class H7 (both routines): every index / name argument also as a list with repetitions whose length equals the '
        'dimension while its member set is a proper subset, as a permutation of the full range, unsorted, one longer / one '
        'shorter than the dimension (formal: intent, base generator [permutations by index, repetitions by name], base '
        'objects; mv: base objects, ps_to_iterate) - as far as the unchanged code answers them; class H4: query -> '
        'hash-preserving edit (adler32-neutral name swaps / renames and adler32-colliding tables for FormalContext.hash_fixed; '
        '-1 <-> -2, 1 <-> 2**61 float cells for hash(MVContext), 131 <-> 212 cells for MVContext.hash_fixed; ps.data = , '
        'pattern_structures[j] = , pattern_structures = , in-place edit of object_names) -> the same query with the SAME '
        'argument objects and with equal fresh ones; class H8: 64/65/129 objects / attributes / pattern structures with the '
        'last index deciding the answer; '
        'non-trivial = mixed table and closed non-empty intent with a base generator or a proper base object subset '
        '(mv: extent neither empty nor everything); distinct = distinct (table, backend, mode, intent, bg, bo)')
EXHAUSTIVE = {
    'quick': 'all tables n,m<=3 (682) x all 2^m intents x all bg subset of intent x (None + all 2^n base object subsets) x 3 backends; '
             'bg not inside intent: same tables, bo in {None, all, one subset}; ordered (unsorted) bg/bo lists: tables with n*m<=6; '
             'by-name and use_indexes=True entry points: all tables n,m<=2 incl. base_objects=None; '
             'histories: all tables n*m<=6 x every (intent, bg inside intent) x {None, base object subsets (all when n*m<=4)} x '
             'every non-identity permutation of the attribute names / 2 permutations of the object names / one table replacement '
             '(3 backends when n*m<=4, else rotating); mv histories (psdata/permps/objs) on all 27 one-column 3-row point tables; '
             'mv: all one-column tables with <=3 rows over grid {0,1,2} (points) and all two-column point tables with 2..3 rows '
             '(grids {0,1} x {0,1,2}), all object-subset intents, base objects None / every ascending superset of the extent, '
             'base generator none / each projection-1 generator of the intent; '
             'H7: all tables n*m<=6 x every (intent, bg inside intent) x every H7 base-object list of the dimension (all lists of '
             'length n that are not the identity, non-decreasing lists of length n+1, repeated lists of length n-1); mv H7: all 27 '
             'one-column 3-row point tables x every object-subset intent x every base member set containing the extent; '
             'mv H4: all 3-row columns over each colliding value pair {a,b} plus one neutral value x flips of all / the first / '
             'the last collidable cell',
    'thorough': 'the quick scope plus all tables with n*m<=12, n,m<=4 (3x4 and 4x3 with one backend per table, rotating); '
                'mv: one-column tables with <=4 rows over grid {0,1,2}, <=3 rows incl. proper intervals, two-column 2-row interval tables'}
EXPLANATION = ('formal contexts: the result set is pinned uniquely (theorem Fca.C18.min_gens_exact: model = set of minimum '
               'generators), so implementation != brute-force spec is a property failure; many-valued contexts: the '
               'implementation\'s own generators are judged by the Lean checker `same extension as the intent inside the base '
               'objects` (theorem mv_gens_same_extension proves it of the model); model/implementation set equality is '
               'checked as correspondence.  Lists with repetitions / permutations (class H7) are judged by the same oracles: the '
               'spec reads intent, base generator and base objects as sets (is_min_gen_args_as_sets, min_gens_args_as_sets, '
               'min_gens_names_args_as_sets; many-valued: mv_same_extension_as_set, mv_gens_same_extension_as_set), so the '
               'answer for the member set is the answer for every spelling of it.  Tables with more than 12 attributes (class '
               'H8) are judged against the model alone, which min_gens_exact proves to be the set of minimum generators.  '
               'Histories (classes H1/H4): every query is judged against the spec for the content at that moment')
ASSUMPTIONS = ['index arguments are collections of valid non-negative indexes (repetitions and any order allowed for intent and '
               'base objects); the base generator is duplicate-free when given by index',
               'object/attribute names pairwise distinct',
               'MV: interval columns only, projection_to_start=1, integer-valued data (floats exact), base generator = '
               'projection-1 generators of the intent; only queries inside the TERMINATING scope are generated: the list the '
               'routine iterates (numpy branch: the caller\'s list; branch without numpy: iteration order of frozenset(list); by '
               'name: ascending duplicate-free indexes) restricted to the intent over ps_to_iterate must equal the extension of '
               'the intent as a LIST - otherwise the while loop never ends (e.g. base objects listing the extension out of '
               'order or twice on the numpy branch; without numpy a base set such as {1, 8} whose set order is 8, 1)',
               'FormalContext has no content edit that keeps Python hash(K) (cells are bool, str hashes are salted): class H4 '
               'for formal contexts is the adler32 (hash_fixed) family only']
TRUSTED = ['itertools.combinations order, sorted(), set semantics of tuples/frozendict (modelled)',
           'numpy array == list comparison inside MVContext.get_minimal_generators is not reached (extension_i returns lists)']
CHUNK = 3000
REQUESTS_NEED_IMPL = True
MV_FUEL = 4
WIDE_M = 12
MV_TIMEOUT_S = 5.0      # CPU seconds (ITIMER_VIRTUAL): independent of the load of the machine

OBJ = [f'g{i}' for i in range(16)]
ATT = list('abcdefghijklmnop')


def _objn(n):
    return [f'g{i}' for i in range(n)]


def _attn(m):
    return [ATT[j] if j < 16 else f'm{j}' for j in range(m)]


# containers a caller may legally pass (H2).  By index every argument goes through set()/list() once, so one-shot
# iterables are accepted; by name the arguments are used in repeated membership tests (documented type: List), so only
# re-iterable containers are in scope there.  'samelist' = one list object per argument, re-filled in place by the caller.
CONT_IDX = ('list', 'tuple', 'set', 'frozenset', 'gen', 'iter', 'map', 'dictkeys', 'samelist')
CONT_NAME = ('list', 'tuple', 'set', 'frozenset', 'dictkeys', 'samelist')


def _wrap(xs, kind, slot=None):
    if xs is None:
        return None
    xs = list(xs)
    if kind == 'tuple':
        return tuple(xs)
    if kind == 'set':
        return set(xs)
    if kind == 'frozenset':
        return frozenset(xs)
    if kind == 'gen':
        return (x for x in xs)
    if kind == 'iter':
        return iter(xs)
    if kind == 'map':
        return map(lambda x: x, xs)
    if kind == 'dictkeys':
        return dict.fromkeys(xs).keys()
    if kind == 'samelist' and slot is not None:
        slot[:] = xs
        return slot
    return xs


# ------------------------------------------------------------------ helpers (own code, not fcapy)
def _subsets(k):
    for r in range(k + 1):
        yield from (list(c) for c in itertools.combinations(range(k), r))


def _closure(rows, X, bo=None):
    n, m = len(rows), len(rows[0])
    objs = [g for g in (range(n) if bo is None else bo) if all(a < m and rows[g][a] for a in X)]
    return [a for a in range(m) if all(rows[g][a] for g in objs)]


def _is_closed(rows, X):
    return sorted(set(X)) == _closure(rows, X) and len(set(X)) == len(X)


def _fc(stream, be, rows, mode, intent, bg, bo, **kw):
    d = dict(stream=stream, kind='fc', be=be, rows=rows, mode=mode, intent=intent, bg=bg, bo=bo)
    d.update(kw)
    return d


def _formal_exhaustive(rows, stream, backends):
    n, m = len(rows), len(rows[0])
    for be in backends:
        for intent in _subsets(m):
            for bgpos in _subsets(len(intent)):
                bg = [intent[i] for i in bgpos]
                for bo in [None] + list(_subsets(n)):
                    yield _fc(stream, be, rows, 'i', intent, bg, bo)


def _formal_outside(rows, stream, backends, rng):
    n, m = len(rows), len(rows[0])
    extra = rng.sample(range(n), rng.randint(0, n))
    for be in backends:
        for intent in _subsets(m):
            for bg in _subsets(m):
                if set(bg) <= set(intent):
                    continue
                for bo in (None, list(range(n)), extra):
                    yield _fc(stream, be, rows, 'i', intent, bg, bo)


def _formal_ordered(rows, stream):
    n, m = len(rows), len(rows[0])
    for be in BACKENDS:
        for intent in _subsets(m):
            for bg in G.ordered_sublists(intent):
                if bg != sorted(bg):
                    yield _fc(stream, be, rows, 'i', intent, bg, None)
                for bo in G.ordered_sublists(range(n)):
                    if bg == sorted(bg) and bo == sorted(bo):
                        continue
                    yield _fc(stream, be, rows, 'i', intent, bg, bo)


def _formal_names(rows, stream):
    n, m = len(rows), len(rows[0])
    for be in BACKENDS:
        for intent in _subsets(m):
            for bgpos in _subsets(len(intent)):
                bg = [intent[i] for i in bgpos]
                for bo in [None] + list(_subsets(n)):
                    for mode in ('n', 'gi'):
                        for bgv in ((bg, None) if not bg else (bg,)):
                            yield _fc(stream, be, rows, mode, intent, bgv, bo, objs=OBJ[:n], attrs=ATT[:m])


def _formal_random(rng, rows, stream):
    n, m = len(rows), len(rows[0])
    be = rng.choice(BACKENDS)
    for _ in range(6):
        seedset = rng.sample(range(m), rng.randint(0, m))
        r = rng.random()
        if r < 0.6:
            intent = _closure(rows, seedset)
        elif r < 0.8:
            bo0 = rng.sample(range(n), rng.randint(0, n))
            intent = _closure(rows, seedset, bo0)
        else:
            intent = sorted(seedset)
        rng.shuffle(intent)
        bg = rng.sample(intent, rng.randint(0, min(len(intent), 3))) if rng.random() < 0.85 else \
            rng.sample(range(m), rng.randint(1, min(m, 2)))
        bo = rng.sample(range(n), rng.randint(0, n)) if rng.random() < 0.7 else list(range(n))
        mode = rng.choice(('i', 'i', 'gi', 'n'))
        if mode == 'i':
            yield _fc(stream, be, rows, 'i', intent, bg if bg or rng.random() < 0.5 else None,
                      bo if rng.random() < 0.8 else None)
        else:
            bov = bo if rng.random() < 0.7 else None
            yield _fc(stream, be, rows, mode, intent, bg if bg or rng.random() < 0.5 else None,
                      bov, objs=OBJ[:n], attrs=ATT[:m])


def _formal_malformed(rng, rows):
    n, m = len(rows), len(rows[0])
    be = rng.choice(BACKENDS)
    intent = _closure(rows, rng.sample(range(m), rng.randint(0, m)))
    bg = rng.sample(intent, rng.randint(0, len(intent)))
    bo = rng.sample(range(n), rng.randint(0, n))
    # duplicates in the base generator / intent / base objects; intent entries out of range (never raise)
    if bg:
        yield _fc('malformed', be, rows, 'i', intent, bg + [bg[0]], bo)
    yield _fc('malformed', be, rows, 'i', intent + intent[:1] + [m + 1], bg, bo + bo[:1])
    # unknown names are silently ignored by the by-name entry point
    yield _fc('malformed', be, rows, 'n', intent, bg, bo if rng.random() < 0.5 else None, objs=OBJ[:n], attrs=ATT[:m],
              junk=rng.choice([['zz'], ['', 'G0'], ['A', 'a ']]))
    # duplicated attribute / object names are accepted by the constructor; the by-name translation then selects every
    # column / row carrying the name (model = implementation is all that is checked)
    if m > 1 and n > 1:
        da, do = list(ATT[:m]), list(OBJ[:n])
        da[rng.randrange(1, m)] = da[0]
        do[rng.randrange(1, n)] = do[0]
        yield _fc('malformed', be, rows, 'n', intent, bg, bo, objs=do, attrs=da)


# ------------------------------------------------------------------ many-valued (interval) cases
def _mv(stream, cols, intent_objs, bo, bgspec, numpy_on=True):
    """cols: list of columns, each a list of [lo, hi] integer pairs; the intent is the intention of `intent_objs`;
    bgspec: None or list of (column, side) with side in {'L','R'} - projection-1 generators of the intent."""
    return dict(stream=stream, kind='mv', cols=cols, iobjs=intent_objs, bo=bo, bgspec=bgspec, np=numpy_on)


def _mv_cases(cols, stream, rng=None, with_bg=True):
    n = len(cols[0])
    for iobjs in _subsets(n):
        ext = _mv_ext(cols, _mv_int(cols, iobjs), range(n))
        bos = [None]
        rest = [g for g in range(n) if g not in ext]
        for r in range(len(rest) + 1):
            for add in itertools.combinations(rest, r):
                bos.append(sorted(ext + list(add)))
        if rng is not None and len(bos) > 3:
            bos = [None] + rng.sample(bos[1:], 2)
        for bo in bos:
            yield _mv(stream, cols, iobjs, bo, None)
            if with_bg and iobjs:
                for j in range(len(cols)):
                    for side in 'LR':
                        yield _mv(stream, cols, iobjs, bo, [[j, side]])


def _mv_int(cols, objs):
    if not objs:
        return [None] * len(cols)
    return [[min(c[g][0] for g in objs), max(c[g][1] for g in objs)] for c in cols]


def _mv_ext(cols, descr, base):
    out = []
    for g in base:
        if all(d is not None and d[0] <= c[g][0] and c[g][1] <= d[1] for c, d in zip(cols, descr)):
            out.append(g)
    return out


def _grid_columns(nrows, grid, intervals):
    cells = [[v, v] for v in grid]
    if intervals:
        cells += [[a, b] for a in grid for b in grid if a < b]
    for col in itertools.product(cells, repeat=nrows):
        yield [list(c) for c in col]


# ------------------------------------------------------------------ generator
def gen(tier, seed, boost=False):
    rng = random.Random(seed * 1000003 + 1801)
    # 0. corpus (minimised past failures), always first
    import glob, json, os
    for f in sorted(glob.glob(os.path.join(os.path.dirname(os.path.dirname(os.path.dirname(os.path.abspath(__file__)))),
                                           'corpus', 'C18', '*.json'))):
        c = json.load(open(f))
        c = c.get('case', c)
        c['stream'] = 'corpus'
        yield c
    thorough = tier == 'thorough' or boost
    quick = not thorough
    # 0b. the small DIRECTED streams of classes H4 / H7 / H8 come first (seconds), so that they are reached whatever the
    # load of the machine and the time budget: fingerprint-preserving edits and the same argument objects again,
    # random H7 spellings of all three arguments, 64 / 65 / 129 objects, attributes, pattern structures
    for k in range(60 if quick else 600):
        yield from _h7_random(rng, G.random_table(rng, 5, 5, nmin=3, mmin=2), 'h7-random')
    for k, rows in enumerate(G.tables_upto(3, 3, cells=6)):
        yield from _h4_formal(rows, BACKENDS[k % 3], 'h4-hist', rng, sample=None if len(rows) * len(rows[0]) <= 4 else 6)
    for k in range(25 if quick else 300):
        yield from _h4_formal(G.random_table(rng, 4, 3, nmin=3, mmin=3), BACKENDS[k % 3], 'h4-hist-random', rng, sample=4)
    yield from _h8_formal(rng, 'h8', quick)
    yield from _mv_h4_cases('mv-h4', rng, quick)
    yield from (c for c in _mv_h8_cases('mv-h8', rng, quick) if c is not None)
    # 1. exhaustive small scope (formal contexts)
    for rows in G.tables_upto(3, 3):
        yield from _formal_exhaustive(rows, 'exhaustive', BACKENDS)
    for k, rows in enumerate(G.tables_upto(3, 3)):
        bes = BACKENDS if len(rows) * len(rows[0]) <= 6 else (BACKENDS[k % 3],)
        yield from _formal_outside(rows, 'exhaustive-bg-outside', bes, rng)
    for rows in G.tables_upto(3, 3, cells=6):
        yield from _formal_ordered(rows, 'exhaustive-ordered')
    for rows in G.tables_upto(2, 2):
        yield from _formal_names(rows, 'exhaustive-names')
    # 1b. histories on one context object: query -> public mutation -> same query (H1), hostile callers (H2)
    for k, rows in enumerate(G.tables_upto(3, 3, cells=6)):
        small = len(rows) * len(rows[0]) <= 4
        for be in (BACKENDS if small else (BACKENDS[k % 3],)):
            yield from _hist_cases(rows, be, 'hist-exhaustive', rng, bo_all=small)
    for k in range(30 if tier == 'quick' else 200):
        rows = G.random_table(rng, 3, 3, nmin=3, mmin=3)
        yield from _hist_cases(rows, BACKENDS[k % 3], 'hist-3x3', rng)
    for _ in range(300 if tier == 'quick' else 4000):
        yield from _hist_random(rng, G.random_table(rng, 5, 6), 'hist-random')
    # 1c. shape extremes (H3)
    for _ in range(50 if tier == 'quick' else 600):
        yield from _wide_cases(rng, 'wide')
    # 1d. class H7, exhaustive part
    for k, rows in enumerate(G.tables_upto(3, 3, cells=6)):
        yield from _h7_formal(rows, BACKENDS[k % 3], 'h7-exhaustive', rng)
    # 2. exhaustive small scope (interval many-valued contexts)
    for nrows in (1, 2, 3):
        for col in _grid_columns(nrows, (0, 1, 2), intervals=False):
            yield from _mv_cases([col], 'mv-exhaustive')
    for nrows in (2, 3):
        for c0 in _grid_columns(nrows, (0, 1), intervals=False):
            for c1 in _grid_columns(nrows, (0, 1, 2), intervals=False):
                yield from _mv_cases([c0, c1], 'mv-exhaustive-2col')
    for col in _grid_columns(3, (0, 1, 2), intervals=False):
        yield from _mvhist_cases([col], 'mvhist', rng)
    for _ in range(60 if tier == 'quick' else 800):
        n, k = rng.randint(2, 5), rng.randint(1, 3)
        cols = [[(lambda a: [a, a if rng.random() < 0.6 else rng.randint(a, 5)])(rng.randint(0, 4)) for _g in range(n)]
                for _j in range(k)]
        yield from _mvhist_cases(cols, 'mvhist-random', rng)
    # 2b. many-valued: classes H7 (base objects / ps_to_iterate), H4 (fingerprint-preserving cell edits), H8
    for col in _grid_columns(3, (0, 1, 2), intervals=False):
        yield from (c for c in _mv_h7_cases([col], 'mv-h7', rng) if c is not None)
    for _ in range(25 if quick else 500):
        n, k = rng.randint(3, 5), rng.randint(1, 3)
        cols = [[(lambda a: [a, a if rng.random() < 0.7 else rng.randint(a, 4)])(rng.randint(0, 3)) for _g in range(n)]
                for _j in range(k)]
        yield from (c for c in _mv_h7_cases(cols, 'mv-h7-random', rng, sample=2) if c is not None)
    if thorough:
        for k, rows in enumerate(G.tables_upto(4, 4, cells=12)):
            n, m = len(rows), len(rows[0])
            if n <= 3 and m <= 3:
                continue
            bes = BACKENDS if n * m <= 8 else (BACKENDS[k % 3],)
            yield from _formal_exhaustive(rows, 'exhaustive-large', bes)
        for rows in G.tables_upto(3, 3, cells=6):
            if len(rows) * len(rows[0]) > 4:
                yield from _formal_names(rows, 'exhaustive-names')
        for nrows in (1, 2, 3):
            for col in _grid_columns(nrows, (0, 1, 2), intervals=True):
                yield from _mv_cases([col], 'mv-exhaustive-intervals')
        for col in _grid_columns(4, (0, 1, 2), intervals=False):
            yield from _mv_cases([col], 'mv-exhaustive')
        for c0 in _grid_columns(2, (0, 1, 2), intervals=True):
            for c1 in _grid_columns(2, (0, 1), intervals=True):
                yield from _mv_cases([c0, c1], 'mv-exhaustive-2col-intervals')
    # 3. seeded random larger cases
    nrand = 400 if tier == 'quick' else 8000
    if boost:
        nrand *= 3
    for i in range(nrand):
        rows = G.random_table(rng, 5, 6)
        yield from _formal_random(rng, rows, 'random')
        if i % 4 == 0:
            yield from _formal_malformed(rng, rows)
    nmv = 150 if tier == 'quick' else 2500
    for i in range(nmv):
        n, k = rng.randint(2, 5), rng.randint(1, 3)
        cols = []
        for _ in range(k):
            col = []
            for _g in range(n):
                a = rng.randint(0, 4)
                b = a if rng.random() < 0.6 else rng.randint(a, 5)
                col.append([a, b])
            cols.append(col)
        cs = list(_mv_cases(cols, 'mv-random', rng))
        for c in rng.sample(cs, min(len(cs), 6)):
            c['np'] = rng.random() < 0.7
            yield c


# ------------------------------------------------------------------ implementation side
def _names(xs, names, junk=()):
    return None if xs is None else [names[i] for i in xs] + list(junk)


FC_TIMEOUT_S = 4.0      # CPU seconds; only armed for tables with >= 13 attributes (the search is exponential in m)


def _impl_fc(c):
    K = make_context(c['rows'], c['be'], c.get('objs'), c.get('attrs'))
    intent, bg, bo = list(c['intent']), c['bg'], c['bo']
    bg = None if bg is None else list(bg)
    bo = None if bo is None else list(bo)
    ci, cg, co = c.get('cont') or ('list', 'list', 'list')
    guard = len(c['rows'][0]) > WIDE_M
    if guard:       # a level-wise search that misses the generators of level <= 2 would run for years on 65 attributes
        import signal

        def _alarm(signum, frame):
            raise _Timeout()
        prev = signal.signal(signal.SIGVTALRM, _alarm)
        signal.setitimer(signal.ITIMER_VIRTUAL, FC_TIMEOUT_S)
    try:
        if c['mode'] == 'i':
            r = K.get_minimal_generators_i(_wrap(intent, ci), _wrap(bg, cg), _wrap(bo, co))
        elif c['mode'] == 'gi':
            r = K.get_minimal_generators(_wrap(intent, ci), _wrap(bg, cg), _wrap(bo, co), use_indexes=True)
        else:
            junk = c.get('junk', ())
            r = K.get_minimal_generators(_wrap(_names(intent, c['attrs'], junk), ci), _wrap(_names(bg, c['attrs'], junk), cg),
                                         _wrap(_names(bo, c['objs'], junk), co), use_indexes=False)
    except _Timeout:
        return {'err': 'Timeout'}
    except Exception as e:
        return {'err': exc_name(e)}
    finally:
        if guard:
            signal.setitimer(signal.ITIMER_VIRTUAL, 0)
            signal.signal(signal.SIGVTALRM, prev)
    return _canon_fc(r, c['mode'])


def _canon_fc(r, mode):
    if not isinstance(r, list) or not all(isinstance(t, tuple) for t in r):
        return {'bad_type': repr(type(r))}
    if mode == 'n':
        ts = [[str(x) for x in t] for t in r]
    else:
        ts = [[int(x) for x in t] for t in r]
    return {'ok': sorted(ts), 'dups': len(set(map(tuple, ts))) != len(ts)}


def impl(c):
    if c['kind'] == 'fc':
        return _impl_fc(c)
    if c['kind'] == 'hist':
        return _impl_hist(c)
    if c['kind'] == 'mvhist':
        return _impl_mvhist(c)
    return _impl_mv(c)


# ------------------------------------------------------------------ Lean side
def _table_req(c):
    return dict(be=SHORT[c['be']], rows=c['rows'], w=len(c['rows'][0]))


def requests(c, io=None):
    if c['kind'] == 'mv':
        return _requests_mv(c, io or {})
    if c['kind'] == 'hist':
        return [r for pc in _hist_queries(c) for r in requests(pc)]
    if c['kind'] == 'mvhist':
        outs = (io or {}).get('outs') or []
        qs = list(_mvhist_queries(c))
        return [r for k, pc in enumerate(qs) for r in _requests_mv(pc, outs[k] if k < len(outs) else {})]
    n = len(c['rows'])
    base = _table_req(c)
    # more than 12 attributes: no brute force over the 2^m subsets; the model alone is the oracle (Fca.C18.min_gens_exact
    # proves its list to be exactly the minimum generators, each once)
    op_i = 'C18.im' if len(c['rows'][0]) > WIDE_M else 'C18.i'
    if c['mode'] in ('i', 'gi'):
        # bo = None: the driver's spec takes all objects (what the property asks for when no base set is supplied)
        return [dict(base, op=op_i, intent=c['intent'], bg=c['bg'], bo=c['bo'])]
    junk = c.get('junk', ())
    bgi = c['bg'] if c['bg'] is None else sorted(set(c['bg']))     # by name a repeated name denotes one attribute
    return [dict(base, op='C18.n', objs=c['objs'], attrs=c['attrs'], intent=_names(c['intent'], c['attrs'], junk),
                 bg=_names(c['bg'], c['attrs'], junk), bo=_names(c['bo'], c['objs'], junk)),
            dict(base, op=op_i, intent=c['intent'], bg=bgi, bo=c['bo'] if c['bo'] is not None else list(range(n)))]


def _judge_fc(c, io, rep):
    if 'bad_type' in io:
        return dict(ok=False, kind='property', detail=f'result is not a list of tuples: {io}')
    malformed = c['stream'] == 'malformed'
    if c['mode'] in ('i', 'gi'):
        r = rep[0]
        if not r['nodup']:
            return dict(ok=False, kind='harness', detail='model result has duplicates (contradicts min_gens_exact)')
        want_model = r['model']
        spec = r['spec'] if 'spec' in r else r['model'].get('ok')
        if not malformed and want_model != {'ok': spec}:
            return dict(ok=False, kind='harness', detail=f'model {want_model} != spec {spec} (contradicts min_gens_exact)')
        if malformed:
            got = {k: v for k, v in io.items() if k != 'dups'}
            if got == want_model:
                return dict(ok=True)
            return dict(ok=False, kind='correspondence', detail=f'malformed input: implementation {io} model {want_model}')
        if io.get('ok') == spec and not io.get('dups'):
            return dict(ok=True)
        return dict(ok=False, kind='property',
                    detail=f'{c["mode"]}: returned {io}; the minimum generators are {spec}')
    rn, ri = rep
    if 'ok' not in rn:
        return dict(ok=False, kind='harness', detail=f'by-name model failed: {rn}')
    attrs = c['attrs']
    if malformed and len(set(attrs)) < len(attrs):
        # duplicated names (outside the property): distinct index tuples may carry equal name tuples
        if io.get('ok') == rn['ok']:
            return dict(ok=True)
        return dict(ok=False, kind='correspondence', detail=f'duplicated names: implementation {io}, model {rn["ok"]}')
    if True:
        img = sorted([[attrs[i] for i in t] for t in (ri['spec'] if 'spec' in ri else ri['model']['ok'])])
        if rn['ok'] != img:
            return dict(ok=False, kind='harness',
                        detail=f'by-name model {rn["ok"]} != names of the spec {img} (contradicts min_gens_names_agree)')
    if io.get('ok') == rn['ok'] and not io.get('dups'):
        return dict(ok=True)
    return dict(ok=False, kind='property', detail=f'by name: returned {io}; the minimum generators are {rn["ok"]}')


def judge(c, io, rep):
    if c['kind'] == 'fc':
        return _judge_fc(c, io, rep)
    if c['kind'] == 'hist':
        return _judge_hist(c, io, rep)
    if c['kind'] == 'mvhist':
        return _judge_mvhist(c, io, rep)
    return _judge_mv(c, io, rep)


def nontrivial(c):
    if c['kind'] == 'hist':
        return G.is_mixed(c['rows']) and sum(1 for st in c['steps'] if st['op'] == 'q') >= 2
    if c['kind'] == 'mvhist':
        nq = sum(1 for st in c['steps'] if st['op'] == 'q')
        return nq >= 2 or (nq == 1 and c['stream'].startswith(('mv-h7', 'mv-h8')))
    if c['kind'] == 'fc':
        return (G.is_mixed(c['rows']) and len(c['intent']) > 0 and _is_closed(c['rows'], c['intent'])
                and (bool(c['bg']) or (c['bo'] is not None and len(c['bo']) < len(c['rows']))))
    n = len(c['cols'][0])
    ext = _mv_ext(c['cols'], _mv_int(c['cols'], c['iobjs']), range(n))
    return 0 < len(ext) < n


def key(c):
    if c['kind'] == 'hist':
        return ['hist', c['rows'], c['be'], c['objs'], c['attrs'], c['steps']]
    if c['kind'] == 'mvhist':
        return ['mvhist', c['cols'], c['np'], c['steps']]
    if c['kind'] == 'fc':
        return ['fc', c['rows'], c['be'], c['mode'], c['intent'], c['bg'], c['bo'], c.get('junk'), c.get('cont')]
    return ['mv', c['cols'], c['iobjs'], c['bo'], c['bgspec'], c['np']]


def branch(c, io, rep):
    if c['kind'] in ('hist', 'mvhist'):
        ops = sorted({st['op'] if st['op'] != 'q' else 'q:' + st['mode'] for st in c['steps']})
        conts = sorted({'cont:' + k for st in c['steps'] if st['op'] == 'q' for k in (st.get('cont') or [])})
        extra = []
        if any(st.get('same') for st in c['steps']):
            extra.append('same-argument-objects')
        for st in c['steps']:
            if st.get('h4'):
                extra.append(f"h4:{c['kind']}:{st['op']}:{st['h4']}")
            if st['op'] == 'q' and st.get('psit') is not None:
                extra.append('mv:psit-given')
            if st['op'] == 'q' and c['kind'] == 'mvhist' and st['bo'] is not None and len(set(map(str, st['bo']))) < len(st['bo']):
                extra.append('mv:bo-repetitions' + ('-len-n' if len(st['bo']) == len(c['cols'][0]) else ''))
        for fl in (io.get('h4') or []):      # did the library's own fingerprints survive the edit?
            if isinstance(fl, list):
                extra.append('h4:lib-hash-' + ('kept' if fl[0] else 'changed'))
                extra.append('h4:lib-hash_fixed-' + ('kept' if fl[1] else 'changed'))
            else:
                extra.append('h4:lib-hash_fixed-' + ('kept' if fl else 'changed'))
        return [c['stream']] + [c['kind'] + ':' + o for o in ops] + conts + sorted(set(extra))
    if c['kind'] == 'fc':
        closed = _is_closed(c['rows'], c['intent'])
        inside = c['bg'] is None or set(c['bg']) <= set(c['intent'])
        size = 'err' if 'err' in io else ('empty' if not io.get('ok') else f'level{len(io["ok"][0])}x{min(len(io["ok"]), 3)}')
        return [c['stream'], f"fc:{c['be']}:{c['mode']}", 'intent-closed' if closed else 'intent-not-closed',
                'bg-inside' if inside else 'bg-outside', 'bo-none' if c['bo'] is None else 'bo-given', 'fc:' + size] + \
            ['cont:' + k for k in sorted(set(c.get('cont') or []))] + _h7_tags(c)
    return [c['stream'], 'mv:np' if c['np'] else 'mv:nonp', 'mv:bg' if c['bgspec'] else 'mv:nobg',
            'mv:bo-none' if c['bo'] is None else 'mv:bo-given',
            'mv:err:' + io['err'] if 'err' in io else f'mv:gens{min(len(io.get("ok", [])), 4)}']


def _h7_tags(c):
    n, m = len(c['rows']), len(c['rows'][0])
    out = []
    for nm, xs, dim in (('bo', c['bo'], n), ('intent', c['intent'], m), ('bg', c['bg'], m)):
        if not xs:
            continue
        xs = list(xs)
        if len(set(xs)) < len(xs):
            out.append(f'h7:{nm}-repetitions' + ('-len-eq-dim' if len(xs) == dim else '-len-gt-dim' if len(xs) > dim else ''))
        elif len(xs) == dim and xs != sorted(xs):
            out.append(f'h7:{nm}-full-unsorted')
    if n >= 64 or m >= 64:
        out.append(f'h8:{"n" if n >= 64 else ""}{"m" if m >= 64 else ""}>=64')
    return out


def signature(c, io, rep, v):
    if c['kind'] in ('hist', 'mvhist'):
        muts = '+'.join(sorted({st['op'] for st in c['steps'] if st['op'] != 'q'}))
        return f"C18:{c['kind']}:{muts}:{v.get('qmode', '?')}:{v.get('kind')}"
    if c['kind'] == 'fc':
        return f"C18:fc:{c['be']}:{c['mode']}:{'err:' + io['err'] if 'err' in io else 'wrong'}"
    return f"C18:mv:{'err:' + io['err'] if 'err' in io else 'wrong'}"


def shrink(c):
    if c['kind'] in ('hist', 'mvhist'):
        steps = c['steps']
        for i in range(len(steps) - 1):          # drop any step but the last one
            d = dict(c)
            d['steps'] = steps[:i] + steps[i + 1:]
            yield d
        for i, st in enumerate(steps):           # plain lists instead of other containers
            if st['op'] == 'q' and st.get('cont') and any(k != 'list' for k in st['cont']):
                d = dict(c)
                d['steps'] = steps[:i] + [dict(st, cont=['list', 'list', 'list'])] + steps[i + 1:]
                yield d
        return
    if c['kind'] == 'fc':
        if c['mode'] == 'n':
            return
        if len(c['rows']) >= 64 or len(c['rows'][0]) > WIDE_M:
            # directed large shapes: the size is the point (and a wrong search can take seconds per case); only plain
            # containers and a shorter base generator are tried
            if c.get('cont') and any(k != 'list' for k in c['cont']):
                yield dict(c, cont=['list', 'list', 'list'])
            if c['bg']:
                yield dict(c, bg=c['bg'][1:])
            return
        for s in G.shrink_table_case(c, row_keys=('bo',), col_keys=('intent', 'bg')):
            if 'objs' in s:   # keep the name lists as long as the shrunk table
                s['objs'] = _objn(len(s['rows']))
                s['attrs'] = _attn(len(s['rows'][0]))
            yield s
        return
    cols = c['cols']
    n = len(cols[0])
    if n > 1:
        for i in range(n):
            if i in c['iobjs']:
                continue
            d = dict(c)
            d['cols'] = [col[:i] + col[i + 1:] for col in cols]
            d['iobjs'] = [g - (g > i) for g in c['iobjs']]
            d['bo'] = None if c['bo'] is None else [g - (g > i) for g in c['bo'] if g != i]
            yield d
    if len(cols) > 1:
        for j in range(len(cols)):
            if c['bgspec'] and any(b[0] == j for b in c['bgspec']):
                continue
            d = dict(c)
            d['cols'] = cols[:j] + cols[j + 1:]
            d['bgspec'] = None if not c['bgspec'] else [[b[0] - (b[0] > j), b[1]] for b in c['bgspec']]
            yield d


# ------------------------------------------------------------------ many-valued: implementation, requests, judge
def _enc(x):
    """float bound -> JSON: integers, 'inf', '-inf'"""
    if x == math.inf:
        return 'inf'
    if x == -math.inf:
        return '-inf'
    if float(x) != int(x):
        raise ValueError(f'non-integer bound {x!r}')
    return int(x)


def _enc_descr(d):
    from numbers import Number
    if d is None:
        return None
    if isinstance(d, Number):
        return [_enc(d), _enc(d)]
    return [_enc(d[0]), _enc(d[1])]


def _mv_intent_and_bg(c):
    intent = c['intent'] if c.get('intent') is not None else _mv_int(c['cols'], c['iobjs'])
    bg = None
    if c['bgspec']:
        bg = {}
        for j, side in c['bgspec']:
            d = intent[j]
            bg[j] = None if d is None else ((-math.inf, float(d[1])) if side == 'L' else (float(d[0]), math.inf))
    return intent, bg


class _Timeout(BaseException):
    pass


def _impl_mv(c):
    from fcapy import LIB_INSTALLED
    from fcapy.mvcontext import MVContext, pattern_structure as PS
    cols = c['cols']
    n = len(cols[0])
    names = [f'p{j}' for j in range(len(cols))]
    data = [[tuple(col[g]) for col in cols] for g in range(n)]
    intent, bg = _mv_intent_and_bg(c)
    old = LIB_INSTALLED['numpy']
    LIB_INSTALLED['numpy'] = bool(c['np']) and old

    def _alarm(signum, frame):
        raise _Timeout()
    import signal
    prev = signal.signal(signal.SIGVTALRM, _alarm)
    signal.setitimer(signal.ITIMER_VIRTUAL, MV_TIMEOUT_S)   # the routine's `while` loop has no exit when nothing is found
    try:
        K = MVContext(data, pattern_types={nm: PS.IntervalPS for nm in names}, attribute_names=names)
        intent_i = {j: (None if d is None else (float(d[0]), float(d[1]))) for j, d in enumerate(intent)}
        r = K.get_minimal_generators(intent_i, base_generator=bg, base_objects=None if c['bo'] is None else list(c['bo']),
                                     use_indexes=True)
        out = []
        for g in r:
            out.append(sorted([[int(j), _enc_descr(d)] for j, d in g.items()], key=lambda p: p[0]))
        keyf = lambda g: repr(g)
        return {'ok': sorted(out, key=keyf), 'dups': len(set(map(keyf, out))) != len(out)}
    except _Timeout:
        return {'err': 'Timeout'}
    except Exception as e:
        return {'err': exc_name(e)}
    finally:
        signal.setitimer(signal.ITIMER_VIRTUAL, 0)
        signal.signal(signal.SIGVTALRM, prev)
        LIB_INSTALLED['numpy'] = old


def _requests_mv(c, io):
    intent, bg = _mv_intent_and_bg(c)
    bgj = [] if bg is None else [[j, _enc_descr(d)] for j, d in bg.items()]
    return [dict(op='C18.mv', cols=c['cols'], n=len(c['cols'][0]), intent=intent, bg=bgj, bo=c['bo'], psit=c.get('psit'),
                 fuel=MV_FUEL, gens=io.get('ok', []))]


def _judge_mv(c, io, rep):
    import json
    r = rep[0]
    if not r['model_check']:
        return dict(ok=False, kind='harness', detail=f'a generator of the model fails the checker (contradicts '
                                                     f'mv_gens_same_extension): {r["model"]}')
    if 'err' in io:
        if r['model'] == io or (io['err'] == 'Timeout' and r['model'] == {'err': 'OutOfFuel'}):
            # the routine raised (or does not terminate), the model does the same: nothing is returned, nothing to judge
            return dict(ok=True)
        return dict(ok=False, kind='correspondence', detail=f'implementation raised {io}, model {r["model"]}')
    bad = [g for g, okk in zip(io['ok'], r['check']) if not okk]
    if bad:
        return dict(ok=False, kind='property', detail=f'returned generator(s) {bad} do not have the extension of the '
                                                      f'intent inside the base objects')
    if io['dups']:
        return dict(ok=False, kind='correspondence', detail=f'duplicate generators returned: {io["ok"]}')
    got = sorted(json.dumps(g, separators=(',', ':')) for g in io['ok'])
    if r['model'] != {'ok': got}:
        return dict(ok=False, kind='correspondence', detail=f'implementation returned {got}, model {r["model"]}')
    return dict(ok=True)


# ------------------------------------------------------------------ histories on ONE context object (H1, H2)
def _hist(stream, be, rows, objs, attrs, steps):
    return dict(stream=stream, kind='hist', be=be, rows=rows, objs=list(objs), attrs=list(attrs), steps=steps)


def _q(mode, intent, bg, bo, cont=None):
    """a query step; by name (mode 'n') the three arguments are NAME lists, else index lists"""
    return dict(op='q', mode=mode, intent=intent, bg=bg, bo=bo, cont=list(cont or ('list', 'list', 'list')))


def _idx_of(names, sel):
    return None if sel is None else [i for i, nm in enumerate(names) if nm in sel]


def _hist_queries(c):
    """replay the history on plain data; for every query step yield the equivalent single-query case for the
    CURRENT content (this is what a freshly built context with the current table and names must answer)"""
    rows, objs, attrs = [list(r) for r in c['rows']], list(c['objs']), list(c['attrs'])
    for st in c['steps']:
        op = st['op']
        if op == 'attrs':
            attrs = list(st['names'])
        elif op == 'objs':
            objs = list(st['names'])
        elif op == 'data':
            rows = [list(r) for r in st['rows']]
        elif op == 'q':
            if st['mode'] == 'n':
                intent, bg, bo = _idx_of(attrs, st['intent']), _idx_of(attrs, st['bg']), _idx_of(objs, st['bo'])
            else:
                intent, bg, bo = st['intent'], st['bg'], st['bo']
            yield _fc(c['stream'], c['be'], [list(r) for r in rows], st['mode'], intent, bg, bo,
                      objs=list(objs), attrs=list(attrs))


def _impl_hist(c):
    from fcapy.context import FormalContext
    K = FormalContext(data=[[bool(v) for v in r] for r in c['rows']], object_names=list(c['objs']),
                      attribute_names=list(c['attrs']), backend=c['be'])
    slots = {'intent': [], 'bg': [], 'bo': []}
    outs, last = [], None
    argobjs, h4 = {}, []
    for k, st in enumerate(c['steps']):
        op = st['op']
        try:
            hf = K.hash_fixed() if st.get('h4') else None
            if op == 'attrs':
                K.attribute_names = list(st['names'])
            elif op == 'objs':
                K.object_names = list(st['names'])
            elif op == 'data':
                K.data.data = [[bool(v) for v in r] for r in st['rows']]
            if hf is not None:      # did the edit really keep the library's fingerprint?  (histogram only)
                h4.append(bool(K.hash_fixed() == hf))
            if op in ('attrs', 'objs', 'data'):
                continue
            elif op == 'read':
                _ = (K.T, hash(K), K.hash_fixed(), K.to_pandas() if st.get('pandas') else None)
            elif op == 'mutret':
                if isinstance(last, list):      # the caller edits the list it was handed
                    last.append(('zz',))
                    last.reverse()
                    del last[1:]
            elif op == 'q':
                ci, cg, co = st['cont']
                akey = repr((st['intent'], st['bg'], st['bo'], st['cont']))
                if st.get('same') and akey in argobjs:
                    args = argobjs[akey]       # the very same argument objects as in the earlier equal query
                else:
                    args = (_wrap(st['intent'], ci, slots['intent']), _wrap(st['bg'], cg, slots['bg']),
                            _wrap(st['bo'], co, slots['bo']))
                    if all(kd in ('list', 'tuple', 'set', 'frozenset', 'dictkeys') for kd in st['cont']):
                        argobjs[akey] = args
                try:
                    if st['mode'] == 'i':
                        last = K.get_minimal_generators_i(*args)
                    else:
                        last = K.get_minimal_generators(*args, use_indexes=st['mode'] == 'gi')
                    outs.append(_canon_fc(last, st['mode']))
                except Exception as e:
                    last = None
                    outs.append({'err': exc_name(e)})
        except Exception as e:
            return {'steperr': f'step {k} ({op}) raised {exc_name(e)}: {str(e)[:120]}', 'outs': outs}
    return {'outs': outs, 'h4': h4}


def _judge_hist(c, io, rep):
    if 'steperr' in io:
        return dict(ok=False, kind='property', detail='a public mutator failed: ' + io['steperr'])
    worst, pos = None, 0
    for k, pc in enumerate(_hist_queries(c)):
        nreq = 1 if pc['mode'] in ('i', 'gi') else 2
        v = _judge_fc(pc, io['outs'][k], rep[pos:pos + nreq])
        pos += nreq
        if not v['ok']:
            v = dict(v, qmode=pc['mode'], detail=f'query #{k} of the history (current table {pc["rows"]}, attribute names '
                                                 f'{pc["attrs"]}, object names {pc["objs"]}): ' + v['detail'])
            if v['kind'] == 'property':
                return v
            worst = worst or v
    return worst or dict(ok=True)


def _perms(xs, rng=None, k=None):
    ps = [list(p) for p in itertools.permutations(xs) if list(p) != list(xs)]
    if rng is not None and k is not None and len(ps) > k:
        ps = rng.sample(ps, k)
    return ps


def _hist_cases(rows, be, stream, rng, bo_all=False):
    """query -> public mutation -> the same query again (by name, by index, both index entry points)"""
    n, m = len(rows), len(rows[0])
    objs, attrs = OBJ[:n], ATT[:m]
    bos = [None] + ([b for b in _subsets(n)] if bo_all else [rng.sample(range(n), rng.randint(0, n))])
    for intent in _subsets(m):
        for bgpos in _subsets(len(intent)):
            bg = [intent[i] for i in bgpos]
            for bo in bos:
                ni, nb = [attrs[i] for i in intent], [attrs[i] for i in bg]
                no = None if bo is None else [objs[g] for g in bo]
                qn = _q('n', ni, nb if nb or rng.random() < 0.5 else None, no)
                qi = _q(rng.choice(('i', 'gi')), intent, bg, bo)
                # attribute names permuted (the same names denote other columns)
                for p in _perms(range(m), rng, None if m <= 3 else 3):
                    yield _hist(stream, be, rows, objs, attrs, [qn, dict(op='attrs', names=[attrs[j] for j in p]), qn, qi])
                # object names permuted (only matters with base objects)
                if bo is not None:
                    for p in _perms(range(n), rng, 2):
                        yield _hist(stream, be, rows, objs, attrs,
                                    [qn, dict(op='objs', names=[objs[g] for g in p]), qn])
                # table replaced through the public BinTable setter (same shape)
                new = [[rng.randint(0, 1) for _ in range(m)] for _ in range(n)]
                yield _hist(stream, be, rows, objs, attrs, [qi, qn, dict(op='data', rows=new), qi, qn])
                # reads before/after, caller edits the returned list, caller re-fills its own list objects
                yield _hist(stream, be, rows, objs, attrs,
                            [dict(op='read'), qn, dict(op='mutret'), qn, qi, dict(op='mutret'), dict(op='read'), qi])


def _hist_random(rng, rows, stream):
    """longer random histories with all container kinds"""
    n, m = len(rows), len(rows[0])
    be = rng.choice(BACKENDS)
    objs, attrs = list(OBJ[:n]), list(ATT[:m])
    cur_rows, cur_objs, cur_attrs = [list(r) for r in rows], list(objs), list(attrs)
    steps, pool = [], []
    for _ in range(rng.randint(4, 9)):
        r = rng.random()
        if r < 0.55 or not pool:
            if pool and rng.random() < 0.5:
                q = dict(rng.choice(pool))           # an earlier query again, maybe through other containers
            else:
                seedset = rng.sample(range(m), rng.randint(0, m))
                intent = _closure(cur_rows, seedset) if rng.random() < 0.8 else sorted(seedset)
                rng.shuffle(intent)
                bg = rng.sample(intent, rng.randint(0, min(2, len(intent))))
                bo = rng.sample(range(n), rng.randint(0, n)) if rng.random() < 0.6 else None
                mode = rng.choice(('n', 'n', 'i', 'gi'))
                if mode == 'n':
                    q = _q('n', [cur_attrs[i] for i in intent], [cur_attrs[i] for i in bg] if bg or rng.random() < 0.5 else None,
                           None if bo is None else [cur_objs[g] for g in bo])
                else:
                    q = _q(mode, intent, bg if bg or rng.random() < 0.5 else None, bo)
                pool.append(q)
            kinds = CONT_NAME if q['mode'] == 'n' else CONT_IDX
            q = dict(q, cont=[rng.choice(kinds) for _ in range(3)])
            steps.append(q)
        elif r < 0.70:
            cur_attrs = rng.sample(cur_attrs, m) if rng.random() < 0.8 else [a + "'" for a in cur_attrs]
            steps.append(dict(op='attrs', names=list(cur_attrs)))
        elif r < 0.80:
            cur_objs = rng.sample(cur_objs, n)
            steps.append(dict(op='objs', names=list(cur_objs)))
        elif r < 0.90:
            cur_rows = G.random_table(rng, n, m, nmin=n, mmin=m)
            steps.append(dict(op='data', rows=[list(r_) for r_ in cur_rows]))
        elif r < 0.95:
            steps.append(dict(op='mutret'))
        else:
            steps.append(dict(op='read'))
    if pool:
        steps.append(dict(pool[0]))
    yield _hist(stream, be, rows, objs, attrs, steps)


def _wide_cases(rng, stream):
    """H3: >= 9 attributes / >= 13 objects (two-digit indexes; small sets containing an index >= 8 iterate out of
    order), index collections given as sets / frozensets / one-shot iterables, unsorted lists"""
    n, m = rng.choice((3, 5, 9, 13, 14)), rng.choice((9, 10, 11))
    d = rng.choice((0.5, 0.7, 0.85))
    rows = [[int(rng.random() < d) for _ in range(m)] for _ in range(n)]
    be = rng.choice(BACKENDS)
    for _ in range(4):
        g = rng.sample(range(n), rng.randint(1, min(n, 3)))
        intent = [a for a in range(m) if all(rows[x][a] for x in g)] if rng.random() < 0.85 else \
            sorted(rng.sample(range(m), rng.randint(1, 4)))
        hi = [a for a in intent if a >= 8]
        bg = rng.sample(intent, rng.randint(0, min(2, len(intent))))
        if hi and rng.random() < 0.5:
            bg = [hi[0]] + [a for a in bg if a != hi[0]][:1]
        bo = None if rng.random() < 0.4 else rng.sample(range(n), rng.randint(max(1, n - 3), n))
        rng.shuffle(intent)
        mode = rng.choice(('i', 'gi', 'n'))
        kinds = CONT_NAME[:-1] if mode == 'n' else CONT_IDX[:-1]
        cont = [rng.choice(('set', 'frozenset', rng.choice(kinds))) for _ in range(3)]
        yield _fc(stream, be, rows, mode, intent, bg, bo, objs=OBJ[:n], attrs=ATT[:m], cont=cont)


# ------------------------------------------------------------------ histories on ONE many-valued context (H1, H2)
def _mvhist(stream, cols, steps, numpy_on=True):
    n = len(cols[0])
    return dict(stream=stream, kind='mvhist', cols=cols, objs=_objn(n), psnames=[f'p{j}' for j in range(len(cols))],
                np=numpy_on, steps=steps)


def _mvq(mode, intent, bo, bgspec=None, cont='list', psit=None, same=False):
    """query step.  mode 'i': `intent` = list of descriptions per pattern-structure INDEX, bo = object indexes,
    psit = pattern-structure indexes; mode 'n': `intent` = {ps name: description}, bo = object NAMES, bgspec = [[ps name,
    side]], psit = pattern-structure names.  same=True: pass the very argument objects of the earlier equal query."""
    d = dict(op='q', mode=mode, intent=intent, bo=bo, bgspec=bgspec, cont=[cont])
    if psit is not None:
        d['psit'] = psit
    if same:
        d['same'] = True
    return d


def _cell(x):
    """a raw cell handed to IntervalPS (number, bool, [x], [lo, hi]) -> [lo, hi] as integers"""
    if isinstance(x, (list, tuple)):
        lo, hi = (x[0], x[0]) if len(x) == 1 else x
    else:
        lo = hi = x
    if float(lo) != int(lo) or float(hi) != int(hi):
        raise ValueError(f'non-integer cell {x!r}')
    return [int(lo), int(hi)]


def _raw(x):
    return tuple(x) if isinstance(x, list) else x


def _mvhist_states(c):
    """replay on plain data: yields (step, cols, psnames, objs) for every query step"""
    cols, psn, objs = [list(col) for col in c['cols']], list(c['psnames']), list(c['objs'])
    for st in c['steps']:
        op = st['op']
        if op in ('psdata', 'setps', 'newps'):
            cols[st['j']] = [_cell(x) for x in st['col']]
        elif op == 'swapobjs':
            objs[st['a']], objs[st['b']] = objs[st['b']], objs[st['a']]
        elif op == 'permps':
            cols = [cols[p] for p in st['perm']]
            psn = [psn[p] for p in st['perm']]
        elif op == 'objs':
            objs = list(st['names'])
        elif op == 'q':
            yield st, [list(col) for col in cols], list(psn), list(objs)


def _mvhist_queries(c):
    """the equivalent single-query index cases for the CURRENT content"""
    for st, cols, psn, objs in _mvhist_states(c):
        if st['mode'] == 'n':
            intent = [st['intent'].get(nm) for nm in psn]
            bo = None if st['bo'] is None else [g for g, nm in enumerate(objs) if nm in st['bo']]
            bgspec = None if not st['bgspec'] else [[psn.index(nm), side] for nm, side in st['bgspec'] if nm in psn]
            psit = None if st.get('psit') is None else [psn.index(nm) for nm in st['psit']]
        else:
            intent, bo, bgspec, psit = st['intent'], st['bo'], st['bgspec'], st.get('psit')
            if bo is not None and st['cont'][0] in ('set', 'frozenset'):
                bo = list(_wrap(bo, st['cont'][0]))
        # `bo` = the list the routine iterates: without numpy it wraps the base objects into a frozenset, whose
        # iteration order (an explicit parameter of the model) is read off CPython here; the acceptance test of the
        # Lean side reads the list as a set (Fca.C18.mv_same_extension_as_set)
        if bo is not None and not c['np']:
            bo = list(frozenset(bo))
        yield dict(stream=c['stream'], kind='mv', cols=cols, iobjs=[], intent=intent, bo=bo, bgspec=bgspec, np=c['np'],
                   qmode=st['mode'], psit=psit)


def _mv_terminates(cols, intent, bo, psit=None, bgspec=None):
    """the `while` loop ends (at projection 2 at the latest) exactly when the strongest description it can build - the
    intent's own intervals of the pattern structures in ps_to_iterate, together with the base generator - selects,
    from the list `bo` the routine iterates, the extension of the whole intent AS A LIST (order and repetitions count)"""
    n = len(cols[0])
    ext_true = _mv_ext(cols, intent, range(n))
    pss = set(range(len(cols)) if psit is None else psit)
    if any(j >= len(cols) for j in pss):
        return True                                  # KeyError, raised at once
    if not pss:
        return False
    cons = [(j, intent[j]) for j in sorted(pss)]
    for j, side in (bgspec or []):
        d = intent[j]
        cons.append((j, None if d is None else ([-math.inf, d[1]] if side == 'L' else [d[0], math.inf])))
    got = [g for g in (range(n) if bo is None else bo)
           if all(d is not None and d[0] <= cols[j][g][0] and cols[j][g][1] <= d[1] for j, d in cons)]
    return got == ext_true


def _mvhist_in_scope(c):
    """all queries of the history are inside the terminating scope for the content at that time"""
    return all(_mv_terminates(pc['cols'], pc['intent'], pc['bo'], pc.get('psit'), pc.get('bgspec'))
               for pc in _mvhist_queries(c))


def _retype(x, rng):
    """the same cell in another Python spelling"""
    lo, hi = x
    if lo != hi:
        return rng.choice(([lo, hi], [float(lo), hi], [lo, float(hi)]))
    forms = [lo, float(lo), [lo], [lo, lo], [float(lo), lo]]
    if lo in (0, 1):
        forms.append(bool(lo))
    return rng.choice(forms)


def _impl_mvhist(c):
    from fcapy import LIB_INSTALLED
    from fcapy.mvcontext import MVContext, pattern_structure as PS
    import signal
    cols = c['cols']
    n = len(cols[0])
    old = LIB_INSTALLED['numpy']
    LIB_INSTALLED['numpy'] = bool(c['np']) and old

    def _alarm(signum, frame):
        raise _Timeout()
    prev = signal.signal(signal.SIGVTALRM, _alarm)
    outs = []
    slot = []
    argobjs, h4 = {}, []

    def mkps(j, col):
        return PS.IntervalPS([_raw(x) for x in col], name=K.pattern_structures[j].name)
    try:
        K = MVContext([[tuple(col[g]) for col in cols] for g in range(n)],
                      pattern_types={nm: PS.IntervalPS for nm in c['psnames']}, attribute_names=list(c['psnames']),
                      object_names=list(c['objs']))
        qs = list(_mvhist_queries(c))
        qk = 0
        for k, st in enumerate(c['steps']):
            op = st['op']
            fp = (hash(K), K.hash_fixed()) if st.get('h4') else None
            if op == 'psdata':
                K.pattern_structures[st['j']].data = [_raw(x) for x in st['col']]
            elif op == 'setps':         # in-place edit of the list the getter returns
                K.pattern_structures[st['j']] = mkps(st['j'], st['col'])
            elif op == 'newps':         # a new list of new pattern structures through the setter
                K.pattern_structures = [mkps(j, st['col']) if j == st['j'] else
                                        PS.IntervalPS(list(ps.data), name=ps.name) for j, ps in enumerate(K.pattern_structures)]
            elif op == 'permps':
                K.pattern_structures = [K.pattern_structures[p] for p in st['perm']]
            elif op == 'objs':
                K.object_names = list(st['names'])
            elif op == 'swapobjs':      # in-place edit of the list the getter returns
                L = K.object_names
                L[st['a']], L[st['b']] = L[st['b']], L[st['a']]
            elif op == 'read':
                _ = (hash(K), K.hash_fixed(), K.data, len(K))
            if fp is not None:          # which fingerprints did the edit really keep?  (histogram only)
                h4.append([bool(hash(K) == fp[0]), bool(K.hash_fixed() == fp[1])])
            if op == 'q':
                pc = qs[qk]
                qk += 1
                psn = [ps.name for ps in K.pattern_structures]
                fl = lambda d: None if d is None else (float(d[0]), float(d[1]))
                _, bg = _mv_intent_and_bg(pc)          # index-keyed base generator of the current content
                akey = repr((st['mode'], st['intent'], st['bo'], st['bgspec'], st['cont'], st.get('psit')))
                if st.get('same') and akey in argobjs:
                    a_int, a_bg, a_bo, a_ps = argobjs[akey]      # the very argument objects of the earlier equal query
                else:
                    if st['mode'] == 'n':
                        a_int = {nm: fl(d) for nm, d in st['intent'].items()}
                        a_bg = None if bg is None else {psn[j]: d for j, d in bg.items()}
                    else:
                        a_int = {j: fl(d) for j, d in enumerate(st['intent'])}
                        a_bg = bg
                    a_bo = _wrap(st['bo'], st['cont'][0], slot)
                    a_ps = None if st.get('psit') is None else list(st['psit'])
                    if st['cont'][0] != 'samelist':
                        argobjs[akey] = (a_int, a_bg, a_bo, a_ps)
                signal.setitimer(signal.ITIMER_VIRTUAL, MV_TIMEOUT_S)
                try:
                    r = K.get_minimal_generators(a_int, base_generator=a_bg, base_objects=a_bo,
                                                 use_indexes=st['mode'] != 'n', ps_to_iterate=a_ps)
                    if st['mode'] == 'n':
                        r = [{psn.index(nm): d for nm, d in g.items()} for g in r]
                    out = [sorted([[int(j), _enc_descr(d)] for j, d in g.items()], key=lambda p_: p_[0]) for g in r]
                    outs.append({'ok': sorted(out, key=repr), 'dups': len(set(map(repr, out))) != len(out)})
                except _Timeout:
                    outs.append({'err': 'Timeout'})
                except Exception as e:
                    outs.append({'err': exc_name(e)})
                finally:
                    signal.setitimer(signal.ITIMER_VIRTUAL, 0)
        return {'outs': outs, 'h4': h4}
    except Exception as e:
        return {'steperr': f'{exc_name(e)}: {str(e)[:120]}', 'outs': outs}
    finally:
        signal.setitimer(signal.ITIMER_VIRTUAL, 0)
        signal.signal(signal.SIGVTALRM, prev)
        LIB_INSTALLED['numpy'] = old


def _judge_mvhist(c, io, rep):
    if 'steperr' in io:
        return dict(ok=False, kind='property', detail='a public mutator / constructor failed: ' + io['steperr'])
    worst = None
    for k, pc in enumerate(_mvhist_queries(c)):
        v = _judge_mv(pc, io['outs'][k], rep[k:k + 1])
        if not v['ok']:
            v = dict(v, qmode=pc['qmode'], detail=f'query #{k} of the history (current columns {pc["cols"]}, intent '
                                                  f'{pc["intent"]}, base objects {pc["bo"]}): ' + v['detail'])
            if v['kind'] == 'property':
                return v
            worst = worst or v
    return worst or dict(ok=True)


def _mvhist_cases(cols, stream, rng):
    """query -> public mutation (new column data / pattern structures re-ordered / objects renamed) -> same query"""
    n, k = len(cols[0]), len(cols)
    psn, objs = [f'p{j}' for j in range(k)], OBJ[:n]

    def build(steps):
        c = _mvhist(stream, cols, steps, numpy_on=rng.random() < 0.7)
        # keep only histories all of whose queries are inside the terminating scope for the content at that time
        return c if _mvhist_in_scope(c) else None
    for iobjs in _subsets(n):
        if not iobjs:
            continue
        intent = _mv_int(cols, iobjs)
        ext = _mv_ext(cols, intent, range(n))
        rest = [g for g in range(n) if g not in ext]
        bo = sorted(ext + rng.sample(rest, rng.randint(0, len(rest)))) if rng.random() < 0.7 else None
        bgspec = None if rng.random() < 0.6 else [[rng.randrange(k), rng.choice('LR')]]
        cont = rng.choice(('list', 'set', 'frozenset', 'samelist')) if n < 8 else 'list'
        qi = _mvq('i', intent, bo, bgspec, cont if cont != 'frozenset' else 'list')
        qn = _mvq('n', {psn[j]: d for j, d in enumerate(intent)}, None if bo is None else [objs[g] for g in bo],
                  None if not bgspec else [[psn[j], sd] for j, sd in bgspec], cont)
        muts = []
        j = rng.randrange(k)
        muts.append(dict(op='psdata', j=j, col=rng.sample(cols[j], n)))
        muts.append(dict(op='psdata', j=j, col=[[min(a + 1, 5), min(b + 1, 5)] if rng.random() < 0.5 else [a, b]
                                                 for a, b in cols[j]]))
        if k > 1:
            muts.append(dict(op='permps', perm=rng.sample(range(k), k)))
        muts.append(dict(op='objs', names=rng.sample(objs, n)))
        # in-place edits of the containers the getters return; new pattern-structure objects; the same content spelled
        # with other Python types (1 / 1.0 / True / (1, 1) / [1] are one cell)
        r = rng.random()
        if r < 0.25 and n > 1:
            a, b = rng.sample(range(n), 2)
            muts.append(dict(op='swapobjs', a=a, b=b))
        elif r < 0.5:
            muts.append(dict(op=rng.choice(('setps', 'newps')), j=j, col=rng.sample(cols[j], n)))
        elif r < 0.75:
            muts.append(dict(op='psdata', j=j, col=[_retype(x, rng) for x in cols[j]]))
        for mu in muts:
            for steps in ([qn, mu, qn], [qi, mu, qi], [qi, qn, mu, qn, qi]):
                c = build(steps)
                if c is not None:
                    yield c


# ------------------------------------------------------------------ class H7: length is not fullness (formal contexts)
def _h7_all(k):
    """every H7 form of an index collection over range(k), small k: all lists of length k except the identity (repetitions
    with a proper member subset, non-identity permutations), non-decreasing lists and `range + one repeat` of length k + 1,
    lists of length k - 1 with a repetition"""
    out, ident = [], list(range(k))
    for t in itertools.product(range(k), repeat=k):
        if list(t) != ident:
            out.append(list(t))
    for t in itertools.product(range(k), repeat=k + 1):
        t = list(t)
        if t == sorted(t) or t[:k] == ident or t[1:] == ident:
            out.append(t)
    if k >= 2:
        for t in itertools.product(range(k), repeat=k - 1):
            if len(set(t)) < len(t):
                out.append(list(t))
    return out


def _h7_variants(S, k, rng):
    """a few H7 spellings of the member set S inside a dimension of size k (a list with repetitions denotes its members)"""
    S = sorted(set(S))
    if not S:
        return [[]]
    out = []
    if len(S) < k:                       # length == dimension, members a proper subset
        pad = S + [rng.choice(S) for _ in range(k - len(S))]
        out.append(sorted(pad))
        out.append(rng.sample(pad, len(pad)))
    else:                                # the full range, not sorted
        out.append(S[::-1])
        out.append(rng.sample(S, len(S)))
    longer = S + [rng.choice(S) for _ in range(k + 1 - len(S))]     # one longer than the dimension
    out.append(rng.sample(longer, len(longer)))
    if len(S) >= 2:
        out.append(S[::-1])
    out.append(S + [S[0]])               # one repetition
    if len(S) + 1 < k:
        out.append([S[-1]] + S)
    res = []
    for x in out:
        if x not in res and x != S:
            res.append(x)
    return res


def _h7_formal(rows, be, stream, rng):
    n, m = len(rows), len(rows[0])
    bos = _h7_all(n)
    objs, attrs = OBJ[:n], ATT[:m]
    for intent in _subsets(m):
        for bgpos in _subsets(len(intent)):
            bg = [intent[i] for i in bgpos]
            for bo in bos:
                yield _fc(stream, be, rows, rng.choice(('i', 'gi')), intent, bg, bo)
                if n * m <= 4 or rng.random() < 0.15:
                    yield _fc(stream, be, rows, 'n', intent, bg if bg or rng.random() < 0.5 else None, bo, objs=objs, attrs=attrs)
    # intent and base generator: repetitions up to / beyond the number of attributes, permutations, unsorted
    for S in _subsets(m):
        if not S:
            continue
        for il in _h7_variants(S, m, rng):
            for G0 in ([], S[:1], S) if len(S) > 1 else ([], S):
                for bo in (rng.choice((None, rng.choice(bos))),):
                    # by index the base generator must be duplicate-free (it is concatenated into every result): permutations
                    bgl = rng.sample(G0, len(G0))
                    yield _fc(stream, be, rows, rng.choice(('i', 'gi')), il, bgl, bo)
                    # by name a repeated name denotes one attribute
                    for bgn in _h7_variants(G0, m, rng)[:2] if G0 else [[]]:
                        yield _fc(stream, be, rows, 'n', il, bgn, bo, objs=objs, attrs=attrs)


def _h7_random(rng, rows, stream):
    n, m = len(rows), len(rows[0])
    be = rng.choice(BACKENDS)
    objs, attrs = _objn(n), _attn(m)
    for _ in range(6):
        boset = sorted(rng.sample(range(n), rng.randint(1, n)))
        seedset = rng.sample(range(m), rng.randint(0, min(m, 3)))
        intent = _closure(rows, seedset, boset) if rng.random() < 0.85 else sorted(seedset)
        bgset = rng.sample(intent, rng.randint(0, min(2, len(intent))))
        mode = rng.choice(('i', 'gi', 'n'))
        bo = rng.choice(_h7_variants(boset, n, rng)) if rng.random() < 0.85 else boset
        il = rng.choice(_h7_variants(intent, m, rng)) if intent and rng.random() < 0.6 else intent
        if mode == 'n' and bgset and rng.random() < 0.5:
            bgl = rng.choice(_h7_variants(bgset, m, rng))
        else:
            bgl = rng.sample(bgset, len(bgset))
        yield _fc(stream, be, rows, mode, il, bgl, bo, objs=objs, attrs=attrs)


# ------------------------------------------------------------------ class H8: 64 / 65 / 129 objects or attributes
def _h8_formal(rng, stream, quick=True):
    """directed large shapes; the LAST object / attribute (index 63, 64, 128) decides the answer, so a routine that drops
    indexes >= 64 (bit masks) or switches algorithm by size is wrong here.  Intents are closures of <= 2 attributes inside
    the base set, so the level-wise search ends at level <= 2 (a few thousand combinations)."""
    shapes = [(65, 4), (64, 4), (4, 65), (4, 64), (65, 65), (129, 3), (3, 129)]
    if not quick:
        shapes += [(64, 64), (128, 4), (4, 128), (66, 5), (5, 66)]
    for n, m in shapes:
        for rep in range(2 if quick else 4):
            d = rng.choice((0.6, 0.75, 0.9))
            rows = [[int(rng.random() < d) for _ in range(m)] for _ in range(n)]
            # the last object is the only one that has attribute 0 without attribute 1 (tall tables); the last attribute
            # is shared by exactly the objects having attribute 0, except object 0 (wide tables)
            for g in range(n):
                if rows[g][0] and m > 1:
                    rows[g][1] = 1
            rows[n - 1][0] = 1
            if m > 1:
                rows[n - 1][1] = 0
            if m > 4:
                for g in range(n):
                    rows[g][m - 1] = int(bool(rows[g][0]) and g != 0)
            be = BACKENDS[(rep + n + m) % 3]
            objs, attrs = _objn(n), _attn(m)
            full = list(range(n))
            bosets = [None, full[:-1], full[1:], sorted(rng.sample(full, n - 2))]
            seeds = [[0], [m - 1], [0, m - 1], [1], rng.sample(range(m), min(m, 2)), [rng.randrange(m)]]
            for seed in seeds:
                for boset in bosets:
                    intent = _closure(rows, seed, boset)
                    bg = [] if rng.random() < 0.5 else [rng.choice(seed)]
                    mode = rng.choice(('i', 'gi', 'n'))
                    bo = boset
                    if boset is not None:
                        r = rng.random()
                        if r < 0.35:         # H7 on top: length == n_objects, members a proper subset
                            pad = boset + [rng.choice(boset) for _ in range(n - len(boset))]
                            bo = rng.sample(pad, len(pad)) if rng.random() < 0.5 else pad
                        elif r < 0.5:
                            bo = boset[::-1]
                    il = intent if rng.random() < 0.6 else rng.sample(intent, len(intent))
                    cont = ['list', 'list', 'list'] if rng.random() < 0.6 else \
                        [rng.choice(('list', 'tuple', 'set', 'frozenset')) for _ in range(3)]
                    yield _fc(stream, be, rows, mode, il, bg, bo, objs=objs, attrs=attrs, cont=cont)


# ------------------------------------------------------------------ class H4: hash-preserving edits (formal contexts)
# `FormalContext.hash_fixed` = adler32(str(object_names) + str(attribute_names) + str(table)); (+1, -2, +1) on three
# consecutive characters keeps adler32 wherever the name stands, so 'bdb' <-> 'cbc', 'dfd' <-> 'ede', 'hjh' <-> 'ihi',
# 'kmk' <-> 'lkl' may be exchanged, or swapped inside a name list, without changing the fingerprint.
A4 = ['bdb', G.adler_collide_name('bdb'), 'dfd', 'x1', 'y2']
O4 = ['hjh', G.adler_collide_name('hjh'), 'kmk', 'u1', 'v2']
assert A4[1] == 'cbc' and O4[1] == 'ihi' and G.adler_collide_name('dfd') == 'ede'


def _fixed_text(objs, attrs, rows):
    """the text hash_fixed hashes (the names are kept as tuples by the setters)"""
    return str(tuple(objs)) + str(tuple(attrs)) + str([[bool(v) for v in r] for r in rows])


def _adler(objs, attrs, rows):
    import zlib
    return zlib.adler32(_fixed_text(objs, attrs, rows).encode())


_PARTNER = {}


def _adler_partner_rows(objs, attrs, rows):
    """a DIFFERENT table of the same shape with the same hash_fixed (same names); None if there is none / too large"""
    n, m = len(rows), len(rows[0])
    if n * m > 12:
        return None
    k = (tuple(objs), tuple(attrs), n, m)
    if k not in _PARTNER:
        groups = {}
        for t in G.all_tables(n, m):
            groups.setdefault(_adler(objs, attrs, t), []).append(t)
        _PARTNER[k] = groups
    grp = _PARTNER[k][_adler(objs, attrs, rows)]
    cur = [list(r) for r in rows]
    others = [t for t in grp if t != cur]
    if not others:
        return None
    # the partner that differs in most cells (most likely to change the answers)
    return max(others, key=lambda t: sum(a != b for ra, rb in zip(t, cur) for a, b in zip(ra, rb)))


def _h4_formal(rows, be, stream, rng, sample=None):
    n, m = len(rows), len(rows[0])
    objs, attrs = O4[:n], A4[:m]
    combos = []
    for intent in _subsets(m):
        for bg in ([], intent[:1]):
            if bg and not intent:
                continue
            for bo in (None, sorted(rng.sample(range(n), rng.randint(0, n)))):
                combos.append((intent, bg, bo))
    if sample is not None and len(combos) > sample:
        combos = rng.sample(combos, sample)
    for intent, bg, bo in combos:
        ni, nb = [attrs[i] for i in intent], [attrs[i] for i in bg]
        no = None if bo is None else [objs[g] for g in bo]
        kinds = rng.choice((['list'] * 3, ['tuple', 'list', 'set'], ['frozenset', 'tuple', 'list']))
        qn = _q('n', ni, nb if nb or rng.random() < 0.5 else None, no, kinds)
        qi = _q(rng.choice(('i', 'gi')), intent, bg, bo, kinds)
        same = lambda q: dict(q, same=True)
        if m >= 2:      # the two partner names change places: the same names now denote other columns
            new = [attrs[1], attrs[0]] + attrs[2:]
            assert new != attrs and _adler(objs, new, rows) == _adler(objs, attrs, rows)
            yield _hist(stream, be, rows, objs, attrs, [qn, dict(op='attrs', names=new, h4='adler'), same(qn), qn, qi])
        # one name replaced by its partner: the old name is unknown afterwards
        ren = ['cbc' if a == 'bdb' else a for a in attrs] if m < 2 else attrs[:2] + ['ede' if a == 'dfd' else a for a in attrs[2:]]
        if ren != attrs:
            assert _adler(objs, ren, rows) == _adler(objs, attrs, rows)
            qn2 = _q('n', [ren[i] for i in intent], [ren[i] for i in bg], no, kinds)
            yield _hist(stream, be, rows, objs, attrs, [qn, qn2, dict(op='attrs', names=ren, h4='adler'), same(qn), same(qn2), qn])
        if n >= 2 and bo is not None:
            new = [objs[1], objs[0]] + objs[2:]
            assert _adler(new, attrs, rows) == _adler(objs, attrs, rows)
            yield _hist(stream, be, rows, objs, attrs, [qn, dict(op='objs', names=new, h4='adler'), same(qn), qn])
        other = _adler_partner_rows(objs, attrs, rows)
        if other is not None:
            assert other != [list(r) for r in rows] and _adler(objs, attrs, other) == _adler(objs, attrs, rows)
            yield _hist(stream, be, rows, objs, attrs,
                        [qi, qn, dict(op='data', rows=other, h4='adler'), same(qi), same(qn), qi, qn])


# ------------------------------------------------------------------ many-valued: classes H7, H4, H8
def _mv_one(stream, cols, q, np_on):
    c = _mvhist(stream, cols, [q], numpy_on=np_on)
    return c if _mvhist_in_scope(c) else None


def _mv_h7_cases(cols, stream, rng, sample=None):
    """base objects / ps_to_iterate as H7 lists.  By name and on the branch without numpy every spelling of a member
    set containing the extent is answered (the routine re-builds the index list / a frozenset); on the numpy branch the
    list is iterated as given, so only spellings that list the extent once and in ascending order are in scope
    (repetitions and disorder among the other objects - in particular lists of length n_objects missing an object)."""
    n, k = len(cols[0]), len(cols)
    psn, objs = [f'p{j}' for j in range(k)], _objn(n)
    subs = [x for x in _subsets(n) if x]
    if sample is not None and len(subs) > 4:
        subs = rng.sample(subs, 4)
    for iobjs in subs:
        intent = _mv_int(cols, iobjs)
        ext = _mv_ext(cols, intent, range(n))
        rest = [g for g in range(n) if g not in ext]
        adds = [list(a) for r in range(len(rest) + 1) for a in itertools.combinations(rest, r)]
        if sample is not None and len(adds) > sample:
            adds = rng.sample(adds, sample)
        nint = {psn[j]: d for j, d in enumerate(intent)}
        for add in adds:
            M = sorted(ext + add)
            forms = _h7_variants(M, n, rng)
            if len(forms) > 3:
                forms = rng.sample(forms, 3)
            bgspec = None if rng.random() < 0.7 else [[rng.randrange(k), rng.choice('LR')]]
            nbg = None if not bgspec else [[psn[j], sd] for j, sd in bgspec]
            for f in forms:
                cont = rng.choice(('list', 'list', 'set', 'samelist'))
                yield _mv_one(stream, cols, _mvq('n', nint, [objs[g] for g in f], nbg, cont), rng.random() < 0.6)
                yield _mv_one(stream, cols, _mvq('i', intent, f, bgspec, 'list'), False)
            # numpy branch: the extent once and ascending, anything among the other objects
            npf = []
            if add:
                x = rng.choice(add)
                npf.append(sorted(M + [x] * max(1, n - len(M))))            # length >= n_objects, a proper subset (if M is)
                npf.append([x] + [g for g in M if g != x] + [x])
                y = rng.choice(add)
                npf.append([g for g in M if g not in add] + add[::-1] + [y])    # the other objects unsorted / repeated
            for f in npf:
                yield _mv_one(stream, cols, _mvq('i', intent, f, bgspec, 'list'), True)
        # ps_to_iterate: permutations, repetitions, longer than the number of pattern structures, sufficient subsets
        full = list(range(k))
        pforms = [full[::-1], full + [full[0]], [j for j in full for _ in (0, 1)], rng.sample(full + full, 2 * k)]
        pforms += [[j] for j in full] + [[j, j] for j in full]
        if k > 2:
            pforms += [rng.sample(full, k - 1)]
        seen = []
        for pf in pforms:
            if pf in seen or pf == full:
                continue
            seen.append(pf)
            bo = None if rng.random() < 0.5 else sorted(ext + rng.sample(rest, rng.randint(0, len(rest))))
            np_on = rng.random() < 0.6
            yield _mv_one(stream, cols, _mvq('i', intent, bo, None, 'list', psit=pf), np_on)
            yield _mv_one(stream, cols, _mvq('n', nint, None if bo is None else [objs[g] for g in bo], None, 'list',
                                           psit=[psn[j] for j in pf]), np_on)


# value pairs a fingerprint cannot tell apart: CPython hash(-1.0) == hash(-2.0), hash(1.0) == hash(2.0 ** 61) (floats hash
# modulo 2**61 - 1), and '131.0' / '212.0' are adler32-neutral (+1, -2, +1 on three consecutive characters)
_H4_PAIRS = (('pyhash', -1, G.pyhash_collide_value(-1), 3), ('pyhash', 1, 2 ** 61, 7), ('adler', 131, 212, 150))
assert _H4_PAIRS[0][2] == -2 and hash(-1.0) == hash(-2.0) and hash(1.0) == hash(2.0 ** 61)


def _mv_text(objs, psn, cols):
    n = len(cols[0])
    return str(list(objs)) + str(list(psn)) + str([[(float(c[g][0]), float(c[g][1])) for c in cols] for g in range(n)])


def _mv_fp(kind, objs, psn, cols):
    if kind == 'adler':
        import zlib
        return zlib.adler32(_mv_text(objs, psn, cols).encode())
    return tuple(hash(tuple((float(a), float(b)) for a, b in col)) for col in cols)


def _mv_h4_cases(stream, rng, quick=True):
    """query -> an edit of one column that changes cells only between two values a fingerprint cannot tell apart ->
    the same query (same argument objects, then fresh ones); through ps.data = , pattern_structures[j] = ,
    pattern_structures = """
    turn = 0
    for kind, a, b, z in _H4_PAIRS:
        flip = {a: b, b: a}
        for col0 in itertools.product((a, b, z), repeat=3):
            pos = [g for g, v in enumerate(col0) if v in flip]
            if not pos:
                continue
            for col1 in (None, [9, 1, 2]):
                cols = [[[v, v] for v in col0]] + ([[[v, v] for v in col1]] if col1 else [])
                k, n = len(cols), 3
                psn, objs = [f'p{j}' for j in range(k)], _objn(n)
                flipsets = [pos, pos[:1]] + ([pos[-1:]] if len(pos) > 1 else [])
                for fs in flipsets:
                    newcol = [[flip[v], flip[v]] if g in fs else [v, v] for g, v in enumerate(col0)]
                    newcols = [newcol] + cols[1:]
                    assert newcols != cols and _mv_fp(kind, objs, psn, newcols) == _mv_fp(kind, objs, psn, cols)
                    for iobjs in _subsets(n):
                        if not iobjs:
                            continue
                        intent = _mv_int(cols, iobjs)
                        ext = _mv_ext(cols, intent, range(n))
                        rest = [g for g in range(n) if g not in ext]
                        bo = None if rng.random() < 0.6 else sorted(ext + rng.sample(rest, rng.randint(0, len(rest))))
                        bgspec = None if rng.random() < 0.75 else [[rng.randrange(k), rng.choice('LR')]]
                        turn += 1
                        mu = dict(op=('psdata', 'psdata', 'setps', 'newps')[turn % 4], j=0, col=newcol, h4=kind)
                        qi = _mvq('i', intent, bo, bgspec, 'list')
                        qn = _mvq('n', {psn[j]: d for j, d in enumerate(intent)}, None if bo is None else [objs[g] for g in bo],
                                  None if not bgspec else [[psn[j], sd] for j, sd in bgspec], rng.choice(('list', 'set')))
                        for steps in ([qi, mu, dict(qi, same=True), qi], [qn, mu, dict(qn, same=True), qn]):
                            c = _mvhist(stream, cols, steps, numpy_on=rng.random() < 0.7)
                            if _mvhist_in_scope(c):
                                yield c


def _mv_h8_cases(stream, rng, quick=True):
    """64 / 65 objects (the last object decides), 65 pattern structures (the last one decides)"""
    for n in ((64, 65) if quick else (64, 65, 128, 129)):
        for k in (1, 2):
            cols = [[[v, v] for v in (rng.randint(0, 4) for _ in range(n))] for _ in range(k)]
            cols[0][n - 1] = [9, 9]                      # only the last object reaches 9 in column 0
            cols[0][n - 2] = [8, 8]
            psn, objs = [f'p{j}' for j in range(k)], _objn(n)
            picks = [[n - 1], [n - 2, n - 1], [0, n - 1], [n - 2], sorted(rng.sample(range(n), 3))]
            for iobjs in picks:
                intent = _mv_int(cols, iobjs)
                ext = _mv_ext(cols, intent, range(n))
                rest = [g for g in range(n) if g not in ext]
                nint = {psn[j]: d for j, d in enumerate(intent)}
                # without numpy the base objects become a frozenset whose order is not ascending from 9 objects on: the loop
                # then never ends (reported); only base_objects=None is in scope there
                for np_on, bo in ((True, None), (False, None), (True, sorted(ext + rng.sample(rest, len(rest) // 2))),
                                  (True, sorted(ext + rest[:1] * (n - len(ext))) if rest else None)):
                    yield _mv_one(stream, cols, _mvq('i', intent, bo, None, 'list'), np_on)
                    yield _mv_one(stream, cols, _mvq('n', nint, None if bo is None else [objs[g] for g in bo], None, 'list'),
                                  np_on)
    for k in (64, 65):
        n = 4
        cols = [[[1, 1]] * n for _ in range(k)]
        cols[0] = [[0, 0], [1, 1], [2, 2], [3, 3]]
        cols[k - 1] = [[5, 5], [1, 1], [2, 2], [0, 0]]
        cols[k - 2] = [[0, 0], [0, 0], [1, 1], [1, 1]]
        psn, objs = [f'p{j}' for j in range(k)], _objn(n)
        for iobjs in ([1, 2], [2, 3], [0], [3], [0, 1, 2]):
            intent = _mv_int(cols, iobjs)
            nint = {psn[j]: d for j, d in enumerate(intent)}
            full = list(range(k))
            for psit in (None, full[::-1], [k - 1, 0], [k - 1, k - 1, 0, k - 2]):
                np_on = rng.random() < 0.6
                yield _mv_one(stream, cols, _mvq('i', intent, None, None, 'list', psit=psit), np_on)
                yield _mv_one(stream, cols, _mvq('n', nint, None, None, 'list',
                                               psit=None if psit is None else [psn[j] for j in psit]), np_on)

"""C18 — the minimal-generator search returns exactly the minimum-size generators."""
import itertools
import math
import random

import gen as G
from implutil import BACKENDS, SHORT, make_context, exc_name

RULE = ('formal: case = (table, backend, entry point in {get_minimal_generators_i, get_minimal_generators(use_indexes=True), '
        'get_minimal_generators by name}, intent (closed or not), base generator, base objects or None); exhaustive over all '
        'tables of the tier scope x every attribute subset as intent x every base generator inside the intent x every base '
        'object subset x 3 backends, a stream with base generators outside the intent, a stream with unsorted base lists, '
        'then seeded random tables to 5x6; mv: interval tables on a small integer grid, intent = intention of an object '
        'subset, base objects = None / superset of the extent, optional base generator taken from the intent; '
        'non-trivial = mixed table and closed non-empty intent with a base generator or a proper base object subset '
        '(mv: extent neither empty nor everything); distinct = distinct (table, backend, mode, intent, bg, bo)')
EXHAUSTIVE = {
    'quick': 'all tables n,m<=3 (682) x all 2^m intents x all bg subset of intent x (None + all 2^n base object subsets) x 3 backends; '
             'bg not inside intent: same tables, bo in {None, all, one subset}; ordered (unsorted) bg/bo lists: tables with n*m<=6; '
             'by-name and use_indexes=True entry points: all tables n,m<=2 incl. base_objects=None; '
             'mv: all one-column tables with <=3 rows over grid {0,1,2} (points) and all two-column point tables with 2..3 rows '
             '(grids {0,1} x {0,1,2}), all object-subset intents, base objects None / every ascending superset of the extent, '
             'base generator none / each projection-1 generator of the intent',
    'thorough': 'the quick scope plus all tables with n*m<=12, n,m<=4 (3x4 and 4x3 with one backend per table, rotating); '
                'mv: one-column tables with <=4 rows over grid {0,1,2}, <=3 rows incl. proper intervals, two-column 2-row interval tables'}
EXPLANATION = ('formal contexts: the result set is pinned uniquely (theorem Fca.C18.min_gens_exact: model = set of minimum '
               'generators), so implementation != brute-force spec is a property failure; many-valued contexts: the '
               'implementation\'s own generators are judged by the Lean checker `same extension as the intent inside the base '
               'objects` (theorem mv_gens_same_extension proves it of the model); model/implementation set equality is '
               'checked as correspondence')
ASSUMPTIONS = ['index arguments are lists of valid non-negative indexes; the base generator is duplicate-free',
               'object/attribute names pairwise distinct',
               'MV: interval columns only, use_indexes=True, ps_to_iterate=None, projection_to_start=1, integer-valued data '
               '(floats exact), base objects ascending and containing the extension of the intent (otherwise the routine '
               'does not terminate - see the report), base generator = projection-1 generators of the intent']
TRUSTED = ['itertools.combinations order, sorted(), set semantics of tuples/frozendict (modelled)',
           'numpy array == list comparison inside MVContext.get_minimal_generators is not reached (extension_i returns lists)']
CHUNK = 3000
REQUESTS_NEED_IMPL = True
MV_FUEL = 4
MV_TIMEOUT_S = 5.0

OBJ = ['g0', 'g1', 'g2', 'g3', 'g4', 'g5', 'g6', 'g7']
ATT = ['a', 'b', 'c', 'd', 'e', 'f', 'g', 'h']


# ------------------------------------------------------------------ helpers (own code, not fcapy)
def _subsets(k):
    for r in range(k + 1):
        yield from (list(c) for c in itertools.combinations(range(k), r))


def _closure(rows, X, bo=None):
    n, m = len(rows), len(rows[0])
    objs = [g for g in (range(n) if bo is None else bo) if all(a < m and rows[g][a] for a in X)]
    return [a for a in range(m) if all(rows[g][a] for g in objs)]


def _is_closed(rows, X):
    return sorted(set(X)) == _closure(rows, X) and len(set(X)) == len(X)


def _fc(stream, be, rows, mode, intent, bg, bo, **kw):
    d = dict(stream=stream, kind='fc', be=be, rows=rows, mode=mode, intent=intent, bg=bg, bo=bo)
    d.update(kw)
    return d


def _formal_exhaustive(rows, stream, backends):
    n, m = len(rows), len(rows[0])
    for be in backends:
        for intent in _subsets(m):
            for bgpos in _subsets(len(intent)):
                bg = [intent[i] for i in bgpos]
                for bo in [None] + list(_subsets(n)):
                    yield _fc(stream, be, rows, 'i', intent, bg, bo)


def _formal_outside(rows, stream, backends, rng):
    n, m = len(rows), len(rows[0])
    extra = rng.sample(range(n), rng.randint(0, n))
    for be in backends:
        for intent in _subsets(m):
            for bg in _subsets(m):
                if set(bg) <= set(intent):
                    continue
                for bo in (None, list(range(n)), extra):
                    yield _fc(stream, be, rows, 'i', intent, bg, bo)


def _formal_ordered(rows, stream):
    n, m = len(rows), len(rows[0])
    for be in BACKENDS:
        for intent in _subsets(m):
            for bg in G.ordered_sublists(intent):
                if bg != sorted(bg):
                    yield _fc(stream, be, rows, 'i', intent, bg, None)
                for bo in G.ordered_sublists(range(n)):
                    if bg == sorted(bg) and bo == sorted(bo):
                        continue
                    yield _fc(stream, be, rows, 'i', intent, bg, bo)


def _formal_names(rows, stream):
    n, m = len(rows), len(rows[0])
    for be in BACKENDS:
        for intent in _subsets(m):
            for bgpos in _subsets(len(intent)):
                bg = [intent[i] for i in bgpos]
                for bo in [None] + list(_subsets(n)):
                    for mode in ('n', 'gi'):
                        for bgv in ((bg, None) if not bg else (bg,)):
                            yield _fc(stream, be, rows, mode, intent, bgv, bo, objs=OBJ[:n], attrs=ATT[:m])


def _formal_random(rng, rows, stream):
    n, m = len(rows), len(rows[0])
    be = rng.choice(BACKENDS)
    for _ in range(6):
        seedset = rng.sample(range(m), rng.randint(0, m))
        r = rng.random()
        if r < 0.6:
            intent = _closure(rows, seedset)
        elif r < 0.8:
            bo0 = rng.sample(range(n), rng.randint(0, n))
            intent = _closure(rows, seedset, bo0)
        else:
            intent = sorted(seedset)
        rng.shuffle(intent)
        bg = rng.sample(intent, rng.randint(0, min(len(intent), 3))) if rng.random() < 0.85 else \
            rng.sample(range(m), rng.randint(1, min(m, 2)))
        bo = rng.sample(range(n), rng.randint(0, n)) if rng.random() < 0.7 else list(range(n))
        mode = rng.choice(('i', 'i', 'gi', 'n'))
        if mode == 'i':
            yield _fc(stream, be, rows, 'i', intent, bg if bg or rng.random() < 0.5 else None,
                      bo if rng.random() < 0.8 else None)
        else:
            bov = bo if rng.random() < 0.7 else None
            yield _fc(stream, be, rows, mode, intent, bg if bg or rng.random() < 0.5 else None,
                      bov, objs=OBJ[:n], attrs=ATT[:m])


def _formal_malformed(rng, rows):
    n, m = len(rows), len(rows[0])
    be = rng.choice(BACKENDS)
    intent = _closure(rows, rng.sample(range(m), rng.randint(0, m)))
    bg = rng.sample(intent, rng.randint(0, len(intent)))
    bo = rng.sample(range(n), rng.randint(0, n))
    # duplicates in the base generator / intent / base objects; intent entries out of range (never raise)
    if bg:
        yield _fc('malformed', be, rows, 'i', intent, bg + [bg[0]], bo)
    yield _fc('malformed', be, rows, 'i', intent + intent[:1] + [m + 1], bg, bo + bo[:1])
    # unknown names are silently ignored by the by-name entry point
    yield _fc('malformed', be, rows, 'n', intent, bg, bo if rng.random() < 0.5 else None, objs=OBJ[:n], attrs=ATT[:m],
              junk=rng.choice([['zz'], ['', 'G0'], ['A', 'a ']]))


# ------------------------------------------------------------------ many-valued (interval) cases
def _mv(stream, cols, intent_objs, bo, bgspec, numpy_on=True):
    """cols: list of columns, each a list of [lo, hi] integer pairs; the intent is the intention of `intent_objs`;
    bgspec: None or list of (column, side) with side in {'L','R'} - projection-1 generators of the intent."""
    return dict(stream=stream, kind='mv', cols=cols, iobjs=intent_objs, bo=bo, bgspec=bgspec, np=numpy_on)


def _mv_cases(cols, stream, rng=None, with_bg=True):
    n = len(cols[0])
    for iobjs in _subsets(n):
        ext = _mv_ext(cols, _mv_int(cols, iobjs), range(n))
        bos = [None]
        rest = [g for g in range(n) if g not in ext]
        for r in range(len(rest) + 1):
            for add in itertools.combinations(rest, r):
                bos.append(sorted(ext + list(add)))
        if rng is not None and len(bos) > 3:
            bos = [None] + rng.sample(bos[1:], 2)
        for bo in bos:
            yield _mv(stream, cols, iobjs, bo, None)
            if with_bg and iobjs:
                for j in range(len(cols)):
                    for side in 'LR':
                        yield _mv(stream, cols, iobjs, bo, [[j, side]])


def _mv_int(cols, objs):
    if not objs:
        return [None] * len(cols)
    return [[min(c[g][0] for g in objs), max(c[g][1] for g in objs)] for c in cols]


def _mv_ext(cols, descr, base):
    out = []
    for g in base:
        if all(d is not None and d[0] <= c[g][0] and c[g][1] <= d[1] for c, d in zip(cols, descr)):
            out.append(g)
    return out


def _grid_columns(nrows, grid, intervals):
    cells = [[v, v] for v in grid]
    if intervals:
        cells += [[a, b] for a in grid for b in grid if a < b]
    for col in itertools.product(cells, repeat=nrows):
        yield [list(c) for c in col]


# ------------------------------------------------------------------ generator
def gen(tier, seed, boost=False):
    rng = random.Random(seed * 1000003 + 1801)
    # 0. corpus (minimised past failures), always first
    import glob, json, os
    for f in sorted(glob.glob(os.path.join(os.path.dirname(os.path.dirname(os.path.dirname(os.path.abspath(__file__)))),
                                           'corpus', 'C18', '*.json'))):
        c = json.load(open(f))
        c = c.get('case', c)
        c['stream'] = 'corpus'
        yield c
    thorough = tier == 'thorough' or boost
    # 1. exhaustive small scope (formal contexts)
    for rows in G.tables_upto(3, 3):
        yield from _formal_exhaustive(rows, 'exhaustive', BACKENDS)
    for k, rows in enumerate(G.tables_upto(3, 3)):
        bes = BACKENDS if len(rows) * len(rows[0]) <= 6 else (BACKENDS[k % 3],)
        yield from _formal_outside(rows, 'exhaustive-bg-outside', bes, rng)
    for rows in G.tables_upto(3, 3, cells=6):
        yield from _formal_ordered(rows, 'exhaustive-ordered')
    for rows in G.tables_upto(2, 2):
        yield from _formal_names(rows, 'exhaustive-names')
    # 2. exhaustive small scope (interval many-valued contexts)
    for nrows in (1, 2, 3):
        for col in _grid_columns(nrows, (0, 1, 2), intervals=False):
            yield from _mv_cases([col], 'mv-exhaustive')
    for nrows in (2, 3):
        for c0 in _grid_columns(nrows, (0, 1), intervals=False):
            for c1 in _grid_columns(nrows, (0, 1, 2), intervals=False):
                yield from _mv_cases([c0, c1], 'mv-exhaustive-2col')
    if thorough:
        for k, rows in enumerate(G.tables_upto(4, 4, cells=12)):
            n, m = len(rows), len(rows[0])
            if n <= 3 and m <= 3:
                continue
            bes = BACKENDS if n * m <= 8 else (BACKENDS[k % 3],)
            yield from _formal_exhaustive(rows, 'exhaustive-large', bes)
        for rows in G.tables_upto(3, 3, cells=6):
            if len(rows) * len(rows[0]) > 4:
                yield from _formal_names(rows, 'exhaustive-names')
        for nrows in (1, 2, 3):
            for col in _grid_columns(nrows, (0, 1, 2), intervals=True):
                yield from _mv_cases([col], 'mv-exhaustive-intervals')
        for col in _grid_columns(4, (0, 1, 2), intervals=False):
            yield from _mv_cases([col], 'mv-exhaustive')
        for c0 in _grid_columns(2, (0, 1, 2), intervals=True):
            for c1 in _grid_columns(2, (0, 1), intervals=True):
                yield from _mv_cases([c0, c1], 'mv-exhaustive-2col-intervals')
    # 3. seeded random larger cases
    nrand = 400 if tier == 'quick' else 8000
    if boost:
        nrand *= 3
    for i in range(nrand):
        rows = G.random_table(rng, 5, 6)
        yield from _formal_random(rng, rows, 'random')
        if i % 4 == 0:
            yield from _formal_malformed(rng, rows)
    nmv = 150 if tier == 'quick' else 2500
    for i in range(nmv):
        n, k = rng.randint(2, 5), rng.randint(1, 3)
        cols = []
        for _ in range(k):
            col = []
            for _g in range(n):
                a = rng.randint(0, 4)
                b = a if rng.random() < 0.6 else rng.randint(a, 5)
                col.append([a, b])
            cols.append(col)
        cs = list(_mv_cases(cols, 'mv-random', rng))
        for c in rng.sample(cs, min(len(cs), 6)):
            c['np'] = rng.random() < 0.7
            yield c


# ------------------------------------------------------------------ implementation side
def _names(xs, names, junk=()):
    return None if xs is None else [names[i] for i in xs] + list(junk)


def _impl_fc(c):
    K = make_context(c['rows'], c['be'], c.get('objs'), c.get('attrs'))
    intent, bg, bo = list(c['intent']), c['bg'], c['bo']
    bg = None if bg is None else list(bg)
    bo = None if bo is None else list(bo)
    try:
        if c['mode'] == 'i':
            r = K.get_minimal_generators_i(intent, bg, bo)
        elif c['mode'] == 'gi':
            r = K.get_minimal_generators(intent, bg, bo, use_indexes=True)
        else:
            junk = c.get('junk', ())
            r = K.get_minimal_generators(_names(intent, c['attrs'], junk), _names(bg, c['attrs'], junk),
                                         _names(bo, c['objs'], junk), use_indexes=False)
    except Exception as e:
        return {'err': exc_name(e)}
    if not isinstance(r, list) or not all(isinstance(t, tuple) for t in r):
        return {'bad_type': repr(type(r))}
    if c['mode'] == 'n':
        ts = [[str(x) for x in t] for t in r]
    else:
        ts = [[int(x) for x in t] for t in r]
    return {'ok': sorted(ts), 'dups': len(set(map(tuple, ts))) != len(ts)}


def impl(c):
    if c['kind'] == 'fc':
        return _impl_fc(c)
    return _impl_mv(c)


# ------------------------------------------------------------------ Lean side
def _table_req(c):
    return dict(be=SHORT[c['be']], rows=c['rows'], w=len(c['rows'][0]))


def requests(c, io=None):
    if c['kind'] == 'mv':
        return _requests_mv(c, io or {})
    n = len(c['rows'])
    base = _table_req(c)
    if c['mode'] in ('i', 'gi'):
        # bo = None: the driver's spec takes all objects (what the property asks for when no base set is supplied)
        return [dict(base, op='C18.i', intent=c['intent'], bg=c['bg'], bo=c['bo'])]
    junk = c.get('junk', ())
    return [dict(base, op='C18.n', objs=c['objs'], attrs=c['attrs'], intent=_names(c['intent'], c['attrs'], junk),
                 bg=_names(c['bg'], c['attrs'], junk), bo=_names(c['bo'], c['objs'], junk)),
            dict(base, op='C18.i', intent=c['intent'], bg=c['bg'], bo=c['bo'] if c['bo'] is not None else list(range(n)))]


def _judge_fc(c, io, rep):
    if 'bad_type' in io:
        return dict(ok=False, kind='property', detail=f'result is not a list of tuples: {io}')
    malformed = c['stream'] == 'malformed'
    if c['mode'] in ('i', 'gi'):
        r = rep[0]
        if not r['nodup']:
            return dict(ok=False, kind='harness', detail='model result has duplicates (contradicts min_gens_exact)')
        want_model = r['model']
        spec = r['spec']
        if not malformed and want_model != {'ok': spec}:
            return dict(ok=False, kind='harness', detail=f'model {want_model} != spec {spec} (contradicts min_gens_exact)')
        if malformed:
            got = {k: v for k, v in io.items() if k != 'dups'}
            if got == want_model:
                return dict(ok=True)
            return dict(ok=False, kind='correspondence', detail=f'malformed input: implementation {io} model {want_model}')
        if io.get('ok') == spec and not io.get('dups'):
            return dict(ok=True)
        return dict(ok=False, kind='property',
                    detail=f'{c["mode"]}: returned {io}; the minimum generators are {spec}')
    rn, ri = rep
    if 'ok' not in rn:
        return dict(ok=False, kind='harness', detail=f'by-name model failed: {rn}')
    attrs = c['attrs']
    if not malformed or True:
        img = sorted([[attrs[i] for i in t] for t in ri['spec']])
        if rn['ok'] != img:
            return dict(ok=False, kind='harness',
                        detail=f'by-name model {rn["ok"]} != names of the spec {img} (contradicts min_gens_names_agree)')
    if io.get('ok') == rn['ok'] and not io.get('dups'):
        return dict(ok=True)
    return dict(ok=False, kind='property', detail=f'by name: returned {io}; the minimum generators are {rn["ok"]}')


def judge(c, io, rep):
    if c['kind'] == 'fc':
        return _judge_fc(c, io, rep)
    return _judge_mv(c, io, rep)


def nontrivial(c):
    if c['kind'] == 'fc':
        return (G.is_mixed(c['rows']) and len(c['intent']) > 0 and _is_closed(c['rows'], c['intent'])
                and (bool(c['bg']) or (c['bo'] is not None and len(c['bo']) < len(c['rows']))))
    n = len(c['cols'][0])
    ext = _mv_ext(c['cols'], _mv_int(c['cols'], c['iobjs']), range(n))
    return 0 < len(ext) < n


def key(c):
    if c['kind'] == 'fc':
        return ['fc', c['rows'], c['be'], c['mode'], c['intent'], c['bg'], c['bo'], c.get('junk')]
    return ['mv', c['cols'], c['iobjs'], c['bo'], c['bgspec'], c['np']]


def branch(c, io, rep):
    if c['kind'] == 'fc':
        closed = _is_closed(c['rows'], c['intent'])
        inside = c['bg'] is None or set(c['bg']) <= set(c['intent'])
        size = 'err' if 'err' in io else ('empty' if not io.get('ok') else f'level{len(io["ok"][0])}x{min(len(io["ok"]), 3)}')
        return [c['stream'], f"fc:{c['be']}:{c['mode']}", 'intent-closed' if closed else 'intent-not-closed',
                'bg-inside' if inside else 'bg-outside', 'bo-none' if c['bo'] is None else 'bo-given', 'fc:' + size]
    return [c['stream'], 'mv:np' if c['np'] else 'mv:nonp', 'mv:bg' if c['bgspec'] else 'mv:nobg',
            'mv:bo-none' if c['bo'] is None else 'mv:bo-given',
            'mv:err:' + io['err'] if 'err' in io else f'mv:gens{min(len(io.get("ok", [])), 4)}']


def signature(c, io, rep, v):
    if c['kind'] == 'fc':
        return f"C18:fc:{c['be']}:{c['mode']}:{'err:' + io['err'] if 'err' in io else 'wrong'}"
    return f"C18:mv:{'err:' + io['err'] if 'err' in io else 'wrong'}"


def shrink(c):
    if c['kind'] == 'fc':
        if c['mode'] == 'n':
            return
        for s in G.shrink_table_case(c, row_keys=('bo',), col_keys=('intent', 'bg')):
            if 'objs' in s:   # keep the name lists as long as the shrunk table
                s['objs'] = OBJ[:len(s['rows'])]
                s['attrs'] = ATT[:len(s['rows'][0])]
            yield s
        return
    cols = c['cols']
    n = len(cols[0])
    if n > 1:
        for i in range(n):
            if i in c['iobjs']:
                continue
            d = dict(c)
            d['cols'] = [col[:i] + col[i + 1:] for col in cols]
            d['iobjs'] = [g - (g > i) for g in c['iobjs']]
            d['bo'] = None if c['bo'] is None else [g - (g > i) for g in c['bo'] if g != i]
            yield d
    if len(cols) > 1:
        for j in range(len(cols)):
            if c['bgspec'] and any(b[0] == j for b in c['bgspec']):
                continue
            d = dict(c)
            d['cols'] = cols[:j] + cols[j + 1:]
            d['bgspec'] = None if not c['bgspec'] else [[b[0] - (b[0] > j), b[1]] for b in c['bgspec']]
            yield d


# ------------------------------------------------------------------ many-valued: implementation, requests, judge
def _enc(x):
    """float bound -> JSON: integers, 'inf', '-inf'"""
    if x == math.inf:
        return 'inf'
    if x == -math.inf:
        return '-inf'
    if float(x) != int(x):
        raise ValueError(f'non-integer bound {x!r}')
    return int(x)


def _enc_descr(d):
    from numbers import Number
    if d is None:
        return None
    if isinstance(d, Number):
        return [_enc(d), _enc(d)]
    return [_enc(d[0]), _enc(d[1])]


def _mv_intent_and_bg(c):
    intent = _mv_int(c['cols'], c['iobjs'])
    bg = None
    if c['bgspec']:
        bg = {}
        for j, side in c['bgspec']:
            d = intent[j]
            bg[j] = None if d is None else ((-math.inf, float(d[1])) if side == 'L' else (float(d[0]), math.inf))
    return intent, bg


class _Timeout(BaseException):
    pass


def _impl_mv(c):
    from fcapy import LIB_INSTALLED
    from fcapy.mvcontext import MVContext, pattern_structure as PS
    cols = c['cols']
    n = len(cols[0])
    names = [f'p{j}' for j in range(len(cols))]
    data = [[tuple(col[g]) for col in cols] for g in range(n)]
    intent, bg = _mv_intent_and_bg(c)
    old = LIB_INSTALLED['numpy']
    LIB_INSTALLED['numpy'] = bool(c['np']) and old

    def _alarm(signum, frame):
        raise _Timeout()
    import signal
    prev = signal.signal(signal.SIGALRM, _alarm)
    signal.setitimer(signal.ITIMER_REAL, MV_TIMEOUT_S)   # the routine's `while` loop has no exit when nothing is found
    try:
        K = MVContext(data, pattern_types={nm: PS.IntervalPS for nm in names}, attribute_names=names)
        intent_i = {j: (None if d is None else (float(d[0]), float(d[1]))) for j, d in enumerate(intent)}
        r = K.get_minimal_generators(intent_i, base_generator=bg, base_objects=None if c['bo'] is None else list(c['bo']),
                                     use_indexes=True)
        out = []
        for g in r:
            out.append(sorted([[int(j), _enc_descr(d)] for j, d in g.items()], key=lambda p: p[0]))
        keyf = lambda g: repr(g)
        return {'ok': sorted(out, key=keyf), 'dups': len(set(map(keyf, out))) != len(out)}
    except _Timeout:
        return {'err': 'Timeout'}
    except Exception as e:
        return {'err': exc_name(e)}
    finally:
        signal.setitimer(signal.ITIMER_REAL, 0)
        signal.signal(signal.SIGALRM, prev)
        LIB_INSTALLED['numpy'] = old


def _requests_mv(c, io):
    intent, bg = _mv_intent_and_bg(c)
    bgj = [] if bg is None else [[j, _enc_descr(d)] for j, d in bg.items()]
    return [dict(op='C18.mv', cols=c['cols'], n=len(c['cols'][0]), intent=intent, bg=bgj, bo=c['bo'], fuel=MV_FUEL,
                 gens=io.get('ok', []))]


def _judge_mv(c, io, rep):
    import json
    r = rep[0]
    if not r['model_check']:
        return dict(ok=False, kind='harness', detail=f'a generator of the model fails the checker (contradicts '
                                                     f'mv_gens_same_extension): {r["model"]}')
    if 'err' in io:
        if r['model'] == io:
            # the routine raised, the model raises the same class: nothing is returned, nothing to judge
            return dict(ok=True)
        return dict(ok=False, kind='correspondence', detail=f'implementation raised {io}, model {r["model"]}')
    bad = [g for g, okk in zip(io['ok'], r['check']) if not okk]
    if bad:
        return dict(ok=False, kind='property', detail=f'returned generator(s) {bad} do not have the extension of the '
                                                      f'intent inside the base objects')
    if io['dups']:
        return dict(ok=False, kind='correspondence', detail=f'duplicate generators returned: {io["ok"]}')
    got = sorted(json.dumps(g, separators=(',', ':')) for g in io['ok'])
    if r['model'] != {'ok': got}:
        return dict(ok=False, kind='correspondence', detail=f'implementation returned {got}, model {r["model"]}')
    return dict(ok=True)

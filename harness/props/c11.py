"""C11 — semilattices and lattices keep a unique top/bottom; incremental equals batch."""
import copy
import itertools
import random

RULE = ('two case shapes. (1) history: (class in {UpperSemiLattice, LowerSemiLattice, Lattice}, order in {subset of a bit '
        'set, divisibility}, start element list, cache on/off, history of operations incl. refused ones); the constructor '
        'outcome and, after EVERY step, the outcome (ok / exception class), the element list, .top/.bottom and - after '
        'the last step (exhaustive streams; every prefix is a history of its own) or after every step (random streams) '
        '- a full order observation are compared with the Lean specification (brute-force greatest/least element, '
        'refusal table, Fresh order answers) and with the code-shaped Lean model. (2) concept lattice: a table, a mode '
        '(add / remove by value / del by index) and an order of its inner (non-extreme) concepts; ConceptLattice.add / '
        '.remove / del one at a time from [top, bottom] resp. from the full lattice; after every step the result is '
        'compared with ConceptLattice(batch list) (== both ways, cover relation as sets of concepts, top and bottom '
        'concept) and with the Lean model/spec as in (1). (3) reads at chosen points only (streams h1-*): the op '
        '`dicts` reads children_dict / parents_dict / descendants_dict / ancestors_dict of the LIVE object (and what '
        'the library derives from them: to_networkx up/down; for a ConceptLattice also .T and the arcs of write_json) '
        'and .top/.bottom; between two such reads the history mutates the structure (add incl. fill_up_cache=False / '
        'remove / del; replace an element, take one out and put it back, two out two in: net size change zero) and '
        'nothing is read; `dicts 1` also empties the returned dictionaries / appends to the returned tops list (they '
        'are the caller\'s objects); `alias` = the caller goes on mutating the list it passed to the constructor; '
        'concept lattices also start from the object handed out by from_context (Lindig: pre-filled re-indexed '
        'caches; CbO) and from an unsorted batch list. Every read must be the Fresh answer for the CURRENT elements '
        '(for the Lean model a `dicts` read is the sequence of the per-index queries the properties make). '
        'non-trivial = the history contains a mutation (1,3) / the lattice has an inner concept (2); distinct = '
        'distinct case')
_ALPHA = ('alphabet at a semilattice with elements E (n = len(E)): add(e, fill=True) for each of the 8 subsets (present '
          'ones included: re-adding, e.g. the top itself), add(e, fill=False) for each absent e and for the present top / '
          'bottom element, del i for i in 0..n '
          '(n = out of range; n-1 = the last index), remove(e) for every present e and one absent e; in non-final '
          'positions also top, bottom (where the class has it), tops, bottoms, children(i), parents(i) for all i, '
          'join([]), meet([]), fill_up_caches (cache on).')
EXHAUSTIVE = {
    'quick': 'constructor: all ordered start lists of <= 3 distinct subsets of a 3-set x 3 classes x cache on/off '
             '(accepted and rejected); histories: all histories of length <= 2 over every accepted start set of <= 3 '
             'subsets (listed ascending, and descending for length 1) x 3 classes x cache on/off, and all histories of '
             'length 3 (positions 1-2: mutations + fill_up_caches + tops + bottoms, position 3: mutations) over '
             'accepted start sets that are representatives of the atom-permutation orbits, cache on (and cache off '
             'for representatives of <= 2 elements); ' + _ALPHA +
             ' concept lattices: every distinct extent family of the tables with n,m <= 3, all orders of the <= 5 inner '
             'concepts (120 seeded orders beyond) x {add, remove, del}; reads at chosen points (h1-dicts): every '
             'accepted start set of <= 3 subsets x 3 classes, cache on, every sequence of 2 accepted effective mutations '
             '(add absent, del, remove; fill on, and off for orbit representatives) with reads before+after; for orbit '
             'representatives also reads at all three points, returned dictionaries emptied, cache off; 3 mutations '
             '(representatives of <= 2 elements) with reads at both ends and at one intermediate point; concept '
             'lattices (h1-cl-roundtrip*): per extent family up to 40 of: remove/del + re-add of every inner concept, '
             'replace a by b and two-out-two-in for every ordered pair, from the batch list, the reversed list, the '
             'from_context objects (Lindig, CbO)',
    'thorough': 'as quick, with length 3 over all accepted start sets (cache on and off; orbit representatives also '
                'listed descending), the full alphabet in positions 1-2 and length 4 (positions 1-3: mutations + '
                'fill_up_caches + tops + bottoms) for orbit representatives of <= 2 elements, cache on; concept lattices: every distinct extent family of the '
                'tables with n*m <= 12 (n,m <= 4), all orders of <= 5 inner concepts, 200 seeded orders beyond; '
                'h1-dicts as quick with all read patterns for every start set, 3 mutations for every start set, 4 '
                'mutations with net size change zero for representatives of <= 2 elements; h1-cl-roundtrip up to 400 '
                'per family',
}
EXPLANATION = ('the constructor outcome, the outcome class of every operation, the element SET, the element denoted by '
               'top/bottom and every order answer (also when read through the *_dict properties, to_networkx, .T, '
               'write_json) are pinned uniquely by the specification (Lean: Spec.refusal, Spec.greatest, Fresh), so '
               'implementation != specification on them is a property failure; the position of elements in the list '
               '(append at the end, erase in place) is fixed by the model only (correspondence). Lean, all FULL: '
               'Fca.C11.ctor_iff_unique_extreme, rejected_ops_noop, extreme_index_correct(+_history), '
               'ctor_establishes_invariant, step_full and all_histories (for every history in the documented range '
               'from a constructed semilattice - every add incl. fill_up_cache on/off, del, remove, refused or not, '
               'every query - the model output is the specification and a non-refused mutation never raises), '
               'incremental_eq_batch, incremental_sets, incremental_eq_batch_order (leq, descendants/ancestors, cover '
               'relation, == through elements, independent of the listing order)')
ASSUMPTIONS = ['start elements pairwise distinct; leq is a partial order on all elements used',
               'index arguments of queries and of del are non-negative (documented API); out-of-range del is part of the '
               'alphabet (IndexError)',
               'no children_dict is passed to the constructors (ConceptLattice([...]) passes none either)',
               'concepts of one context: distinct concepts have distinct extents, compared by extent inclusion']
TRUSTED = ['set iteration order inside POSet is modelled by an arbitrary order parameter (theorems quantify over it)',
           'FormalConcept.__le__/__eq__/__hash__ = inclusion / equality of extents (C08)']
CHUNK = 1500

LEQ = {'subset': (lambda a, b: a & b == a), 'divides': (lambda a, b: a != 0 and b % a == 0)}
REL = ('descendants', 'ancestors', 'children', 'parents')
HAS = {'upper': ('top',), 'lower': ('bottom',), 'lattice': ('top', 'bottom')}
ERRS = (IndexError, KeyError, ValueError, TypeError, AssertionError, AttributeError)


# ------------------------------------------------------------------------------------------ brute force (harness side)
def greatest(order, E, side):
    """index of the greatest ('top') / least ('bottom') element of E, or None"""
    leq = LEQ[order]
    for t, x in enumerate(E):
        if all((leq(y, x) if side == 'top' else leq(x, y)) for y in E):
            return t
    return None


def accepted(cls, order, E):
    return len(E) > 0 and all(greatest(order, E, side) is not None for side in HAS[cls])


def refusal(cls, order, E, op):
    leq = LEQ[order]
    nm = op[0]
    ext = [greatest(order, E, side) for side in HAS[cls]]
    if nm == 'add':
        return 'ValueError' if any(t is not None and not (leq(op[1], E[t]) or leq(E[t], op[1])) for t in ext) else None
    if nm == 'del':
        if op[1] in ext:
            return 'KeyError'
        return None if 0 <= op[1] < len(E) else 'IndexError'
    if nm == 'remove':
        if any(t is not None and E[t] == op[1] for t in ext):
            return 'ValueError'
        return None if op[1] in E else 'KeyError'
    return None


def next_elems(cls, order, E, op):
    if op[0] not in ('add', 'del', 'remove') or refusal(cls, order, E, op) is not None:
        return E
    if op[0] == 'add':
        return E if op[1] in E else E + [op[1]]
    if op[0] == 'del':
        return E[:op[1]] + E[op[1] + 1:]
    return [x for x in E if x != op[1]]


def obs_ops(n):
    out = [['leq', i, j] for i in range(n) for j in range(n)]
    for i in range(n):
        out += [[r, i] for r in REL]
    out += [['tops'], ['bottoms'], ['join', []], ['meet', []]]
    return out


# ------------------------------------------------------------------------------------------ implementation side
def apply_op(P, op, enc=None):
    """run one operation on the real object; `enc` maps a model element (int) to the real element"""
    el = (lambda x: x) if enc is None else enc
    nm = op[0]
    try:
        if nm == 'top':
            return int(P.top)
        if nm == 'bottom':
            return int(P.bottom)
        if nm == 'leq':
            return bool(P.leq_elements(op[1], op[2]))
        if nm in REL:
            return sorted(int(v) for v in getattr(P, nm)(op[1]))
        if nm in ('tops', 'bottoms'):
            return {'l': [int(v) for v in getattr(P, nm)]}
        if nm in ('join', 'meet'):
            r = getattr(P, nm)(list(op[1]))
            return {'o': None if r is None else int(r)}
        if nm == 'index':
            return int(P.index(el(op[1])))
        if nm == 'add':
            P.add(el(op[1]), fill_up_cache=bool(op[2]))
            return None
        if nm == 'del':
            del P[op[1]]
            return None
        if nm == 'remove':
            P.remove(el(op[1]))
            return None
        if nm == 'fill':
            P.fill_up_caches()
            return None
        if nm == 'dicts':
            return read_dicts(P, mutate=len(op) > 1 and bool(op[1]))
        raise RuntimeError('harness: unknown op %r' % (op,))
    except ERRS as e:
        return {'err': type(e).__name__}


DICTS = ('children', 'parents', 'descendants', 'ancestors')
_CL_NAMES = [None]          # (object names, attribute names) of the context of the concept lattice under test


def read_dicts(P, mutate=False):
    """read the four `*_dict` properties of the LIVE object (and what the library derives from them: the networkx
    graph; for a ConceptLattice the transposed lattice `.T`, built from `parents_dict`); with `mutate` the returned
    dictionaries are emptied afterwards by the caller (a hostile but legal use: they are the caller's objects)"""
    out = {}
    for rel in DICTS:
        try:
            d = getattr(P, rel + '_dict')
            out[rel] = [[int(k), sorted(int(v) for v in d[k])] for k in sorted(d)]
            if mutate:
                try:
                    d.clear()
                except (TypeError, AttributeError):
                    pass
        except ERRS as e:
            out[rel] = {'err': type(e).__name__}
    if mutate:
        for nm in ('tops', 'bottoms'):
            try:
                getattr(P, nm).append(-1)
            except ERRS:
                pass
    try:
        G = P.to_networkx('down')
        out['nx_down'] = {'nodes': sorted(int(v) for v in G.nodes), 'edges': sorted([int(a), int(b)] for a, b in G.edges)}
        G = P.to_networkx('up')
        out['nx_up'] = {'nodes': sorted(int(v) for v in G.nodes), 'edges': sorted([int(a), int(b)] for a, b in G.edges)}
    except ModuleNotFoundError:
        pass
    except ERRS as e:
        out['nx_down'] = {'err': type(e).__name__}
    if hasattr(P, 'T') and hasattr(P, 'is_monotone'):           # a ConceptLattice
        try:
            T = P.T
            cd = T.children_dict
            out['T_children'] = [[int(k), sorted(int(v) for v in cd[k])] for k in sorted(cd)]
        except ERRS as e:
            out['T_children'] = {'err': type(e).__name__}
        if _CL_NAMES[0] is not None and len(P) >= 3:
            try:
                import json
                arcs = json.loads(P.write_json(*_CL_NAMES[0]))[2]['Arcs']
                out['json_arcs'] = sorted([int(a['S']), int(a['D'])] for a in arcs)
            except ERRS as e:
                out['json_arcs'] = {'err': type(e).__name__}
    return out


def observe(P, in_place=False):
    Q = P if in_place else copy.deepcopy(P)
    return [apply_op(Q, o) for o in obs_ops(len(Q))]


def snap(P, cls, dec=None, extremes=True):
    d = {'elems': [int(x) if dec is None else dec(x) for x in P.elements]}
    for side in (HAS[cls] if extremes else ()):
        try:
            d[side] = int(getattr(P, side))
        except ERRS as e:
            d[side] = {'err': type(e).__name__}
    d['ctop'] = getattr(P, '_cache_top', None)
    d['cbottom'] = getattr(P, '_cache_bottom', None)
    return d


def _run_history(P, c, cls, enc=None, dec=None, after_step=None):
    steps = []
    last = len(c['ops']) - 1
    mode = c.get('observe', 'all')
    sparse = bool(c.get('sparse'))       # .top/.bottom are read at the chosen points (`dicts`, `top`, `bottom`, end) only
    for k, op in enumerate(c['ops']):
        st = {'out': apply_op(P, op, enc)}
        st.update(snap(P, cls, dec, extremes=(not sparse) or k == last or op[0] == 'dicts'))
        if mode == 'all':
            st['obs'] = observe(P)
        elif mode == 'last' and k == last:
            st['obs'] = observe(P, in_place=(after_step is None))
        if after_step is not None:
            try:
                st['batch'] = after_step(P)
            except ERRS as e:               # e.g. a stale top/bottom index makes the comparison itself raise
                st['batch'] = {'err': type(e).__name__}
        steps.append(st)
    return steps


def impl_hist(c):
    from fcapy.poset.lattice import UpperSemiLattice, LowerSemiLattice, Lattice
    K = {'upper': UpperSemiLattice, 'lower': LowerSemiLattice, 'lattice': Lattice}[c['cls']]
    arg = list(c['elems'])
    try:
        P = K(arg, LEQ[c['order']], use_cache=bool(c['use_cache']))
    except ERRS as e:
        return {'init_err': type(e).__name__}
    if c.get('alias'):                   # the caller goes on using (and changing) the list it passed
        arg.reverse()
        arg.append(arg[0])
        del arg[:1]
    return {'init': snap(P, c['cls']), 'steps': _run_history(P, c, c['cls'])}


def _mask(concept):
    return sum(1 << int(g) for g in concept.extent_i)


def impl_cl(c):
    from fcapy.context import FormalContext
    from fcapy.lattice import ConceptLattice
    K = FormalContext([[bool(v) for v in r] for r in c['rows']])
    L = ConceptLattice.from_context(K)
    by_mask = {_mask(x): x for x in L}
    need = set(c['elems']) | {o[1] for o in c['ops'] if o[0] in ('add', 'remove')}
    if not need <= set(by_mask):
        raise RuntimeError('harness: from_context does not produce the extents %r (has %r)'
                           % (sorted(need - set(by_mask)), sorted(by_mask)))
    rank = {m: i for i, m in enumerate(by_mask)}            # the listing order of from_context

    def cover(Q):
        cd = Q.children_dict
        return sorted([_mask(Q[i]), sorted(_mask(Q[j]) for j in cd[i])] for i in range(len(Q)))

    def batch(P0):
        P = copy.deepcopy(P0)                               # the comparisons must not warm the caches of the history
        cur = sorted(P.elements, key=lambda x: rank[_mask(x)])
        B = ConceptLattice(cur)
        d = {'eq': bool(P == B), 'eq_rev': bool(B == P), 'cover': cover(P), 'cover_batch': cover(B),
             'top': _mask(P[P.top]), 'top_batch': _mask(B[B.top]),
             'bottom': _mask(P[P.bottom]), 'bottom_batch': _mask(B[B.bottom])}
        if len(cur) == len(L):                              # the full lattice: compare with from_context too
            d['eq_ctx'] = bool(P == L) and bool(L == P)
            d['cover_ctx'] = cover(L)
            d['top_ctx'], d['bottom_ctx'] = _mask(L[L.top]), _mask(L[L.bottom])
        return d
    start = c.get('start', 'list')
    _CL_NAMES[0] = (list(K.object_names), list(K.attribute_names))
    try:
        if start == 'list':
            arg = [by_mask[m] for m in c['elems']]
            P = ConceptLattice(arg)
            if c.get('alias'):
                arg.reverse()
                arg.pop()
        else:
            # the object the library itself hands out: Lindig (pre-filled, re-indexed caches, cached top/bottom)
            # or CbO (built from the sorted list, lazy caches)
            P = {'ctx-lindig': lambda: ConceptLattice.from_context(K, algo='Lindig'),
                 'ctx-cbo': lambda: ConceptLattice.from_context(K, algo='CbO')}[start]()
            got = [_mask(x) for x in P.elements]
            if got != list(c['elems']):
                raise RuntimeError('harness: %s lists the concepts as %r, the case expects %r' % (start, got, c['elems']))
            by_mask = {_mask(x): x for x in P.elements}
            rank = {m: i for i, m in enumerate(by_mask)}
    except ERRS as e:
        return {'init_err': type(e).__name__}
    return {'init': snap(P, 'lattice', _mask),
            'steps': _run_history(P, c, 'lattice', enc=lambda m: by_mask[m], dec=_mask, after_step=batch)}


def impl(c):
    return impl_cl(c) if c.get('kind') == 'cl' else impl_hist(c)


# ------------------------------------------------------------------------------------------ Lean side
def expand_ops(c):
    """the operations sent to the Lean driver + for every operation of the case the span of driver steps it became.
    A read of the `*_dict` properties is, for the model, the sequence of the per-index queries the properties make
    (`{i: self.children(i) for i in range(len(self))}` ...)."""
    E = list(c['elems'])
    lean_ops, spans = [], []
    for op in c['ops']:
        a = len(lean_ops)
        if op[0] == 'dicts':
            lean_ops += [[rel, i] for rel in DICTS for i in range(len(E))]
        else:
            lean_ops.append(op)
        spans.append((a, len(lean_ops)))
        E = next_elems(c['cls'], c['order'], E, op)
    return lean_ops, spans


def requests(c):
    return [dict(op='C11.run', cls=c['cls'], order=c['order'], elems=c['elems'], use_cache=bool(c['use_cache']),
                 ops=expand_ops(c)[0], observe=c.get('observe', 'all'), state=False)]


def _cmp_dicts(c, k, op, got, sms, n):
    """a read of the *_dict properties (and what is derived from them) against the Fresh answers"""
    for sm in sms:
        if not sm['ok'] or sm['out'] != sm['fresh']:
            return (k, 'dicts', 'harness', f'step {k} {op}: model {sm["out"]} != spec {sm["fresh"]}')
    if not isinstance(got, dict) or 'err' in got:
        return (k, 'dicts', 'property', f'step {k} {op}: reading the *_dict properties gave {got}')
    want = {rel: [[i, sms[r * n + i]['fresh']] for i in range(n)] for r, rel in enumerate(DICTS)}
    for rel in DICTS:
        if got.get(rel) != want[rel]:
            return (k, 'dict:' + rel, 'property',
                    f'step {k} {op}: {rel}_dict = {got.get(rel)} but over the current elements '
                    f'{_elems_after(c, k)} a fresh structure has {want[rel]}')
    for nm, rel in (('nx_down', 'children'), ('nx_up', 'parents')):
        if nm in got:
            w = {'nodes': list(range(n)), 'edges': sorted([i, j] for i, js in want[rel] for j in js)}
            if got[nm] != w:
                return (k, 'dict:' + nm, 'property', f'step {k} {op}: to_networkx graph {got[nm]}, expected {w}')
    if 'json_arcs' in got:
        w = sorted([i, j] for i, js in want['children'] for j in js)
        if got['json_arcs'] != w:
            return (k, 'dict:json', 'property', f'step {k} {op}: write_json lists the arcs {got["json_arcs"]}, the '
                                                f'cover relation is {w}')
    if 'T_children' in got and got['T_children'] != want['parents']:
        return (k, 'dict:T', 'property', f'step {k} {op}: the children of the transposed lattice .T are '
                                         f'{got["T_children"]}, the parents relation is {want["parents"]}')
    return None


def _elems_after(c, k):
    E = list(c['elems'])
    for op in c['ops'][:k + 1]:
        E = next_elems(c['cls'], c['order'], E, op)
    return E


def _first_divergence(c, io, rep):
    """(step, where, kind, detail) of the first divergence, or None"""
    r = rep[0]
    cls, order = c['cls'], c['order']
    want = None if accepted(cls, order, c['elems']) else 'ValueError'
    if r.get('spec_init_err') != want:
        return (-1, 'init', 'harness', f'Lean spec says constructor outcome {r.get("spec_init_err")}, brute force {want}')
    if r.get('init_err') != want:
        return (-1, 'init', 'harness', f'model constructor outcome {r.get("init_err")} != spec {want} '
                                       f'(contradicts ctor_iff_unique_extreme)')
    if io.get('init_err') != want:
        return (-1, 'init', 'property', f'constructor of {cls} over {c["elems"]}: implementation '
                                        f'{io.get("init_err") or "accepts"}, a unique extreme element '
                                        f'{"exists" if want is None else "does not exist"}')
    if want is not None:
        return None
    d = _cmp_state(c, -1, ['init'], io['init'], r['init'], list(c['elems']), True)
    if d is not None:
        return d
    spans = expand_ops(c)[1]
    for k, (op, si) in enumerate(zip(c['ops'], io['steps'])):
        a, b = spans[k]
        if b == a:                       # cannot happen: a semilattice is never empty
            return (k, 'dicts', 'harness', f'step {k} {op}: empty expansion')
        sm = r['steps'][b - 1]
        if op[0] == 'dicts':
            if sm['ok']:
                d = _cmp_dicts(c, k, op, si['out'], r['steps'][a:b], (b - a) // len(DICTS))
                if d is None:
                    d = _cmp_state(c, k, op, si, sm, sm['spec_elems'], True)
                if d is None and si.get('batch') is not None:
                    d = _cmp_batch(c, k, op, si['batch'], si, sm)
                if d is not None:
                    return d
            continue
        if sm['ok']:
            if sm['out'] != sm['fresh']:
                return (k, 'out', 'harness', f'step {k} {op}: model {sm["out"]} != spec {sm["fresh"]}')
            if si['out'] != sm['fresh']:
                return (k, 'out', 'property', f'step {k} {op}: implementation outcome {si["out"]}, specification '
                                              f'{sm["fresh"]} (elements before: {_elems_after(c, k - 1)})')
            d = _cmp_state(c, k, op, si, sm, sm['spec_elems'], True)
            if d is not None:
                return d
            b = si.get('batch')
            if b is not None:
                d = _cmp_batch(c, k, op, b, si, sm)
                if d is not None:
                    return d
        else:
            if si['out'] != sm['out']:
                return (k, 'out', 'correspondence', f'step {k} {op} (history left the valid range): implementation '
                                                    f'{si["out"]} model {sm["out"]}')
            d = _cmp_state(c, k, op, si, sm, sm['elems'], False)
            if d is not None:
                return d
    return None


def _cmp_state(c, k, op, si, sm, spec_elems, valid):
    cls, order = c['cls'], c['order']
    if valid:
        if sm['elems'] != spec_elems:
            return (k, 'elems', 'harness', f'after step {k} {op}: model elements {sm["elems"]} != spec {spec_elems}')
        if not sm.get('inv', True):
            return (k, 'inv', 'harness', f'after step {k} {op}: the model poset state fails invCheck')
        if not sm.get('invtop', True):
            return (k, 'invtop', 'harness', f'after step {k} {op}: the model state fails invTopCheck '
                                            f'(cached {sm.get("ctop")}/{sm.get("cbottom")})')
        for side in HAS[cls]:
            if sm['m' + side] != sm[side]:
                return (k, side, 'harness', f'after step {k} {op}: model {side} {sm["m" + side]} != greatest/least '
                                            f'element index {sm[side]}')
    if si['elems'] != spec_elems:
        kind = 'property' if (set(si['elems']) != set(spec_elems) or len(si['elems']) != len(spec_elems)) and valid \
            else 'correspondence'
        return (k, 'elems', kind, f'after step {k} {op}: implementation elements {si["elems"]}, expected {spec_elems}')
    if valid:
        for side in HAS[cls]:
            if side not in si:
                continue                 # not read at this point (sparse reads)
            want = greatest(order, si['elems'], side)
            if si[side] != want:
                return (k, side, 'property', f'after step {k} {op}: .{side} = {si[side]} but the '
                                             f'{"greatest" if side == "top" else "least"} element of {si["elems"]} '
                                             f'has index {want} (cached: {si.get("c" + side)})')
    else:
        for side in HAS[cls]:
            if side in si and si[side] != sm['m' + side]:
                return (k, side, 'correspondence', f'after step {k} {op}: .{side} implementation {si[side]} '
                                                   f'model {sm["m" + side]}')
    if 'obs' in si and 'obs' in sm:
        if valid and not sm.get('obs_eq', True):
            return (k, 'obs', 'harness', f'after step {k} {op}: model observation != Fresh observation')
        mo = sm['obs'] if valid else sm.get('obs_model', sm['obs'])
        if si['obs'] != mo:
            oo = obs_ops(len(si['elems']))
            bad = [(o, a, b) for o, a, b in zip(oo, si['obs'], mo) if a != b][:4]
            return (k, 'obs', 'property' if valid else 'correspondence',
                    f'after step {k} {op}: order observation differs from a fresh structure over {si["elems"]}: '
                    + '; '.join(f'{o}: impl {a} fresh {b}' for o, a, b in bad))
    return None


def _cmp_batch(c, k, op, b, si, sm):
    pre = f'after step {k} {op} (elements {si["elems"]}): incremental vs ConceptLattice(batch list): '
    if 'err' in b:
        return (k, 'batch-eq', 'property', pre + f'the comparison raised {b["err"]}')
    if not (b['eq'] and b['eq_rev']):
        return (k, 'batch-eq', 'property', pre + f'== is {b["eq"]}/{b["eq_rev"]}')
    if b['cover'] != b['cover_batch']:
        return (k, 'batch-cover', 'property', pre + f'cover relation {b["cover"]} vs {b["cover_batch"]}')
    if b['top'] != b['top_batch'] or b['bottom'] != b['bottom_batch']:
        return (k, 'batch-extreme', 'property', pre + f'top/bottom {b["top"]}/{b["bottom"]} vs '
                                                      f'{b["top_batch"]}/{b["bottom_batch"]}')
    if 'eq_ctx' in b:
        if not b['eq_ctx'] or b['cover'] != b['cover_ctx'] or b['top'] != b['top_ctx'] or b['bottom'] != b['bottom_ctx']:
            return (k, 'batch-ctx', 'property', pre + 'differs from ConceptLattice.from_context')
    # the cover relation of the model's Fresh observation, as sets of extents
    if 'obs' in sm:
        E = sm['elems']
        n = len(E)
        base = n * n
        mc = sorted([E[i], sorted(E[j] for j in sm['obs'][base + 4 * i + 2])] for i in range(n))
        if mc != b['cover']:
            return (k, 'batch-cover-spec', 'property', pre + f'cover relation {b["cover"]} vs specification {mc}')
    return None


def judge(c, io, rep):
    d = _first_divergence(c, io, rep)
    if d is None:
        return dict(ok=True)
    return dict(ok=False, kind=d[2], detail=d[3], step=d[0], where=d[1])


def nontrivial(c):
    if c.get('kind') == 'cl':
        return len(c['ops']) > 0
    return any(o[0] in ('add', 'del', 'remove') for o in c['ops'])


def key(c):
    return [c.get('kind', 'hist'), c['cls'], c['order'], c['elems'], bool(c['use_cache']), c['ops'], c.get('rows')]


def branch(c, io, rep):
    out = [c['stream'], c['cls'] + (':cache' if c['use_cache'] else ':nocache')]
    r = rep[0] if rep else {}
    if 'steps' not in io and 'init_err' not in io:
        out.append('impl:raised')
        return out
    if 'init_err' in io or 'init_err' in r:
        out.append('ctor:rejected')
        return out
    out.append('ctor:accepted')
    E = list(c['elems'])
    for op, si in zip(c['ops'], io['steps']):
        nm = op[0] + (':fill' if op[0] == 'add' and op[2] else '')
        o = si['out']
        if isinstance(o, dict) and 'err' in o:
            out.append('op:' + nm + ':' + o['err'])
        else:
            if op[0] == 'add':
                if op[1] in E:
                    nm += ':present'
                else:
                    for side in HAS[c['cls']]:
                        t = greatest(c['order'], E, side)
                        if t is not None and (LEQ[c['order']](E[t], op[1]) if side == 'top' else LEQ[c['order']](op[1], E[t])):
                            nm += ':new-' + side
            elif op[0] == 'del' and op[1] == len(E) - 1:
                nm += ':last'
            out.append('op:' + nm)
        E = si['elems']
    # diagnostic only: the private cached indexes against the model's
    if c['use_cache'] and 'steps' in r:
        spans = expand_ops(c)[1]
        same = all(si.get('ctop') == r['steps'][b - 1].get('ctop') and si.get('cbottom') == r['steps'][b - 1].get('cbottom')
                   for si, (a, b) in zip(io['steps'], spans) if b > a)
        out.append('cached-index:equal' if same else 'cached-index:differ')
    return out


def signature(c, io, rep, v):
    k = v.get('step', -1)
    op = c['ops'][k] if 0 <= k < len(c['ops']) else ['init']
    nm = op[0] + (':fill' if op[0] == 'add' and op[2] else '')
    sym = 'wrong'
    try:
        o = io['steps'][k]['out'] if k >= 0 else io.get('init_err')
        if isinstance(o, dict) and 'err' in o:
            sym = 'err:' + o['err']
        elif k < 0 and o:
            sym = 'err:' + o
    except Exception:
        pass
    return f"C11:{c.get('kind', 'hist')}:{c['cls']}:{v.get('kind')}:{nm}:{v.get('where')}:{sym}:" \
           f"{'cache' if c['use_cache'] else 'nocache'}"


def shrink(c):
    ops = c['ops']
    for i in range(len(ops)):
        d = dict(c)
        d['ops'] = ops[:i] + ops[i + 1:]
        d['observe'] = 'all'
        yield d
    if len(ops) > 1:
        d = dict(c)
        d['ops'] = ops[:-1]
        d['observe'] = 'all'
        yield d
    if c.get('kind') == 'cl':
        return
    E = c['elems']
    for i in range(len(E)):
        def fix(op):
            nm = op[0]
            if nm == 'leq':
                a, b = op[1], op[2]
                if a == i or b == i:
                    return None
                return ['leq', a - (a > i), b - (b > i)]
            if nm in REL or nm == 'del':
                if op[1] == i:
                    return None
                return [nm, op[1] - (op[1] > i)]
            if nm in ('join', 'meet'):
                return [nm, [x - (x > i) for x in op[1] if x != i]]
            return op
        d = dict(c)
        d['elems'] = E[:i] + E[i + 1:]
        d['ops'] = [o for o in (fix(o) for o in ops) if o is not None]
        d['observe'] = 'all'
        yield d


# ------------------------------------------------------------------------------------------ generators
U3 = list(range(8))
CLASSES = ('upper', 'lower', 'lattice')


def _orbit_rep(s):
    best = None
    for p in itertools.permutations(range(3)):
        t = tuple(sorted(sum(((m >> b) & 1) << p[b] for b in range(3)) for m in s))
        if best is None or t < best:
            best = t
    return best


def mutations(E, last=True):
    n = len(E)
    muts = [['add', e, True] for e in U3]
    muts += [['add', e, False] for e in U3 if e not in E]
    # re-adding the current extreme elements without cache filling too (the cached index must stay correct)
    # (a no-op when correct, and the state is compared after every step, so the final position suffices)
    if last:
        ext = {E[t] for t in (greatest('subset', E, 'top'), greatest('subset', E, 'bottom')) if t is not None}
        muts += [['add', e, False] for e in sorted(ext)]
    muts += [['del', i] for i in range(n + 1)]
    muts += [['remove', e] for e in E]
    absent = next((e for e in U3 if e not in E), None)
    if absent is not None:
        muts.append(['remove', absent])
    return muts


def alphabet(cls, E, use_cache, last, reduced):
    muts = mutations(E, last)
    if last:
        return muts
    # on an uncached instance a query cannot influence what follows: the reduced alphabet has none
    qs = [['tops'], ['bottoms']] if (use_cache or not reduced) else []
    if use_cache:
        qs.append(['fill', 'all'])
    if not reduced:
        qs += [[side] for side in HAS[cls]]
        for i in range(len(E)):
            qs += [['children', i], ['parents', i]]
        qs += [['join', []], ['meet', []]]
    return qs + muts


def histories(cls, E, use_cache, length, reduced):
    def rec(E, k, acc):
        if k == length:
            yield list(acc)
            return
        for op in alphabet(cls, E, use_cache, k == length - 1, reduced):
            acc.append(op)
            yield from rec(next_elems(cls, 'subset', E, op), k + 1, acc)
            acc.pop()
    yield from rec(list(E), 0, [])


def _hist_cases(cls, E, use_cache, length, reduced, stream):
    for h in histories(cls, E, use_cache, length, reduced):
        yield dict(stream=stream, cls=cls, order='subset', elems=list(E), use_cache=use_cache, ops=h, observe='last')


def _exhaustive_hist(tier, boost):
    level = 2 if tier == 'thorough' else (1 if boost else 0)      # boost: anchored source drifted / proof problem
    # constructors: every ordered start list of <= 3 distinct subsets
    for k in range(0, 4):
        for E in itertools.permutations(U3, k):
            for cls in CLASSES:
                for uc in (True, False):
                    yield dict(stream='exhaustive-ctor', cls=cls, order='subset', elems=list(E), use_cache=uc, ops=[],
                               observe='none')
    for cls in CLASSES:
        for k in range(1, 4):
            for s in itertools.combinations(U3, k):
                E = list(s)
                if not accepted(cls, 'subset', E):
                    continue
                rep = list(_orbit_rep(s)) == E
                for uc in (True, False):
                    yield from _hist_cases(cls, E, uc, 1, False, 'exhaustive')
                    if k > 1:
                        yield from _hist_cases(cls, E[::-1], uc, 1, False, 'exhaustive')
                    yield from _hist_cases(cls, E, uc, 2, False, 'exhaustive')
                if level == 0:
                    if rep:
                        yield from _hist_cases(cls, E, True, 3, True, 'exhaustive-len3')
                        if k <= 2:      # uncached instances too: histories that move the extreme element
                            yield from _hist_cases(cls, E, False, 3, True, 'exhaustive-len3')
                elif level == 1:
                    yield from _hist_cases(cls, E, True, 3, True, 'exhaustive-len3')
                    if rep:
                        yield from _hist_cases(cls, E, False, 3, True, 'exhaustive-len3')
                else:
                    for uc in (True, False):
                        yield from _hist_cases(cls, E, uc, 3, True, 'exhaustive-len3')
                    if rep:
                        yield from _hist_cases(cls, E[::-1], True, 3, True, 'exhaustive-len3')
                        if k <= 2:
                            yield from _hist_cases(cls, E, True, 3, False, 'exhaustive-len3-full')
                            yield from _hist_cases(cls, E, True, 4, True, 'exhaustive-len4')


# ---- concept lattices
def extent_family(rows):
    """all extents of the context, as bit masks over the objects (brute force: intersections of column extents)"""
    n, m = len(rows), len(rows[0])
    full = (1 << n) - 1
    cols = [sum(1 << i for i in range(n) if rows[i][j]) for j in range(m)]
    fam = {full}
    for j in range(m):
        fam |= {x & cols[j] for x in fam}
    return sorted(fam, key=lambda x: (-bin(x).count('1'), x))


def _cl_cases(rows, rng, max_orders, stream):
    fam = extent_family(rows)
    n = len(rows)
    top = (1 << n) - 1
    bottom = min(fam, key=lambda x: bin(x).count('1'))
    inner = [x for x in fam if x not in (top, bottom)]
    start = [top, bottom] if top != bottom else [top]
    if len(inner) <= 5:
        orders = [list(p) for p in itertools.permutations(inner)]
    else:
        orders = [inner, inner[::-1]] + [rng.sample(inner, len(inner)) for _ in range(max_orders - 2)]
    base = dict(kind='cl', cls='lattice', order='subset', use_cache=True, rows=rows, observe='all')
    for o in orders:
        yield dict(base, stream=stream + '-add', elems=start, ops=[['add', x, True] for x in o])
        yield dict(base, stream=stream + '-remove', elems=list(fam), ops=[['remove', x] for x in o])
        # del by index: the index of the concept in the current list
        cur, ops = list(fam), []
        for x in o:
            ops.append(['del', cur.index(x)])
            cur.remove(x)
        yield dict(base, stream=stream + '-del', elems=list(fam), ops=ops)
    # refused operations on the full lattice: remove / del the extremes, re-add present concepts
    yield dict(base, stream=stream + '-refused', elems=list(fam),
               ops=[['remove', top], ['remove', bottom], ['del', fam.index(top)], ['del', fam.index(bottom)],
                    ['add', top, True], ['add', bottom, True]] + [['add', x, True] for x in inner[:2]])


def _exhaustive_cl(tier, rng, boost):
    import gen as G
    thorough = tier == 'thorough' or boost
    seen = set()
    tabs = G.tables_upto(4, 4, cells=12) if thorough else G.tables_upto(3, 3)
    for rows in tabs:
        k = (len(rows), tuple(extent_family(rows)))
        if k in seen:
            continue
        seen.add(k)
        yield from _cl_cases(rows, rng, 200 if thorough else 120, 'cl')


# ---- random histories
def _valid_start(rng, cls, order, universe, m):
    E = rng.sample(universe, min(m, len(universe)))
    for _ in range(40):
        if accepted(cls, order, E):
            return E
        # repair: add an element above / below everything if the universe has one, else drop an element
        leq = LEQ[order]
        cand = []
        for side in HAS[cls]:
            if greatest(order, E, side) is None:
                cand += [u for u in universe if u not in E and all((leq(y, u) if side == 'top' else leq(u, y)) for y in E)]
        if cand and rng.random() < 0.8:
            E = E + [rng.choice(cand)]
            rng.shuffle(E)
        elif len(E) > 1:
            E.pop(rng.randrange(len(E)))
        else:
            E = [rng.choice(universe)]
    return E


def _random_history(rng, cls, order, universe, E, use_cache, length):
    E = list(E)
    ops = []
    for _ in range(length):
        n = len(E)
        r = rng.random()
        if r < 0.30:
            q = rng.random()
            if q < 0.25:
                op = [rng.choice(HAS[cls])]
            elif q < 0.40:
                op = [rng.choice(['tops', 'bottoms'])]
            elif q < 0.80:
                op = [rng.choice(REL), rng.randrange(n)]
            elif q < 0.90:
                op = ['leq', rng.randrange(n), rng.randrange(n)]
            elif q < 0.96 or not use_cache:
                op = [rng.choice(['join', 'meet']), [rng.randrange(n) for _ in range(rng.randint(0, 3))]]
            else:
                op = ['fill', 'all']
        elif r < 0.68:
            q = rng.random()
            cand = [e for e in universe if e not in E]
            ext = [E[t] for t in (greatest(order, E, s) for s in HAS[cls]) if t is not None]
            if q < 0.12 and E:
                op = ['add', rng.choice(E + ext), rng.random() < 0.8]          # re-adding (often an extreme)
            elif cand and len(E) < 16:
                op = ['add', rng.choice(cand), rng.random() < 0.8]
            else:
                op = ['add', rng.choice(E), True]
        else:
            q = rng.random()
            ext = [t for t in (greatest(order, E, s) for s in HAS[cls]) if t is not None]
            if q < 0.40:
                op = ['del', rng.randrange(n)]
            elif q < 0.48:
                op = ['del', n - 1]
            elif q < 0.56 and ext:
                op = ['del', rng.choice(ext)]
            elif q < 0.60:
                op = ['del', n]
            elif q < 0.88:
                op = ['remove', rng.choice(E)]
            elif q < 0.95 and ext:
                op = ['remove', E[rng.choice(ext)]]
            else:
                op = ['remove', rng.choice(universe)]
        ops.append(op)
        E = next_elems(cls, order, E, op)
    return ops


def _random(tier, rng, boost):
    n = 500 if tier == 'quick' else 15000
    if boost:
        n *= 3
    for k in range(n):
        cls = CLASSES[k % 3]
        order = 'subset' if (k // 3) % 2 == 0 else 'divides'
        if order == 'subset':
            universe = list(range(16))
        else:
            universe = rng.choice([[1, 2, 3, 4, 6, 8, 9, 12, 18, 24, 27, 36, 54, 72, 108, 216],
                                   [2, 3, 4, 5, 6, 8, 10, 12, 15, 20, 30, 60, 7, 14, 21, 42],
                                   [1, 2, 3, 5, 6, 10, 15, 30, 4, 12, 20, 60, 7, 14, 35, 210]])
        E = _valid_start(rng, cls, order, universe, rng.randint(1, 8))
        if rng.random() < 0.05:
            E = rng.sample(universe, rng.randint(0, 4))                       # possibly a rejected construction
        use_cache = rng.random() < 0.75
        ops = _random_history(rng, cls, order, universe, E, use_cache, rng.randint(1, 30)) if accepted(cls, order, E) else []
        yield dict(stream='random', cls=cls, order=order, elems=E, use_cache=use_cache, ops=ops, observe='all')


def _random_cl(tier, rng, boost):
    import gen as G
    n = 40 if tier == 'quick' else 600
    for _ in range(n):
        rows = G.random_table(rng, 5, 4, nmin=2, mmin=2)
        if len(extent_family(rows)) > 9:
            continue
        for c in itertools.islice(_cl_cases(rows, rng, 4, 'cl-random'), 13):
            yield c


# ---- H1: the *_dict properties (and what is derived from them) read at CHOSEN points only
def effective(cls, order, E, fills=(True, False), universe=None):
    """the mutations that are accepted and change the element set"""
    out = []
    for e in (U3 if universe is None else universe):
        if e not in E:
            for f in fills:
                op = ['add', e, f]
                if refusal(cls, order, E, op) is None:
                    out.append(op)
    for i in range(len(E)):
        if refusal(cls, order, E, ['del', i]) is None:
            out.append(['del', i])
            out.append(['remove', E[i]])
    return out


def _with_reads(seq, reads, mutate=False):
    """insert a `dicts` read before position p of the mutation sequence for every p in `reads`
    (p = len(seq): after the last mutation); the first read may empty the returned dictionaries"""
    ops, first = [], True
    for p in range(len(seq) + 1):
        if p in reads:
            ops.append(['dicts', 1] if (mutate and first) else ['dicts'])
            first = False
        if p < len(seq):
            ops.append(seq[p])
    return ops


def _h1_sequences(cls, E, length, fills):
    def rec(E, k, acc):
        if k == length:
            yield list(acc)
            return
        for op in effective(cls, 'subset', E, fills):
            acc.append(op)
            yield from rec(next_elems(cls, 'subset', E, op), k + 1, acc)
            acc.pop()
    yield from rec(list(E), 0, [])


def _h1_exhaustive(tier, boost):
    level = 2 if tier == 'thorough' else (1 if boost else 0)
    base = dict(order='subset', observe='last', sparse=True)
    for cls in CLASSES:
        for k in range(1, 4):
            for s in itertools.combinations(U3, k):
                E = list(s)
                if not accepted(cls, 'subset', E):
                    continue
                rep = list(_orbit_rep(s)) == E
                # two mutations (replace an element, take one out and put it back, ...): read before and after only,
                # read at every point, read with the returned dictionaries emptied by the caller
                for seq in _h1_sequences(cls, E, 2, (True, False) if rep else (True,)):
                    yield dict(base, stream='h1-dicts', cls=cls, elems=E, use_cache=True, ops=_with_reads(seq, {0, 2}))
                    if rep or level:
                        yield dict(base, stream='h1-dicts', cls=cls, elems=E, use_cache=True,
                                   ops=_with_reads(seq, {0, 1, 2}))
                        yield dict(base, stream='h1-dicts', cls=cls, elems=E, use_cache=True,
                                   ops=_with_reads(seq, {0, 2}, mutate=True))
                        yield dict(base, stream='h1-dicts', cls=cls, elems=E[::-1], use_cache=False,
                                   ops=_with_reads(seq, {0, 2}, mutate=True)) if k == 1 else \
                            dict(base, stream='h1-dicts', cls=cls, elems=E, use_cache=False, ops=_with_reads(seq, {0, 2}))
                # three mutations, reads at both ends and at one chosen intermediate point
                if (rep and k <= 2) or level == 2:
                    for seq in _h1_sequences(cls, E, 3, (True,)):
                        for reads in ({0, 3}, {0, 1, 3}, {0, 2, 3}):
                            yield dict(base, stream='h1-dicts-len3', cls=cls, elems=E, use_cache=True,
                                       ops=_with_reads(seq, reads))
                # four mutations with net size change zero, reads at both ends
                if level == 2 and rep and k <= 2:
                    for seq in _h1_sequences(cls, E, 4, (True,)):
                        if len(_elems_after(dict(cls=cls, order='subset', elems=E, ops=seq), 3)) == len(E):
                            yield dict(base, stream='h1-dicts-len4', cls=cls, elems=E, use_cache=True,
                                       ops=_with_reads(seq, {0, 4}))


def _h1_random(tier, rng, boost):
    n = 300 if tier == 'quick' else 6000
    if boost:
        n *= 2
    for k in range(n):
        cls = CLASSES[k % 3]
        order = 'subset' if (k // 3) % 2 == 0 else 'divides'
        universe = list(range(16)) if order == 'subset' else \
            rng.choice([[1, 2, 3, 4, 6, 8, 9, 12, 18, 24, 27, 36, 54, 72, 108, 216],
                        [1, 2, 3, 4, 6, 12, 24, 48, 240, 5, 10, 20, 60, 120, 8, 16]])
        E = _valid_start(rng, cls, order, universe, rng.randint(2, 8))
        if not accepted(cls, order, E):
            continue
        use_cache = rng.random() < 0.85
        ops = [['dicts']] if rng.random() < 0.8 else []
        cur = list(E)
        for _ in range(rng.randint(1, 14)):
            r = rng.random()
            eff = effective(cls, order, cur, (True, True, False), universe)
            if r < 0.12:
                ops.append(['dicts', 1] if rng.random() < 0.3 else ['dicts'])
                continue
            if r < 0.22:
                op = _random_history(rng, cls, order, universe, cur, use_cache, 1)[0]     # anything, incl. refused
                ops.append(op)
                cur = next_elems(cls, order, cur, op)
                continue
            if not eff:
                continue
            # a replacement keeps the size: take one out, put one in (possibly the same one back)
            outs = [o for o in eff if o[0] != 'add']
            if r < 0.75 and outs:
                o1 = rng.choice(outs)
                gone = cur[o1[1]] if o1[0] == 'del' else o1[1]
                nxt = next_elems(cls, order, cur, o1)
                ins = [o for o in effective(cls, order, nxt, (True, True, False), universe) if o[0] == 'add']
                back = ['add', gone, rng.random() < 0.8]
                o2 = back if (rng.random() < 0.4 or not ins) else rng.choice(ins)
                pair = [o1, o2] if rng.random() < 0.7 else [o2, o1]
                for o in pair:
                    if refusal(cls, order, cur, o) is None:
                        ops.append(o)
                        cur = next_elems(cls, order, cur, o)
            else:
                o = rng.choice(eff)
                ops.append(o)
                cur = next_elems(cls, order, cur, o)
        ops.append(['dicts'])
        yield dict(stream='h1-dicts-random', cls=cls, order=order, elems=E, use_cache=use_cache, ops=ops,
                   observe='last', sparse=rng.random() < 0.8, alias=rng.random() < 0.3)


def _h1_cl(rows, rng, stream, max_cases):
    """concept lattices: read, change with net size zero (remove + re-add, replace), read again; the batch
    comparison runs after every step as in the other concept-lattice streams"""
    fam = extent_family(rows)
    n = len(rows)
    top = (1 << n) - 1
    bottom = min(fam, key=lambda x: bin(x).count('1'))
    inner = [x for x in fam if x not in (top, bottom)]
    base = dict(kind='cl', cls='lattice', order='subset', use_cache=True, rows=rows, observe='last', stream=stream,
                sparse=True)
    cases = []
    # the lattice object handed out by from_context (listing order of `sort_concepts`), and an unsorted batch list
    ctx_order = sorted(fam, key=lambda x: (-bin(x).count('1'), ','.join(str(g) for g in range(n) if x >> g & 1)))
    for a in inner:
        for start, lst in (('ctx-lindig', ctx_order), ('ctx-cbo', ctx_order), ('list', list(fam)[::-1])):
            b0 = dict(base, start=start, elems=list(lst), stream=stream + ('-' + start if start != 'list' else '-unsorted'),
                      alias=(start == 'list'))
            cases.append(dict(b0, ops=[['dicts'], ['remove', a], ['add', a, True], ['dicts']]))
            cases.append(dict(b0, ops=[['remove', a], ['dicts'], ['add', a, False], ['top'], ['dicts', 1], ['dicts']]))
    for a in inner:
        cases.append(dict(base, elems=list(fam), ops=[['dicts'], ['remove', a], ['add', a, True], ['dicts']]))
        cases.append(dict(base, elems=list(fam), ops=[['dicts'], ['del', fam.index(a)], ['add', a, True], ['dicts', 1],
                                                       ['dicts']]))
        for b in inner:
            if a == b:
                continue
            rest = [x for x in fam if x != b]
            # replace a by b
            cases.append(dict(base, elems=rest, ops=[['dicts'], ['remove', a], ['add', b, True], ['dicts']]))
            cases.append(dict(base, elems=rest, ops=[['dicts'], ['add', b, True], ['remove', a], ['remove', b],
                                                     ['add', a, False], ['dicts']]))
            # two out, two back in the other order
            cases.append(dict(base, elems=list(fam), ops=[['dicts'], ['remove', a], ['remove', b], ['add', a, True],
                                                          ['add', b, True], ['dicts']]))
    if len(cases) > max_cases:
        cases = rng.sample(cases, max_cases)
    yield from cases


def _h1_cl_all(tier, rng, boost):
    import gen as G
    thorough = tier == 'thorough' or boost
    seen = set()
    tabs = G.tables_upto(4, 4, cells=12) if thorough else G.tables_upto(3, 3)
    for rows in tabs:
        k = (len(rows), tuple(extent_family(rows)))
        if k in seen:
            continue
        seen.add(k)
        yield from _h1_cl(rows, rng, 'h1-cl-roundtrip', 400 if thorough else 40)
    for _ in range(10 if not thorough else 200):
        rows = G.random_table(rng, 5, 4, nmin=2, mmin=2)
        if 3 <= len(extent_family(rows)) <= 10:
            yield from _h1_cl(rows, rng, 'h1-cl-roundtrip-random', 12)


def _corpus():
    import glob
    import json
    import os
    here = os.path.dirname(os.path.dirname(os.path.dirname(os.path.abspath(__file__))))
    for p in sorted(glob.glob(os.path.join(here, 'corpus', 'C11', '*.json'))):
        c = json.load(open(p))
        c['stream'] = 'corpus'
        yield c


def gen(tier, seed, boost=False):
    rng = random.Random(seed * 1000003 + 1111)
    yield from _corpus()
    yield from _h1_cl_all(tier, random.Random(seed * 1000003 + 1112), boost)
    yield from _h1_random(tier, random.Random(seed * 1000003 + 1113), boost)
    yield from _h1_exhaustive(tier, boost)
    yield from _exhaustive_cl(tier, rng, boost)
    yield from _exhaustive_hist(tier, boost)
    yield from _random(tier, rng, boost)
    yield from _random_cl(tier, rng, boost)

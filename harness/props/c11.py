"""C11 — semilattices and lattices keep a unique top/bottom; incremental equals batch."""
import copy
import itertools
import random

RULE = ('two case shapes. (1) history: (class in {UpperSemiLattice, LowerSemiLattice, Lattice}, order in {subset of a bit '
        'set, divisibility}, start element list, cache on/off, history of operations incl. refused ones); the constructor '
        'outcome and, after EVERY step, the outcome (ok / exception class), the element list, .top/.bottom and - after '
        'the last step (exhaustive streams; every prefix is a history of its own) or after every step (random streams) '
        '- a full order observation are compared with the Lean specification (brute-force greatest/least element, '
        'refusal table, Fresh order answers) and with the code-shaped Lean model. (2) concept lattice: a table, a mode '
        '(add / remove by value / del by index) and an order of its inner (non-extreme) concepts; ConceptLattice.add / '
        '.remove / del one at a time from [top, bottom] resp. from the full lattice; after every step the result is '
        'compared with ConceptLattice(batch list) (== both ways, cover relation as sets of concepts, top and bottom '
        'concept) and with the Lean model/spec as in (1). non-trivial = the history contains a mutation (1) / the '
        'lattice has an inner concept (2); distinct = distinct case')
_ALPHA = ('alphabet at a semilattice with elements E (n = len(E)): add(e, fill=True) for each of the 8 subsets (present '
          'ones included: re-adding, e.g. the top itself), add(e, fill=False) for each absent e and for the present top / '
          'bottom element, del i for i in 0..n '
          '(n = out of range; n-1 = the last index), remove(e) for every present e and one absent e; in non-final '
          'positions also top, bottom (where the class has it), tops, bottoms, children(i), parents(i) for all i, '
          'join([]), meet([]), fill_up_caches (cache on).')
EXHAUSTIVE = {
    'quick': 'constructor: all ordered start lists of <= 3 distinct subsets of a 3-set x 3 classes x cache on/off '
             '(accepted and rejected); histories: all histories of length <= 2 over every accepted start set of <= 3 '
             'subsets (listed ascending, and descending for length 1) x 3 classes x cache on/off, and all histories of '
             'length 3 (positions 1-2: mutations + fill_up_caches + tops + bottoms, position 3: mutations) over '
             'accepted start sets that are representatives of the atom-permutation orbits, cache on (and cache off '
             'for representatives of <= 2 elements); ' + _ALPHA +
             ' concept lattices: every distinct extent family of the tables with n,m <= 3, all orders of the <= 5 inner '
             'concepts (120 seeded orders beyond) x {add, remove, del}',
    'thorough': 'as quick, with length 3 over all accepted start sets (cache on and off; orbit representatives also '
                'listed descending), the full alphabet in positions 1-2 and length 4 (positions 1-3: mutations + '
                'fill_up_caches + tops + bottoms) for orbit representatives of <= 2 elements, cache on; concept lattices: every distinct extent family of the '
                'tables with n*m <= 12 (n,m <= 4), all orders of <= 5 inner concepts, 200 seeded orders beyond',
}
EXPLANATION = ('the constructor outcome, the outcome class of every operation, the element SET, the element denoted by '
               'top/bottom and every order answer are pinned uniquely by the specification (Lean: Spec.refusal, '
               'Spec.greatest, Fresh), so implementation != specification on them is a property failure; the position '
               'of elements in the list (append at the end, erase in place) is fixed by the model only '
               '(correspondence). Lean: Fca.C11.ctor_iff_unique_extreme, rejected_ops_noop, extreme_index_correct '
               '(InvTop is preserved by every accepted step, for all histories) are proved for the code-shaped model; '
               'incremental_eq_batch is proved for the element set and the extreme elements, its order-query part '
               'inherits the restriction of C09 (cached add(.., fill_up_cache=True) is covered by the verified '
               'checker invCheck run on the model state after every step, not by a step theorem)')
ASSUMPTIONS = ['start elements pairwise distinct; leq is a partial order on all elements used',
               'index arguments of queries and of del are non-negative (documented API); out-of-range del is part of the '
               'alphabet (IndexError)',
               'no children_dict is passed to the constructors (ConceptLattice([...]) passes none either)',
               'concepts of one context: distinct concepts have distinct extents, compared by extent inclusion']
TRUSTED = ['set iteration order inside POSet is modelled by an arbitrary order parameter (theorems quantify over it)',
           'FormalConcept.__le__/__eq__/__hash__ = inclusion / equality of extents (C08)']
CHUNK = 1500

LEQ = {'subset': (lambda a, b: a & b == a), 'divides': (lambda a, b: a != 0 and b % a == 0)}
REL = ('descendants', 'ancestors', 'children', 'parents')
HAS = {'upper': ('top',), 'lower': ('bottom',), 'lattice': ('top', 'bottom')}
ERRS = (IndexError, KeyError, ValueError, TypeError, AssertionError, AttributeError)


# ------------------------------------------------------------------------------------------ brute force (harness side)
def greatest(order, E, side):
    """index of the greatest ('top') / least ('bottom') element of E, or None"""
    leq = LEQ[order]
    for t, x in enumerate(E):
        if all((leq(y, x) if side == 'top' else leq(x, y)) for y in E):
            return t
    return None


def accepted(cls, order, E):
    return len(E) > 0 and all(greatest(order, E, side) is not None for side in HAS[cls])


def refusal(cls, order, E, op):
    leq = LEQ[order]
    nm = op[0]
    ext = [greatest(order, E, side) for side in HAS[cls]]
    if nm == 'add':
        return 'ValueError' if any(t is not None and not (leq(op[1], E[t]) or leq(E[t], op[1])) for t in ext) else None
    if nm == 'del':
        if op[1] in ext:
            return 'KeyError'
        return None if 0 <= op[1] < len(E) else 'IndexError'
    if nm == 'remove':
        if any(t is not None and E[t] == op[1] for t in ext):
            return 'ValueError'
        return None if op[1] in E else 'KeyError'
    return None


def next_elems(cls, order, E, op):
    if op[0] not in ('add', 'del', 'remove') or refusal(cls, order, E, op) is not None:
        return E
    if op[0] == 'add':
        return E if op[1] in E else E + [op[1]]
    if op[0] == 'del':
        return E[:op[1]] + E[op[1] + 1:]
    return [x for x in E if x != op[1]]


def obs_ops(n):
    out = [['leq', i, j] for i in range(n) for j in range(n)]
    for i in range(n):
        out += [[r, i] for r in REL]
    out += [['tops'], ['bottoms'], ['join', []], ['meet', []]]
    return out


# ------------------------------------------------------------------------------------------ implementation side
def apply_op(P, op, enc=None):
    """run one operation on the real object; `enc` maps a model element (int) to the real element"""
    el = (lambda x: x) if enc is None else enc
    nm = op[0]
    try:
        if nm == 'top':
            return int(P.top)
        if nm == 'bottom':
            return int(P.bottom)
        if nm == 'leq':
            return bool(P.leq_elements(op[1], op[2]))
        if nm in REL:
            return sorted(int(v) for v in getattr(P, nm)(op[1]))
        if nm in ('tops', 'bottoms'):
            return {'l': [int(v) for v in getattr(P, nm)]}
        if nm in ('join', 'meet'):
            r = getattr(P, nm)(list(op[1]))
            return {'o': None if r is None else int(r)}
        if nm == 'index':
            return int(P.index(el(op[1])))
        if nm == 'add':
            P.add(el(op[1]), fill_up_cache=bool(op[2]))
            return None
        if nm == 'del':
            del P[op[1]]
            return None
        if nm == 'remove':
            P.remove(el(op[1]))
            return None
        if nm == 'fill':
            P.fill_up_caches()
            return None
        raise RuntimeError('harness: unknown op %r' % (op,))
    except ERRS as e:
        return {'err': type(e).__name__}


def observe(P, in_place=False):
    Q = P if in_place else copy.deepcopy(P)
    return [apply_op(Q, o) for o in obs_ops(len(Q))]


def snap(P, cls, dec=None):
    d = {'elems': [int(x) if dec is None else dec(x) for x in P.elements]}
    for side in HAS[cls]:
        try:
            d[side] = int(getattr(P, side))
        except ERRS as e:
            d[side] = {'err': type(e).__name__}
    d['ctop'] = getattr(P, '_cache_top', None)
    d['cbottom'] = getattr(P, '_cache_bottom', None)
    return d


def _run_history(P, c, cls, enc=None, dec=None, after_step=None):
    steps = []
    last = len(c['ops']) - 1
    mode = c.get('observe', 'all')
    for k, op in enumerate(c['ops']):
        st = {'out': apply_op(P, op, enc)}
        st.update(snap(P, cls, dec))
        if mode == 'all':
            st['obs'] = observe(P)
        elif mode == 'last' and k == last:
            st['obs'] = observe(P, in_place=(after_step is None))
        if after_step is not None:
            try:
                st['batch'] = after_step(P)
            except ERRS as e:               # e.g. a stale top/bottom index makes the comparison itself raise
                st['batch'] = {'err': type(e).__name__}
        steps.append(st)
    return steps


def impl_hist(c):
    from fcapy.poset.lattice import UpperSemiLattice, LowerSemiLattice, Lattice
    K = {'upper': UpperSemiLattice, 'lower': LowerSemiLattice, 'lattice': Lattice}[c['cls']]
    try:
        P = K(list(c['elems']), LEQ[c['order']], use_cache=bool(c['use_cache']))
    except ERRS as e:
        return {'init_err': type(e).__name__}
    return {'init': snap(P, c['cls']), 'steps': _run_history(P, c, c['cls'])}


def _mask(concept):
    return sum(1 << int(g) for g in concept.extent_i)


def impl_cl(c):
    from fcapy.context import FormalContext
    from fcapy.lattice import ConceptLattice
    K = FormalContext([[bool(v) for v in r] for r in c['rows']])
    L = ConceptLattice.from_context(K)
    by_mask = {_mask(x): x for x in L}
    need = set(c['elems']) | {o[1] for o in c['ops'] if o[0] in ('add', 'remove')}
    if not need <= set(by_mask):
        raise RuntimeError('harness: from_context does not produce the extents %r (has %r)'
                           % (sorted(need - set(by_mask)), sorted(by_mask)))
    rank = {m: i for i, m in enumerate(by_mask)}            # the listing order of from_context

    def cover(Q):
        cd = Q.children_dict
        return sorted([_mask(Q[i]), sorted(_mask(Q[j]) for j in cd[i])] for i in range(len(Q)))

    def batch(P0):
        P = copy.deepcopy(P0)                               # the comparisons must not warm the caches of the history
        cur = sorted(P.elements, key=lambda x: rank[_mask(x)])
        B = ConceptLattice(cur)
        d = {'eq': bool(P == B), 'eq_rev': bool(B == P), 'cover': cover(P), 'cover_batch': cover(B),
             'top': _mask(P[P.top]), 'top_batch': _mask(B[B.top]),
             'bottom': _mask(P[P.bottom]), 'bottom_batch': _mask(B[B.bottom])}
        if len(cur) == len(L):                              # the full lattice: compare with from_context too
            d['eq_ctx'] = bool(P == L) and bool(L == P)
            d['cover_ctx'] = cover(L)
            d['top_ctx'], d['bottom_ctx'] = _mask(L[L.top]), _mask(L[L.bottom])
        return d
    try:
        P = ConceptLattice([by_mask[m] for m in c['elems']])
    except ERRS as e:
        return {'init_err': type(e).__name__}
    return {'init': snap(P, 'lattice', _mask),
            'steps': _run_history(P, c, 'lattice', enc=lambda m: by_mask[m], dec=_mask, after_step=batch)}


def impl(c):
    return impl_cl(c) if c.get('kind') == 'cl' else impl_hist(c)


# ------------------------------------------------------------------------------------------ Lean side
def requests(c):
    return [dict(op='C11.run', cls=c['cls'], order=c['order'], elems=c['elems'], use_cache=bool(c['use_cache']),
                 ops=c['ops'], observe=c.get('observe', 'all'), state=False)]


def _elems_after(c, k):
    E = list(c['elems'])
    for op in c['ops'][:k + 1]:
        E = next_elems(c['cls'], c['order'], E, op)
    return E


def _first_divergence(c, io, rep):
    """(step, where, kind, detail) of the first divergence, or None"""
    r = rep[0]
    cls, order = c['cls'], c['order']
    want = None if accepted(cls, order, c['elems']) else 'ValueError'
    if r.get('spec_init_err') != want:
        return (-1, 'init', 'harness', f'Lean spec says constructor outcome {r.get("spec_init_err")}, brute force {want}')
    if r.get('init_err') != want:
        return (-1, 'init', 'harness', f'model constructor outcome {r.get("init_err")} != spec {want} '
                                       f'(contradicts ctor_iff_unique_extreme)')
    if io.get('init_err') != want:
        return (-1, 'init', 'property', f'constructor of {cls} over {c["elems"]}: implementation '
                                        f'{io.get("init_err") or "accepts"}, a unique extreme element '
                                        f'{"exists" if want is None else "does not exist"}')
    if want is not None:
        return None
    d = _cmp_state(c, -1, ['init'], io['init'], r['init'], list(c['elems']), True)
    if d is not None:
        return d
    for k, (op, si, sm) in enumerate(zip(c['ops'], io['steps'], r['steps'])):
        if sm['ok']:
            if sm['out'] != sm['fresh']:
                return (k, 'out', 'harness', f'step {k} {op}: model {sm["out"]} != spec {sm["fresh"]}')
            if si['out'] != sm['fresh']:
                return (k, 'out', 'property', f'step {k} {op}: implementation outcome {si["out"]}, specification '
                                              f'{sm["fresh"]} (elements before: {_elems_after(c, k - 1)})')
            d = _cmp_state(c, k, op, si, sm, sm['spec_elems'], True)
            if d is not None:
                return d
            b = si.get('batch')
            if b is not None:
                d = _cmp_batch(c, k, op, b, si, sm)
                if d is not None:
                    return d
        else:
            if si['out'] != sm['out']:
                return (k, 'out', 'correspondence', f'step {k} {op} (history left the valid range): implementation '
                                                    f'{si["out"]} model {sm["out"]}')
            d = _cmp_state(c, k, op, si, sm, sm['elems'], False)
            if d is not None:
                return d
    return None


def _cmp_state(c, k, op, si, sm, spec_elems, valid):
    cls, order = c['cls'], c['order']
    if valid:
        if sm['elems'] != spec_elems:
            return (k, 'elems', 'harness', f'after step {k} {op}: model elements {sm["elems"]} != spec {spec_elems}')
        if not sm.get('inv', True):
            return (k, 'inv', 'harness', f'after step {k} {op}: the model poset state fails invCheck')
        if not sm.get('invtop', True):
            return (k, 'invtop', 'harness', f'after step {k} {op}: the model state fails invTopCheck '
                                            f'(cached {sm.get("ctop")}/{sm.get("cbottom")})')
        for side in HAS[cls]:
            if sm['m' + side] != sm[side]:
                return (k, side, 'harness', f'after step {k} {op}: model {side} {sm["m" + side]} != greatest/least '
                                            f'element index {sm[side]}')
    if si['elems'] != spec_elems:
        kind = 'property' if (set(si['elems']) != set(spec_elems) or len(si['elems']) != len(spec_elems)) and valid \
            else 'correspondence'
        return (k, 'elems', kind, f'after step {k} {op}: implementation elements {si["elems"]}, expected {spec_elems}')
    if valid:
        for side in HAS[cls]:
            want = greatest(order, si['elems'], side)
            if si[side] != want:
                return (k, side, 'property', f'after step {k} {op}: .{side} = {si[side]} but the '
                                             f'{"greatest" if side == "top" else "least"} element of {si["elems"]} '
                                             f'has index {want} (cached: {si.get("c" + side)})')
    else:
        for side in HAS[cls]:
            if si[side] != sm['m' + side]:
                return (k, side, 'correspondence', f'after step {k} {op}: .{side} implementation {si[side]} '
                                                   f'model {sm["m" + side]}')
    if 'obs' in si and 'obs' in sm:
        if valid and not sm.get('obs_eq', True):
            return (k, 'obs', 'harness', f'after step {k} {op}: model observation != Fresh observation')
        mo = sm['obs'] if valid else sm.get('obs_model', sm['obs'])
        if si['obs'] != mo:
            oo = obs_ops(len(si['elems']))
            bad = [(o, a, b) for o, a, b in zip(oo, si['obs'], mo) if a != b][:4]
            return (k, 'obs', 'property' if valid else 'correspondence',
                    f'after step {k} {op}: order observation differs from a fresh structure over {si["elems"]}: '
                    + '; '.join(f'{o}: impl {a} fresh {b}' for o, a, b in bad))
    return None


def _cmp_batch(c, k, op, b, si, sm):
    pre = f'after step {k} {op} (elements {si["elems"]}): incremental vs ConceptLattice(batch list): '
    if 'err' in b:
        return (k, 'batch-eq', 'property', pre + f'the comparison raised {b["err"]}')
    if not (b['eq'] and b['eq_rev']):
        return (k, 'batch-eq', 'property', pre + f'== is {b["eq"]}/{b["eq_rev"]}')
    if b['cover'] != b['cover_batch']:
        return (k, 'batch-cover', 'property', pre + f'cover relation {b["cover"]} vs {b["cover_batch"]}')
    if b['top'] != b['top_batch'] or b['bottom'] != b['bottom_batch']:
        return (k, 'batch-extreme', 'property', pre + f'top/bottom {b["top"]}/{b["bottom"]} vs '
                                                      f'{b["top_batch"]}/{b["bottom_batch"]}')
    if 'eq_ctx' in b:
        if not b['eq_ctx'] or b['cover'] != b['cover_ctx'] or b['top'] != b['top_ctx'] or b['bottom'] != b['bottom_ctx']:
            return (k, 'batch-ctx', 'property', pre + 'differs from ConceptLattice.from_context')
    # the cover relation of the model's Fresh observation, as sets of extents
    if 'obs' in sm:
        E = sm['elems']
        n = len(E)
        base = n * n
        mc = sorted([E[i], sorted(E[j] for j in sm['obs'][base + 4 * i + 2])] for i in range(n))
        if mc != b['cover']:
            return (k, 'batch-cover-spec', 'property', pre + f'cover relation {b["cover"]} vs specification {mc}')
    return None


def judge(c, io, rep):
    d = _first_divergence(c, io, rep)
    if d is None:
        return dict(ok=True)
    return dict(ok=False, kind=d[2], detail=d[3], step=d[0], where=d[1])


def nontrivial(c):
    if c.get('kind') == 'cl':
        return len(c['ops']) > 0
    return any(o[0] in ('add', 'del', 'remove') for o in c['ops'])


def key(c):
    return [c.get('kind', 'hist'), c['cls'], c['order'], c['elems'], bool(c['use_cache']), c['ops'], c.get('rows')]


def branch(c, io, rep):
    out = [c['stream'], c['cls'] + (':cache' if c['use_cache'] else ':nocache')]
    r = rep[0] if rep else {}
    if 'steps' not in io and 'init_err' not in io:
        out.append('impl:raised')
        return out
    if 'init_err' in io or 'init_err' in r:
        out.append('ctor:rejected')
        return out
    out.append('ctor:accepted')
    E = list(c['elems'])
    for op, si in zip(c['ops'], io['steps']):
        nm = op[0] + (':fill' if op[0] == 'add' and op[2] else '')
        o = si['out']
        if isinstance(o, dict) and 'err' in o:
            out.append('op:' + nm + ':' + o['err'])
        else:
            if op[0] == 'add':
                if op[1] in E:
                    nm += ':present'
                else:
                    for side in HAS[c['cls']]:
                        t = greatest(c['order'], E, side)
                        if t is not None and (LEQ[c['order']](E[t], op[1]) if side == 'top' else LEQ[c['order']](op[1], E[t])):
                            nm += ':new-' + side
            elif op[0] == 'del' and op[1] == len(E) - 1:
                nm += ':last'
            out.append('op:' + nm)
        E = si['elems']
    # diagnostic only: the private cached indexes against the model's
    if c['use_cache'] and 'steps' in r:
        same = all(si.get('ctop') == sm.get('ctop') and si.get('cbottom') == sm.get('cbottom')
                   for si, sm in zip(io['steps'], r['steps']))
        out.append('cached-index:equal' if same else 'cached-index:differ')
    return out


def signature(c, io, rep, v):
    k = v.get('step', -1)
    op = c['ops'][k] if 0 <= k < len(c['ops']) else ['init']
    nm = op[0] + (':fill' if op[0] == 'add' and op[2] else '')
    sym = 'wrong'
    try:
        o = io['steps'][k]['out'] if k >= 0 else io.get('init_err')
        if isinstance(o, dict) and 'err' in o:
            sym = 'err:' + o['err']
        elif k < 0 and o:
            sym = 'err:' + o
    except Exception:
        pass
    return f"C11:{c.get('kind', 'hist')}:{c['cls']}:{v.get('kind')}:{nm}:{v.get('where')}:{sym}:" \
           f"{'cache' if c['use_cache'] else 'nocache'}"


def shrink(c):
    ops = c['ops']
    for i in range(len(ops)):
        d = dict(c)
        d['ops'] = ops[:i] + ops[i + 1:]
        d['observe'] = 'all'
        yield d
    if len(ops) > 1:
        d = dict(c)
        d['ops'] = ops[:-1]
        d['observe'] = 'all'
        yield d
    if c.get('kind') == 'cl':
        return
    E = c['elems']
    for i in range(len(E)):
        def fix(op):
            nm = op[0]
            if nm == 'leq':
                a, b = op[1], op[2]
                if a == i or b == i:
                    return None
                return ['leq', a - (a > i), b - (b > i)]
            if nm in REL or nm == 'del':
                if op[1] == i:
                    return None
                return [nm, op[1] - (op[1] > i)]
            if nm in ('join', 'meet'):
                return [nm, [x - (x > i) for x in op[1] if x != i]]
            return op
        d = dict(c)
        d['elems'] = E[:i] + E[i + 1:]
        d['ops'] = [o for o in (fix(o) for o in ops) if o is not None]
        d['observe'] = 'all'
        yield d


# ------------------------------------------------------------------------------------------ generators
U3 = list(range(8))
CLASSES = ('upper', 'lower', 'lattice')


def _orbit_rep(s):
    best = None
    for p in itertools.permutations(range(3)):
        t = tuple(sorted(sum(((m >> b) & 1) << p[b] for b in range(3)) for m in s))
        if best is None or t < best:
            best = t
    return best


def mutations(E, last=True):
    n = len(E)
    muts = [['add', e, True] for e in U3]
    muts += [['add', e, False] for e in U3 if e not in E]
    # re-adding the current extreme elements without cache filling too (the cached index must stay correct)
    # (a no-op when correct, and the state is compared after every step, so the final position suffices)
    if last:
        ext = {E[t] for t in (greatest('subset', E, 'top'), greatest('subset', E, 'bottom')) if t is not None}
        muts += [['add', e, False] for e in sorted(ext)]
    muts += [['del', i] for i in range(n + 1)]
    muts += [['remove', e] for e in E]
    absent = next((e for e in U3 if e not in E), None)
    if absent is not None:
        muts.append(['remove', absent])
    return muts


def alphabet(cls, E, use_cache, last, reduced):
    muts = mutations(E, last)
    if last:
        return muts
    # on an uncached instance a query cannot influence what follows: the reduced alphabet has none
    qs = [['tops'], ['bottoms']] if (use_cache or not reduced) else []
    if use_cache:
        qs.append(['fill', 'all'])
    if not reduced:
        qs += [[side] for side in HAS[cls]]
        for i in range(len(E)):
            qs += [['children', i], ['parents', i]]
        qs += [['join', []], ['meet', []]]
    return qs + muts


def histories(cls, E, use_cache, length, reduced):
    def rec(E, k, acc):
        if k == length:
            yield list(acc)
            return
        for op in alphabet(cls, E, use_cache, k == length - 1, reduced):
            acc.append(op)
            yield from rec(next_elems(cls, 'subset', E, op), k + 1, acc)
            acc.pop()
    yield from rec(list(E), 0, [])


def _hist_cases(cls, E, use_cache, length, reduced, stream):
    for h in histories(cls, E, use_cache, length, reduced):
        yield dict(stream=stream, cls=cls, order='subset', elems=list(E), use_cache=use_cache, ops=h, observe='last')


def _exhaustive_hist(tier, boost):
    level = 2 if tier == 'thorough' else (1 if boost else 0)      # boost: anchored source drifted / proof problem
    # constructors: every ordered start list of <= 3 distinct subsets
    for k in range(0, 4):
        for E in itertools.permutations(U3, k):
            for cls in CLASSES:
                for uc in (True, False):
                    yield dict(stream='exhaustive-ctor', cls=cls, order='subset', elems=list(E), use_cache=uc, ops=[],
                               observe='none')
    for cls in CLASSES:
        for k in range(1, 4):
            for s in itertools.combinations(U3, k):
                E = list(s)
                if not accepted(cls, 'subset', E):
                    continue
                rep = list(_orbit_rep(s)) == E
                for uc in (True, False):
                    yield from _hist_cases(cls, E, uc, 1, False, 'exhaustive')
                    if k > 1:
                        yield from _hist_cases(cls, E[::-1], uc, 1, False, 'exhaustive')
                    yield from _hist_cases(cls, E, uc, 2, False, 'exhaustive')
                if level == 0:
                    if rep:
                        yield from _hist_cases(cls, E, True, 3, True, 'exhaustive-len3')
                        if k <= 2:      # uncached instances too: histories that move the extreme element
                            yield from _hist_cases(cls, E, False, 3, True, 'exhaustive-len3')
                elif level == 1:
                    yield from _hist_cases(cls, E, True, 3, True, 'exhaustive-len3')
                    if rep:
                        yield from _hist_cases(cls, E, False, 3, True, 'exhaustive-len3')
                else:
                    for uc in (True, False):
                        yield from _hist_cases(cls, E, uc, 3, True, 'exhaustive-len3')
                    if rep:
                        yield from _hist_cases(cls, E[::-1], True, 3, True, 'exhaustive-len3')
                        if k <= 2:
                            yield from _hist_cases(cls, E, True, 3, False, 'exhaustive-len3-full')
                            yield from _hist_cases(cls, E, True, 4, True, 'exhaustive-len4')


# ---- concept lattices
def extent_family(rows):
    """all extents of the context, as bit masks over the objects (brute force: intersections of column extents)"""
    n, m = len(rows), len(rows[0])
    full = (1 << n) - 1
    cols = [sum(1 << i for i in range(n) if rows[i][j]) for j in range(m)]
    fam = {full}
    for j in range(m):
        fam |= {x & cols[j] for x in fam}
    return sorted(fam, key=lambda x: (-bin(x).count('1'), x))


def _cl_cases(rows, rng, max_orders, stream):
    fam = extent_family(rows)
    n = len(rows)
    top = (1 << n) - 1
    bottom = min(fam, key=lambda x: bin(x).count('1'))
    inner = [x for x in fam if x not in (top, bottom)]
    start = [top, bottom] if top != bottom else [top]
    if len(inner) <= 5:
        orders = [list(p) for p in itertools.permutations(inner)]
    else:
        orders = [inner, inner[::-1]] + [rng.sample(inner, len(inner)) for _ in range(max_orders - 2)]
    base = dict(kind='cl', cls='lattice', order='subset', use_cache=True, rows=rows, observe='all')
    for o in orders:
        yield dict(base, stream=stream + '-add', elems=start, ops=[['add', x, True] for x in o])
        yield dict(base, stream=stream + '-remove', elems=list(fam), ops=[['remove', x] for x in o])
        # del by index: the index of the concept in the current list
        cur, ops = list(fam), []
        for x in o:
            ops.append(['del', cur.index(x)])
            cur.remove(x)
        yield dict(base, stream=stream + '-del', elems=list(fam), ops=ops)
    # refused operations on the full lattice: remove / del the extremes, re-add present concepts
    yield dict(base, stream=stream + '-refused', elems=list(fam),
               ops=[['remove', top], ['remove', bottom], ['del', fam.index(top)], ['del', fam.index(bottom)],
                    ['add', top, True], ['add', bottom, True]] + [['add', x, True] for x in inner[:2]])


def _exhaustive_cl(tier, rng, boost):
    import gen as G
    thorough = tier == 'thorough' or boost
    seen = set()
    tabs = G.tables_upto(4, 4, cells=12) if thorough else G.tables_upto(3, 3)
    for rows in tabs:
        k = (len(rows), tuple(extent_family(rows)))
        if k in seen:
            continue
        seen.add(k)
        yield from _cl_cases(rows, rng, 200 if thorough else 120, 'cl')


# ---- random histories
def _valid_start(rng, cls, order, universe, m):
    E = rng.sample(universe, min(m, len(universe)))
    for _ in range(40):
        if accepted(cls, order, E):
            return E
        # repair: add an element above / below everything if the universe has one, else drop an element
        leq = LEQ[order]
        cand = []
        for side in HAS[cls]:
            if greatest(order, E, side) is None:
                cand += [u for u in universe if u not in E and all((leq(y, u) if side == 'top' else leq(u, y)) for y in E)]
        if cand and rng.random() < 0.8:
            E = E + [rng.choice(cand)]
            rng.shuffle(E)
        elif len(E) > 1:
            E.pop(rng.randrange(len(E)))
        else:
            E = [rng.choice(universe)]
    return E


def _random_history(rng, cls, order, universe, E, use_cache, length):
    E = list(E)
    ops = []
    for _ in range(length):
        n = len(E)
        r = rng.random()
        if r < 0.30:
            q = rng.random()
            if q < 0.25:
                op = [rng.choice(HAS[cls])]
            elif q < 0.40:
                op = [rng.choice(['tops', 'bottoms'])]
            elif q < 0.80:
                op = [rng.choice(REL), rng.randrange(n)]
            elif q < 0.90:
                op = ['leq', rng.randrange(n), rng.randrange(n)]
            elif q < 0.96 or not use_cache:
                op = [rng.choice(['join', 'meet']), [rng.randrange(n) for _ in range(rng.randint(0, 3))]]
            else:
                op = ['fill', 'all']
        elif r < 0.68:
            q = rng.random()
            cand = [e for e in universe if e not in E]
            ext = [E[t] for t in (greatest(order, E, s) for s in HAS[cls]) if t is not None]
            if q < 0.12 and E:
                op = ['add', rng.choice(E + ext), rng.random() < 0.8]          # re-adding (often an extreme)
            elif cand and len(E) < 16:
                op = ['add', rng.choice(cand), rng.random() < 0.8]
            else:
                op = ['add', rng.choice(E), True]
        else:
            q = rng.random()
            ext = [t for t in (greatest(order, E, s) for s in HAS[cls]) if t is not None]
            if q < 0.40:
                op = ['del', rng.randrange(n)]
            elif q < 0.48:
                op = ['del', n - 1]
            elif q < 0.56 and ext:
                op = ['del', rng.choice(ext)]
            elif q < 0.60:
                op = ['del', n]
            elif q < 0.88:
                op = ['remove', rng.choice(E)]
            elif q < 0.95 and ext:
                op = ['remove', E[rng.choice(ext)]]
            else:
                op = ['remove', rng.choice(universe)]
        ops.append(op)
        E = next_elems(cls, order, E, op)
    return ops


def _random(tier, rng, boost):
    n = 500 if tier == 'quick' else 15000
    if boost:
        n *= 3
    for k in range(n):
        cls = CLASSES[k % 3]
        order = 'subset' if (k // 3) % 2 == 0 else 'divides'
        if order == 'subset':
            universe = list(range(16))
        else:
            universe = rng.choice([[1, 2, 3, 4, 6, 8, 9, 12, 18, 24, 27, 36, 54, 72, 108, 216],
                                   [2, 3, 4, 5, 6, 8, 10, 12, 15, 20, 30, 60, 7, 14, 21, 42],
                                   [1, 2, 3, 5, 6, 10, 15, 30, 4, 12, 20, 60, 7, 14, 35, 210]])
        E = _valid_start(rng, cls, order, universe, rng.randint(1, 8))
        if rng.random() < 0.05:
            E = rng.sample(universe, rng.randint(0, 4))                       # possibly a rejected construction
        use_cache = rng.random() < 0.75
        ops = _random_history(rng, cls, order, universe, E, use_cache, rng.randint(1, 30)) if accepted(cls, order, E) else []
        yield dict(stream='random', cls=cls, order=order, elems=E, use_cache=use_cache, ops=ops, observe='all')


def _random_cl(tier, rng, boost):
    import gen as G
    n = 40 if tier == 'quick' else 600
    for _ in range(n):
        rows = G.random_table(rng, 5, 4, nmin=2, mmin=2)
        if len(extent_family(rows)) > 9:
            continue
        for c in itertools.islice(_cl_cases(rows, rng, 4, 'cl-random'), 13):
            yield c


def _corpus():
    import glob
    import json
    import os
    here = os.path.dirname(os.path.dirname(os.path.dirname(os.path.abspath(__file__))))
    for p in sorted(glob.glob(os.path.join(here, 'corpus', 'C11', '*.json'))):
        c = json.load(open(p))
        c['stream'] = 'corpus'
        yield c


def gen(tier, seed, boost=False):
    rng = random.Random(seed * 1000003 + 1111)
    yield from _corpus()
    yield from _exhaustive_cl(tier, rng, boost)
    yield from _exhaustive_hist(tier, boost)
    yield from _random(tier, rng, boost)
    yield from _random_cl(tier, rng, boost)

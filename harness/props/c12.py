"""C12 — every order-construction routine computes exactly the cover relation."""
import functools
import itertools
import os
import random
import signal
import sys

import gen as G
from implutil import exc_name

RULE = ('case = (context table, ordered list of extents of concepts mined by close_by_one from it, routine, flags). '
        'Lists: every sub-list of the concept set that keeps the greatest and the least concept (tables whose concept set '
        'has the same extents as an earlier one are skipped); listing orders: all permutations for <= 5 concepts, else '
        'size-sorted / reversed / seeded shuffles; routines: complete_comparison, construct_lattice_by_spanning_tree '
        '(n_jobs 1 on every order; n_jobs 2,3,5 on the size-sorted order and one shuffle), construct_spanning_tree + '
        '_get_chains (chain checker), order_extents_comparison (complete concept sets only), add_concept of every mined '
        'concept not in the list and remove_concept of every listed concept whose removal keeps a greatest and a least one, '
        'each with inplace=True (the passed list / dictionaries must hold the result afterwards) and with inplace=False as a '
        'history of three calls with different candidates on the SAME base objects (each result judged against the covers '
        'of the base, and the base list / relation deep-compared with a snapshot after every call); the relation is handed over '
        'as plain {i: set} dictionaries and, rotating, as set- / frozenset-valued dictionaries with keys inserted in ascending, '
        'descending, shuffled and mixed order, and as produced by the library (pipeline routine -> helper): complete_comparison, '
        'construct_lattice_by_spanning_tree, order_extents_comparison, _transpose_hierarchy of either direction, and '
        'ConceptLattice(...).children_dict / parents_dict of a lattice built from a children dict, a parents dict or lazily; '
        'further variants of the construction routines: the list handed over as a tuple, concepts taken from '
        'close_by_one_objectwise / lindig_algorithm, single-concept lists, tables with 13-14 objects (two-digit indexes); '
        'every routine must leave the list it was given untouched '
        '(also lists whose greatest/least is not the lattice top/bottom, so that the new-top / new-bottom branches run); '
        'is_concepts_sorted=True only on linear extensions of the order; then seeded random pruned lists up to 30 concepts '
        'from 6x6 tables (14x8 in the thorough tier). '
        'Listing orders of lists of more than 5 concepts also include two that LOOK sorted (H7): greatest first and least last '
        'around a shuffled inner part, and size-sorted except for one swapped pair of comparable neighbours. '
        'Size-gated paths (H8), directed and deterministic, concepts built directly from extents of a stated context (every '
        'extent checked to be closed in it), `extent_i` listed ascending / descending / shuffled: '
        '(a) sizegate-objects: 64/65, 128/129, 256/257 objects (512..1025 in the thorough tier), an 11-concept list that is '
        'not intersection-closed in which the two highest objects alone decide inclusions ({0,h} is not below {0,1,2} but is '
        'once h is dropped; {0,1,2} < {0,1,2,h2}; {1,h} and {1,h2} coincide without them), every routine incl. n_jobs 2/3/5, '
        'construct_spanning_tree -> _get_chains -> construct_lattice_from_spanning_tree(_parallel) called one by one (fst), '
        'add/remove of every kind, and order_extents_comparison on the intersection closure; '
        '(b) sizegate-mid: exactly 64, 65, 128, 129 concepts: pruned Boolean lattice 2^7 / 2^8, antichain of two-object '
        'extents, disjoint chains with cross concepts (none intersection-closed) and a chain (complete: also '
        'order_extents_comparison), models run; (c) sizegate-big: 999, 1000, 1001, 1004 concepts pruned from the 1024-concept '
        'contranominal 10x10 lattice (the complete one for order_extents_comparison), 8 disjoint 124-chains + 12 cross concepts '
        '(1006 concepts, 992 objects), an antichain of 1000 and a chain of 1001 concepts (1000 objects), complete_comparison '
        '(n_jobs 1-3, both flags), spanning-tree routines (n_jobs 8 once, on a list with few chains), tree+chains, add/remove '
        'in both inplace modes, relation from the oracle or from the routines themselves; judged by the bit-set oracle '
        'Spec.Fast (proved EQUAL to Spec.covers: fast_oracle_exact), models not run above 200 concepts. '
        'non-trivial = at least one concept strictly between top and bottom; '
        'distinct = distinct (extent list, routine, flags)')
EXHAUSTIVE = {
    'quick': 'all tables n,m<=3 (64 distinct concept sets, 367 sub-lists keeping top and bottom, 10420 (list, order) pairs) x '
             '{complete_comparison, spanning tree} x sorted flag where admissible; add/remove on every candidate concept; '
             'plus the directed threshold cases 64/65, 128/129, 256/257 objects and 64/65, 128/129, 999-1004 concepts',
    'thorough': 'all tables n*m<=12, n,m<=4 (591 concept sets, 6510 sub-lists, 234862 (list, order) pairs); n_jobs>1 runs are '
                'repeated under sys.setswitchinterval in {1e-6, 1e-5, 1e-3}'}
EXPLANATION = ('the children dictionary is pinned uniquely by the property (sets compared as sorted lists), so implementation != '
               'Spec.covers is a property failure; Fca.C12.* prove model = Spec.covers for all inputs: complete_comparison (both '
               'flags), spanning tree + chains + chain sweep + final reduction (sequential and batched-parallel for every scan '
               'order of a batch), the add/remove helpers, and the index translation of order_extents_comparison; the driver '
               'additionally evaluates the sweep model under several set-iteration orders and batch schedules (variants_agree) '
               'and applies the Lean chain checker to the implementation\'s own tree and chains; pruned_list_covers: every '
               'sub-list keeping the greatest concept inherits the hypotheses (no closure under intersection is assumed), '
               'result_depends_on_extents_as_sets: the order in which a concept lists its objects is irrelevant; the driver '
               'evaluates spec and models through tabulated forms proved equal to the definitions (fast_oracle_exact, '
               'models_at_fast_lt) and cross-checks both evaluations on every list of <= 12 concepts')
ASSUMPTIONS = ['add_concept / remove_concept with inplace=False leave the caller\'s list and relation dictionaries unchanged; with '
               'inplace=True the passed objects hold the result (checked on the real code, not part of the Lean theorems: the model is pure)',
               'the concepts of a list come from one context, are pairwise different, and extents are duplicate-free',
               'the list contains a greatest and a least concept (only complete_comparison is also run without)',
               'is_concepts_sorted=True is only used on lists in which every strict superconcept precedes its subconcepts',
               'n_jobs >= 1',
               'directed large cases: the concepts are FormalConcept objects built from extents and the intents computed from '
               'the stated attribute extents (context_hash None, as for concepts read from a file); every extent is checked to '
               'be closed in that context',
               'add_concept: the new concept is not in the list and the enlarged list still has a greatest and a least concept; '
               'remove_concept: the reduced list still has them; both are given the correct cover relation']
TRUSTED = ['joblib: Parallel returns results in submission order; threading backend joins a batch before the next starts',
           'thread interleavings below the granularity of one iterate_chain call are not modelled (GIL-level races are only '
           'probed by the setswitchinterval sweep)',
           'caspailleur.order (topological_sorting / sort_intents_inclusion / inverse_order) is modelled by its contract',
           'CPython iterates a set of ints < 8 in ascending order (used only for the tree-equality diagnostic)',
           'lists of more than 200 concepts: only the specification is evaluated in Lean (model = spec is the theorem); the '
           'implementation-side time guard is 120 s CPU there']
CHUNK = 250
REQUESTS_NEED_IMPL = True


# ---------------------------------------------------------------------------------------------------
# implementation side
# ---------------------------------------------------------------------------------------------------

MINERS = ('cbo', 'objectwise', 'lindig')


@functools.lru_cache(maxsize=512)
def _mined(rows_key, miner='cbo'):
    """{sorted extent tuple: FormalConcept} of the concepts mined from the table (close_by_one by default; the other
    miners — whose concepts may list their extent in another order — only when they find the same extents: whether they
    do is the business of C02, not of this check)."""
    from fcapy.context import FormalContext
    from fcapy.algorithms import concept_construction as cca
    K = FormalContext(data=[[bool(v) for v in r] for r in rows_key])
    base = {tuple(sorted(int(g) for g in c.extent_i)): c for c in cca.close_by_one(K)}
    if miner == 'cbo':
        return base
    try:
        f = {'objectwise': cca.close_by_one_objectwise, 'lindig': cca.lindig_algorithm}[miner]
        alt = {tuple(sorted(int(g) for g in c.extent_i)): c for c in f(K)}
    except Exception:
        return base
    return alt if set(alt) == set(base) else base


def mined(rows, miner='cbo'):
    return _mined(tuple(tuple(r) for r in rows), miner)


def _mask(e):
    m = 0
    for g in e:
        m |= 1 << g
    return m


class NotAConcept(Exception):
    pass


@functools.lru_cache(maxsize=4)
def _direct(exts_key, cols_key, extra_key, nobj):
    """FormalConcepts built directly from extents (the large directed cases: mining a 1000-object context is not what is
    under test here).  `exts_key`: the listed extents, each in the order in which `extent_i` shall list the objects (not
    necessarily ascending); `extra_key`: candidates of add_concept; the context has `nobj` objects and the attribute
    extents `cols_key` — or, for 'self', one attribute per listed / candidate extent, so that every one of them is an
    attribute extent, hence closed.  Every intent is computed from the columns, and every extent is checked to be the
    intersection of the columns of its intent (a genuine concept of that context)."""
    from fcapy.lattice.formal_concept import FormalConcept
    fam = list(exts_key) + list(extra_key)
    cm = [_mask(col) for col in (fam if cols_key == 'self' else cols_key)]
    full = (1 << nobj) - 1
    out = []
    for e in fam:
        m = _mask(e)
        if len(set(e)) != len(e) or m > full:
            raise NotAConcept(f'bad extent {e[:8]}...')
        it = tuple(j for j, cmj in enumerate(cm) if m & ~cmj == 0)
        closure = full
        for j in it:
            closure &= cm[j]
        if closure != m:
            raise NotAConcept(f'extent {e[:8]}... is not closed in the context of the case')
        out.append(FormalConcept(tuple(e), tuple('g%d' % g for g in e), it, tuple('m%d' % j for j in it)))
    return tuple(out[:len(exts_key)]), {tuple(sorted(e)): x for e, x in zip(extra_key, out[len(exts_key):])}


def _direct_of(c):
    extra = []
    if c['routine'] == 'add':
        extra = [c['new']] + list(c.get('more', []))
    elif c['routine'] == 'hist':
        extra = [st[1] for st in c['steps'] if st[0] == 'add']
    cols = c['cols'] if c['cols'] == 'self' else tuple(tuple(col) for col in c['cols'])
    return _direct(tuple(tuple(e) for e in c['exts']), cols, tuple(tuple(e) for e in extra), c['nobj'])


def concept_list(c):
    if 'cols' in c:
        return list(_direct_of(c)[0])
    m = mined(c['rows'], c.get('miner', 'cbo'))
    return [m[tuple(e)] for e in c['exts']]


def candidate_concept(c, cand):
    """the concept object handed to add_concept for the candidate extent `cand`"""
    if 'cols' in c:
        return _direct_of(c)[1][tuple(sorted(cand))]
    return mined(c['rows'], c.get('miner', 'cbo'))[tuple(cand)]


def real_exts(c):
    """the extents in the order in which the concepts themselves list them (`extent_i`; the sort key reads that)"""
    return [[int(g) for g in x.extent_i] for x in concept_list(c)]


def canon_dict(d, n):
    """{i: set} -> list indexed by i of sorted int lists; anything else is reported verbatim."""
    if not isinstance(d, dict) or sorted(int(k) for k in d) != list(range(n)):
        return {'bad_keys': sorted(int(k) for k in d)} if isinstance(d, dict) else {'bad_type': type(d).__name__}
    return [sorted(int(x) for x in d[i]) for i in range(n)]


def py_covers(exts):
    """(lower covers, upper covers) of every index — only used to PREPARE the relation handed to add_concept /
    remove_concept (the Lean oracle re-checks it: `in_ok` / `base` replies).  Lists of more than 64 concepts: the same by
    Python big-integer bit sets (definition-shaped code is cubic)."""
    n = len(exts)
    if n <= 64:
        S = [frozenset(e) for e in exts]
        low = [[j for j in range(n) if S[j] < S[i]] for i in range(n)]
        sub = [[j for j in low[i] if not any(S[j] < S[k] for k in low[i])] for i in range(n)]
    else:
        M = [_mask(e) for e in exts]
        low = [[j for j in range(n) if M[j] != mi and M[j] & ~mi == 0] for mi in M]
        rows = [_mask(lo) for lo in low]
        sub = []
        for lo in low:
            u = 0
            for k in lo:
                u |= rows[k]
            sub.append([j for j in lo if not (u >> j) & 1])
    sup = [[] for _ in range(n)]
    for i in range(n):
        for j in sub[i]:
            sup[j].append(i)
    return sub, sup


def top_bottom(exts):
    M = [_mask(e) for e in exts]
    r = range(len(M))
    t = [i for i in r if all(j == i or (M[j] != M[i] and M[j] & ~M[i] == 0) for j in r)]
    b = [i for i in r if all(j == i or (M[j] != M[i] and M[i] & ~M[j] == 0) for j in r)]
    return (t[0] if t else None), (b[0] if b else None)


# How the relation handed to add_concept / remove_concept is represented and where it comes from.  The helpers accept
# any {index: collection} dictionaries; the library itself hands around set- and frozenset-valued ones, filled in
# ascending (complete_comparison, children_dict), descending / arbitrary (order_extents_comparison,
# _transpose_hierarchy) key order.
ORACLE_RELS = [dict(src='oracle', val=v, keys=k) for v in ('set', 'frozenset') for k in ('asc', 'desc', 'shuf')] + \
              [dict(src='oracle', val='set', keys='asc-desc'), dict(src='oracle', val='frozenset', keys='desc-asc')]
PIPE_RELS = [dict(src=x) for x in ('cc', 'st', 'transpose', 'transpose-sub', 'lattice', 'lattice-parents',
                                   'lattice-lazy', 'oe')]
ALL_RELS = ORACLE_RELS + PIPE_RELS


class PipelineError(Exception):
    pass


def alias_report(dicts, inputs=()):
    """structural check of returned relation dictionaries (H2/H5, aliasing BETWEEN entries of one container): no two
    entries (of one dictionary, or of the children and the parents dictionary together) may be the SAME mutable set
    object, and with inplace=False none may be an object of the caller's dictionaries (`is`, all objects alive)"""
    seen, out = {}, []
    for name, d in dicts:
        if not isinstance(d, dict):
            continue
        for k, v in d.items():
            if not isinstance(v, (set, list)):
                continue
            if id(v) in seen:
                out.append(f'{name}[{k}] is {seen[id(v)]}')
            else:
                seen[id(v)] = f'{name}[{k}]'
    for name, d in inputs:
        if isinstance(d, dict):
            for k, v in d.items():
                if isinstance(v, (set, list)) and id(v) in seen:
                    out.append(f'returned {seen[id(v)]} is the caller\'s {name}[{k}]')
    return out[:6]


def _ordered(d, how, kseed, second=False):
    keys = sorted(d)
    if how in ('asc-desc', 'desc-asc'):
        how = how.split('-')[1 if second else 0]
    if how == 'desc':
        keys = keys[::-1]
    elif how == 'shuf':
        random.Random(kseed * 2 + int(second)).shuffle(keys)
    return {k: d[k] for k in keys}


def build_relation(c, cs):
    """(subconcepts_dict, superconcepts_dict) for the list `cs` in the representation asked for by c['rel']"""
    import fcapy.algorithms.lattice_construction as lca
    from fcapy.lattice import ConceptLattice
    rel = c.get('rel') or dict(src='oracle', val='set', keys='asc')
    sub, sup = py_covers(c['exts'])
    osub = {i: set(x) for i, x in enumerate(sub)}
    osup = {i: set(x) for i, x in enumerate(sup)}
    src = rel['src']
    if src == 'oracle':
        conv = frozenset if rel['val'] == 'frozenset' else set
        subd = _ordered({i: conv(x) for i, x in osub.items()}, rel['keys'], rel.get('kseed', 0))
        supd = _ordered({i: conv(x) for i, x in osup.items()}, rel['keys'], rel.get('kseed', 0), second=True)
    elif src in ('cc', 'st', 'oe'):
        f = {'cc': lca.complete_comparison, 'st': lca.construct_lattice_by_spanning_tree,
             'oe': lca.order_extents_comparison}[src]
        subd = f(list(cs))
        supd = {i: set() for i in subd}          # transposed in the key order of the routine's own output
        for i, xs in subd.items():
            for x in xs:
                supd[x].add(i)
    elif src == 'transpose':
        subd = osub
        supd = ConceptLattice._transpose_hierarchy(osub)
    elif src == 'transpose-sub':
        supd = osup
        subd = ConceptLattice._transpose_hierarchy(osup)
    elif src in ('lattice', 'lattice-parents', 'lattice-lazy'):
        kw = {'lattice': dict(children_dict=osub), 'lattice-parents': dict(parents_dict=osup), 'lattice-lazy': {}}[src]
        L = ConceptLattice(list(cs), **kw)
        subd, supd = L.children_dict, L.parents_dict
    else:
        raise ValueError(src)
    n = len(cs)
    if canon_dict(subd, n) != [sorted(x) for x in sub] or canon_dict(supd, n) != [sorted(x) for x in sup]:
        raise PipelineError(f'{src}: children {canon_dict(subd, n)} parents {canon_dict(supd, n)}')
    return subd, supd


# A routine that loops for ever (e.g. a cyclic parent relation walked by `_get_chains` in a mutated tree) is cut off:
# the limit is on the CPU time of the process (robust against a loaded machine: a wall-clock limit of 5 s produced
# transient false alarms when 16 workers and other jobs shared the cores), with a generous wall-clock backstop.
IMPL_CPU_LIMIT_S = 6.0
IMPL_WALL_LIMIT_S = 120.0


class ImplTimeout(Exception):
    pass


def _on_alarm(signum, frame):
    raise ImplTimeout()


def impl_hist(c, cs, lca):
    """chained history: the OUTPUT (list, both dictionaries, top and bottom index) of one add_concept / remove_concept
    call is the input of the next one"""
    sub, sup = py_covers(c['exts'])
    subd = {i: set(x) for i, x in enumerate(sub)}
    supd = {i: set(x) for i, x in enumerate(sup)}
    t, b = top_bottom(c['exts']) if c['passtb'] else (None, None)
    cur = list(cs)
    steps = []
    for (kind, arg), inp in zip(c['steps'], c['inplace']):
        prev = [('children', subd), ('parents', supd)]
        try:
            if kind == 'add':
                out = lca.add_concept(candidate_concept(c, arg), cur, subd, supd, t, b, inplace=bool(inp))
            else:
                out = lca.remove_concept(arg, cur, subd, supd, t, b, inplace=bool(inp))
            cur, subd, supd, t, b = out
            m = len(cur)
            res = {'ok': {'exts': [sorted(int(g) for g in x.extent_i) for x in cur], 'sub': canon_dict(subd, m),
                          'sup': canon_dict(supd, m), 'top': None if t is None else int(t),
                          'bot': None if b is None else int(b)}}
            al = alias_report([('children', subd), ('parents', supd)], () if inp else prev)
            if al:
                res['alias'] = al
        except ImplTimeout:
            raise
        except Exception as e:
            res = {'err': exc_name(e)}
        steps.append(res)
        if 'err' in res:
            break
    return {'steps': steps}


def hist_lists(c):
    """the concept lists (as extents) after each step of a chained history"""
    cur, out = list(c['exts']), []
    for kind, arg in c['steps']:
        cur = cur + [arg] if kind == 'add' else cur[:arg] + cur[arg + 1:]
        out.append(cur)
    return out


def impl(c):
    import fcapy.algorithms.lattice_construction as lca
    from fcapy.lattice import ConceptLattice
    if c.get('big') and sys.gettrace() is not None:
        # the runner re-executes a sample of the cases under a line tracer for its coverage diagnostic; the 1000-concept
        # cases enter no function that the small ones do not, and would take minutes when traced
        return {'skipped': 'large case under a tracer'}
    try:
        cs = concept_list(c)
    except NotAConcept as e:
        return {'not_a_concept': str(e)}
    n = len(cs)
    r = c['routine']
    old = sys.getswitchinterval()
    old_handler = signal.signal(signal.SIGALRM, _on_alarm)
    old_prof = signal.signal(signal.SIGPROF, _on_alarm)
    signal.setitimer(signal.ITIMER_REAL, IMPL_WALL_LIMIT_S * (5 if c.get('big') else 1))
    signal.setitimer(signal.ITIMER_PROF, IMPL_CPU_LIMIT_S * (20 if c.get('big') else 1))
    try:
        if c.get('swi'):
            sys.setswitchinterval(c['swi'])
        if r in ('cc', 'st', 'fst', 'tree', 'oe'):
            arg = tuple(cs) if c.get('ctype') == 'tuple' else cs
            raw = []
            if r == 'cc':
                raw = [('children', lca.complete_comparison(arg, is_concepts_sorted=c['sorted'], n_jobs=c['njobs']))]
                res = canon_dict(raw[0][1], n)
            elif r == 'st':
                raw = [('children', lca.construct_lattice_by_spanning_tree(arg, is_concepts_sorted=c['sorted'],
                                                                           n_jobs=c['njobs']))]
                res = canon_dict(raw[0][1], n)
            elif r == 'fst':
                # the three stages called one by one, as `construct_lattice_by_spanning_tree` chains them
                _, sup = lca.construct_spanning_tree(arg, is_concepts_sorted=c['sorted'])
                chains = ConceptLattice._get_chains(arg, sup, is_concepts_sorted=c['sorted'])
                if c['njobs'] == 1:
                    d = lca.construct_lattice_from_spanning_tree(arg, chains, is_concepts_sorted=c['sorted'])
                else:
                    d = lca.construct_lattice_from_spanning_tree_parallel(arg, chains, is_concepts_sorted=c['sorted'],
                                                                          n_jobs=c['njobs'])
                raw = [('children', d)]
                res = canon_dict(d, n)
            elif r == 'tree':
                sub, sup = lca.construct_spanning_tree(arg, is_concepts_sorted=c['sorted'])
                raw = [('tree children', sub), ('tree parents', sup)]
                chains = ConceptLattice._get_chains(arg, sup, is_concepts_sorted=c['sorted'])
                res = {'sub': canon_dict(sub, n), 'sup': canon_dict(sup, n),
                       'chains': [[int(x) for x in ch] for ch in chains]}
            else:
                raw = [('children', lca.order_extents_comparison(arg))]
                res = canon_dict(raw[0][1], n)
            # the routines only read the list they are given
            intact = len(arg) == n and all(a is b for a, b in zip(arg, concept_list(c)))
            out = {'ok': res, 'input_intact': intact}
            al = alias_report(raw)
            if al:
                out['alias'] = al
            return out
        if r == 'hist':
            return impl_hist(c, cs, lca)
        # add / remove: a history on ONE base (list + relation): the first candidate, and with inplace=False the
        # further candidates `more` are tried against the very same objects, which must stay intact.
        try:
            subd, supd = build_relation(c, cs)
        except PipelineError as e:
            return {'pipeline': str(e)[:400]}
        t, b = top_bottom(c['exts']) if c['passtb'] else (None, None)
        snap = ([sorted(int(g) for g in x.extent_i) for x in cs], canon_dict(subd, n), canon_dict(supd, n))
        cands = [c['new'] if r == 'add' else c['ci']] + (list(c.get('more', [])) if not c['inplace'] else [])
        calls = []
        for cand in cands:
            try:
                if r == 'add':
                    out = lca.add_concept(candidate_concept(c, cand), cs, subd, supd, t, b,
                                          inplace=c['inplace'])
                    m = n + 1
                else:
                    out = lca.remove_concept(cand, cs, subd, supd, t, b, inplace=c['inplace'])
                    m = n - 1
                cs2, sub2, sup2, t2, b2 = out
                al = alias_report([('children', sub2), ('parents', sup2)],
                                  () if c['inplace'] else [('children', subd), ('parents', supd)])
                res = {'ok': {'exts': [sorted(int(g) for g in x.extent_i) for x in cs2],
                              'sub': canon_dict(sub2, m), 'sup': canon_dict(sup2, m),
                              'top': None if t2 is None else int(t2), 'bot': None if b2 is None else int(b2)}}
                if al:
                    res['alias'] = al
            except ImplTimeout:
                raise
            except Exception as e:
                res = {'err': exc_name(e)}
                m = n
            now = ([sorted(int(g) for g in x.extent_i) for x in cs], canon_dict(subd, len(cs)), canon_dict(supd, len(cs)))
            if c['inplace']:
                # the objects that were passed in must now hold the result
                res['passed_hold_result'] = 'ok' in res and now == (res['ok']['exts'], res['ok']['sub'], res['ok']['sup'])
            else:
                res['base_intact'] = now == snap
                if not res['base_intact']:
                    res['base_now'] = dict(exts=now[0], sub=now[1], sup=now[2])
            calls.append(res)
        return {'calls': calls}
    except Exception as e:
        return {'err': exc_name(e)}
    finally:
        signal.setitimer(signal.ITIMER_PROF, 0)
        signal.setitimer(signal.ITIMER_REAL, 0)
        signal.signal(signal.SIGPROF, old_prof)
        signal.signal(signal.SIGALRM, old_handler)
        sys.setswitchinterval(old)


def id_to_topo(exts):
    """what caspailleur.order.topological_sorting returns as the index map for these extents"""
    n = len(exts)
    order = sorted(range(n), key=lambda i: (len(exts[i]), tuple(sorted(exts[i]))))
    pos = {i: k for k, i in enumerate(order)}
    return [pos[i] for i in range(n)]


def cand_list(c):
    return [c['new'] if c['routine'] == 'add' else c['ci']] + (list(c.get('more', [])) if not c['inplace'] else [])


def requests_big(c, io):
    """1000-concept lists: only the specification is evaluated (bit-set oracle `Spec.Fast`, proved EQUAL to `Spec.covers`:
    Fca.C12.fast_oracle_exact); the models are not run (model = spec is a theorem; the models walk Lean lists)."""
    r = c['routine']
    if r in ('cc', 'st', 'fst', 'oe'):
        return [dict(op='C12.covers_fast', cs=real_exts(c))]
    if r == 'tree':
        ok = io.get('ok') if isinstance(io, dict) else None
        good = isinstance(ok, dict) and isinstance(ok.get('sup'), list) and isinstance(ok.get('sub'), list)
        return [dict(op='C12.tree_check', cs=real_exts(c), implSup=ok['sup'] if good else [],
                     implChains=ok['chains'] if good else [])]
    # (the relation prepared by the harness for the helper is re-checked by the oracle, except where the list alone is 2 MB)
    out = [dict(op='C12.covers_fast', cs=c['exts'] if sum(map(len, c['exts'])) < 200000 else [])]
    for cand in cand_list(c):
        res = c['exts'] + [cand] if r == 'add' else [e for i, e in enumerate(c['exts']) if i != cand]
        out.append(dict(op='C12.covers_fast', cs=res))
    return out


def requests(c, io):
    if c['routine'] == 'hist':
        return [dict(op='C12.covers_fast', cs=x) for x in [c['exts']] + hist_lists(c)]
    if c.get('big'):
        return requests_big(c, io)
    r = c['routine']
    if r in ('cc', 'st', 'fst'):
        q = dict(op='C12.' + ('cc' if r == 'cc' else 'st'), cs=real_exts(c), sorted=c['sorted'], njobs=c['njobs'], ord='asc')
        if len(c['exts']) >= 64 and r != 'cc':
            q['novariants'] = True      # the other set orders / schedules of the model are evaluated on the small lists
        return [q]
    if r == 'tree':
        ok = io.get('ok') if isinstance(io, dict) else None
        good = isinstance(ok, dict) and isinstance(ok.get('sup'), list) and isinstance(ok.get('sub'), list)
        return [dict(op='C12.tree', cs=real_exts(c), sorted=c['sorted'], ord='asc',
                     implSup=ok['sup'] if good else [], implChains=ok['chains'] if good else [])]
    if r == 'oe':
        return [dict(op='C12.oe', cs=c['exts'], idToTopo=id_to_topo(c['exts']))]
    sub, sup = py_covers(c['exts'])
    t, b = top_bottom(c['exts']) if c['passtb'] else (None, None)
    base = dict(cs=c['exts'], sub=sub, sup=sup, top=t, bot=b, ord='asc')
    cands = [c['new'] if r == 'add' else c['ci']] + (list(c.get('more', [])) if not c['inplace'] else [])
    if r == 'add':
        return [dict(op='C12.add', new=cand, **base) for cand in cands]
    return [dict(op='C12.rem', ci=cand, **base) for cand in cands]


def alias_found(io):
    if not isinstance(io, dict):
        return []
    out = list(io.get('alias', []))
    for x in list(io.get('calls', [])) + list(io.get('steps', [])):
        if isinstance(x, dict):
            out += x.get('alias', [])
    return out


def judge_hist(c, io, rep):
    if 'not_a_concept' in io:
        return dict(ok=False, kind='harness', detail='generated case is not a list of concepts: ' + io['not_a_concept'])
    if 'steps' not in io:
        return dict(ok=False, kind='property', detail=f'chained history raised {str(io)[:300]}')
    base = rep[0]['spec']
    sub0, sup0 = py_covers(c['exts'])
    if [sorted(x) for x in sub0] != base['sub'] or [sorted(x) for x in sup0] != base['sup']:
        return dict(ok=False, kind='harness', detail='relation prepared for the first step is not the cover relation of the base')
    lists = hist_lists(c)
    for k, (st, inp, lst, q) in enumerate(zip(c['steps'], c['inplace'], lists, rep[1:])):
        where = (f'history {c["steps"]} (inplace={c["inplace"]}) on {c["exts"]}: step {k + 1} = {st[0]}({st[1]}) applied to the '
                 f'OUTPUT of step {k}' if k else f'history {c["steps"]} (inplace={c["inplace"]}) on {c["exts"]}: step 1 = '
                 f'{st[0]}({st[1]})')
        if k >= len(io['steps']):
            return dict(ok=False, kind='harness', detail='history length mismatch')
        res = io['steps'][k]
        spec = q['spec']
        want = dict(exts=[sorted(e) for e in lst], sub=spec['sub'], sup=spec['sup'], top=spec['top'], bot=spec['bot'])
        if res.get('ok') != want:
            shown = {kk: vv for kk, vv in res.items() if kk in ('ok', 'err')}
            return dict(ok=False, kind='property', detail=f'{where} returned {shown}, expected {want}')
    return dict(ok=True)


def judge(c, io, rep):
    v = _judge(c, io, rep)
    if v.get('ok') and alias_found(io) and c.get('stream') != 'malformed':
        v = dict(ok=False, kind='correspondence',
                 detail=f'{c["routine"]}: entries of the returned relation share one mutable object: {alias_found(io)[:4]} '
                        '(values are right; a later in-place update of one entry would change the other)')
    log = os.environ.get('C12_DEBUG_LOG')
    if log and not v.get('ok'):
        import json
        with open(log, 'a') as f:
            f.write(json.dumps(dict(case=c, io=io, verdict=v, pid=os.getpid())) + '\n')
    return v


def diff_summary(got, want, exts, k=3):
    """the first few indexes at which two relation lists differ (the full dictionaries of a 1000-concept list are not
    printed)"""
    if not isinstance(got, list) or len(got) != len(want):
        return f'{str(got)[:200]} (expected one entry per concept, {len(want)})'
    bad = [i for i in range(len(want)) if got[i] != want[i]]
    show = '; '.join(f'concept #{i} (extent {sorted(exts[i])[:12]}{"..." if len(exts[i]) > 12 else ""}): returned '
                     f'{got[i][:12]}, lower covers are {want[i][:12]}' for i in bad[:k])
    return f'{len(bad)} of {len(want)} concepts differ, e.g. {show}'


def judge_big(c, io, rep):
    r = c['routine']
    n = len(c['exts'])
    flags = f'{r}(sorted={c.get("sorted")}, n_jobs={c.get("njobs")}) on {n} concepts over {c["nobj"]} objects ({c.get("fam")})'
    if 'not_a_concept' in io:
        return dict(ok=False, kind='harness', detail='generated case is not a list of concepts: ' + io['not_a_concept'])
    if 'input_intact' in io:
        if not io['input_intact']:
            return dict(ok=False, kind='property', detail=f'{flags} modified the concept list it was given')
        io = {k: v for k, v in io.items() if k not in ('input_intact', 'alias')}
    if r in ('cc', 'st', 'fst', 'oe'):
        want = rep[0]['spec']['sub']
        if io.get('ok') != want:
            what = diff_summary(io['ok'], want, c['exts']) if 'ok' in io else str(io)[:300]
            return dict(ok=False, kind='property', detail=f'{flags}: {what}')
        return dict(ok=True)
    if r == 'tree':
        if 'ok' not in io:
            return dict(ok=False, kind='correspondence', detail=f'{flags}: {str(io)[:300]}')
        ok = io['ok']
        sup, sub = ok['sup'], ok['sub']
        if not (isinstance(sup, list) and isinstance(sub, list)) or \
                any(sorted(i for i in range(n) if sup[i] == [p]) != sub[p] for p in range(n)):
            return dict(ok=False, kind='correspondence', detail=f'{flags}: children / parent dictionaries of the tree disagree')
        if not rep[0]['impl_chains_ok']:
            return dict(ok=False, kind='correspondence',
                        detail=f'{flags}: chains/tree of the implementation violate the chain property')
        return dict(ok=True)
    # add / rem
    if 'pipeline' in io:
        return dict(ok=False, kind='property',
                    detail=f'{flags}: the relation produced for the helper by {c.get("rel")} is not the cover relation of '
                           f'the list: {io["pipeline"]}')
    if 'calls' not in io:
        return dict(ok=False, kind='property', detail=f'{flags} raised {str(io)[:300]}')
    base = rep[0]['spec']
    sub0, sup0 = py_covers(c['exts'])
    t0, b0 = top_bottom(c['exts'])
    if len(base['sub']) == n and ([sorted(x) for x in sub0] != base['sub'] or [sorted(x) for x in sup0] != base['sup']
                                  or (t0, b0) != (base['top'], base['bot'])):
        return dict(ok=False, kind='harness', detail='relation prepared for the helper is not the cover relation of the base')
    cands = cand_list(c)
    if len(io['calls']) != len(cands):
        return dict(ok=False, kind='harness', detail='history length mismatch')
    for k, (cand, res, q) in enumerate(zip(cands, io['calls'], rep[1:])):
        spec = q['spec']
        if r == 'add':
            want_exts = [sorted(e) for e in c['exts']] + [sorted(cand)]
        else:
            want_exts = [sorted(e) for i, e in enumerate(c['exts']) if i != cand]
        where = f'{flags}: {r}({str(cand)[:60]}, inplace={c["inplace"]}, relation={c.get("rel", "oracle sets")}), call {k + 1}'
        got = res.get('ok')
        if not isinstance(got, dict):
            return dict(ok=False, kind='property', detail=f'{where} returned {str(res)[:200]}')
        if got['exts'] != want_exts:
            return dict(ok=False, kind='property', detail=f'{where}: wrong concept list returned')
        for fld, name in (('sub', 'children'), ('sup', 'parents')):
            if got[fld] != spec[fld]:
                return dict(ok=False, kind='property',
                            detail=f'{where}: {name}: {diff_summary(got[fld], spec[fld], want_exts)}')
        if (got['top'], got['bot']) != (spec['top'], spec['bot']):
            return dict(ok=False, kind='property', detail=f'{where}: top/bottom {got["top"]}/{got["bot"]}, expected '
                                                          f'{spec["top"]}/{spec["bot"]}')
        if c['inplace'] and not res.get('passed_hold_result'):
            return dict(ok=False, kind='property',
                        detail=f'{where}: the list / dictionaries passed in do not hold the returned result afterwards')
        if not c['inplace'] and not res.get('base_intact'):
            return dict(ok=False, kind='property',
                        detail=f'{where}: the caller\'s concepts / relation were modified although inplace=False')
    return dict(ok=True)


def _judge(c, io, rep):
    if c['routine'] == 'hist':
        return judge_hist(c, io, rep)
    if c.get('big'):
        return judge_big(c, io, rep)
    if isinstance(io, dict) and 'not_a_concept' in io:
        return dict(ok=False, kind='harness', detail='generated case is not a list of concepts: ' + io['not_a_concept'])
    if any(q.get('fast_agrees') is False for q in rep):
        return dict(ok=False, kind='harness', detail='driver: tabulated (Spec.Fast / ...F) and plain evaluation of the spec or '
                                                     'the model disagree (contradicts fast_oracle_exact / models_at_fast_lt)')
    if isinstance(io, dict) and 'input_intact' in io:
        if not io['input_intact']:
            return dict(ok=False, kind='property',
                        detail=f'{c["routine"]} modified the concept list it was given (input is only to be read)')
        io = {k: v for k, v in io.items() if k not in ('input_intact', 'alias')}
    r = c['routine']
    q = rep[0]
    mal = c['stream'] == 'malformed'
    if r in ('cc', 'st', 'fst'):
        want = {'ok': q['spec']}
        model = {'ok': q['model']} if isinstance(q['model'], list) else q['model']
        if mal:     # outside the property's scope: only implementation = model is checked
            if io == model:
                return dict(ok=True)
            return dict(ok=False, kind='correspondence', detail=f'out-of-scope input: implementation {io} model {model}')
        if io != want:
            return dict(ok=False, kind='property',
                        detail=f'{r}(sorted={c["sorted"]}, n_jobs={c["njobs"]}) returned {io}, covers are {q["spec"]}')
        if model != want:
            return dict(ok=False, kind='harness', detail=f'model {model} != spec {q["spec"]} (contradicts a theorem)')
        if r != 'cc' and not q.get('variants_agree', True):
            return dict(ok=False, kind='harness', detail='model depends on set order / batch schedule (contradicts '
                                                         'spanning_tree_parallel_sched_indep)')
        return dict(ok=True)
    if r == 'tree':
        if 'err' in io or 'err' in q.get('model', {}):
            if mal and io.get('err') == q.get('model', {}).get('err'):
                return dict(ok=True)
            return dict(ok=False, kind='correspondence', detail=f'tree: implementation {io} model {q}')
        ok = io['ok']
        if not mal and not q['impl_chains_ok']:
            return dict(ok=False, kind='correspondence',
                        detail=f'chains/tree of the implementation violate the chain property: {ok}')
        if not mal and not q['model_chains_ok']:
            return dict(ok=False, kind='harness', detail=f'model chains violate the chain property: {q}')
        if q['chains_on_impl_tree'] != ok['chains']:
            return dict(ok=False, kind='correspondence',
                        detail=f'_get_chains: implementation {ok["chains"]} model on the same tree {q["chains_on_impl_tree"]}')
        if len(c['exts']) <= 8 and (ok['sub'] != q['sub'] or ok['sup'] != q['sup']):
            return dict(ok=False, kind='correspondence', detail=f'spanning tree: implementation {ok} model {q}')
        return dict(ok=True)
    if r == 'oe':
        if io != {'ok': q['spec']}:
            return dict(ok=False, kind='property', detail=f'order_extents_comparison returned {io}, covers are {q["spec"]}')
        if q['model'] != q['spec'] or q['keys'] != list(range(len(c['exts']))):
            return dict(ok=False, kind='harness', detail=f'model {q["model"]} keys {q["keys"]} != spec {q["spec"]}')
        return dict(ok=True)
    # add / rem: every call of the history is judged against the spec of the SAME base
    if 'pipeline' in io:
        return dict(ok=False, kind='property',
                    detail=f'the relation produced for the helper by {c.get("rel")} is not the cover relation of the list: '
                           f'{io["pipeline"]}')
    if 'calls' not in io:
        return dict(ok=False, kind='property', detail=f'{r} raised {io}')
    cands = [c['new'] if r == 'add' else c['ci']] + (list(c.get('more', [])) if not c['inplace'] else [])
    for k, (cand, res, q) in enumerate(zip(cands, io['calls'], rep)):
        spec = q['spec']
        if r == 'add':
            want_exts = [sorted(e) for e in c['exts']] + [sorted(cand)]
            if not q.get('in_ok', True):
                return dict(ok=False, kind='harness', detail='input relation handed to add_concept is not the cover relation')
        else:
            want_exts = [sorted(e) for i, e in enumerate(c['exts']) if i != cand]
        want = dict(exts=want_exts, sub=spec['sub'], sup=spec['sup'], top=spec['top'], bot=spec['bot'])
        where = f'{r}({cand}, inplace={c["inplace"]}, relation={c.get("rel", "oracle sets")}), call {k + 1} on the same base'
        if res.get('ok') != want:
            shown = {kk: vv for kk, vv in res.items() if kk in ('ok', 'err')}
            return dict(ok=False, kind='property', detail=f'{where} returned {shown}, expected {want}')
        if c['inplace'] and not res.get('passed_hold_result'):
            return dict(ok=False, kind='property',
                        detail=f'{where}: the list / dictionaries passed in do not hold the returned result afterwards')
        if not c['inplace'] and not res.get('base_intact'):
            return dict(ok=False, kind='property',
                        detail=f'{where}: the caller\'s concepts / relation were modified although inplace=False: '
                               f'{res.get("base_now")}')
        m = q['model']
        if 'err' in m or dict(sub=m['sub'], sup=m['sup'], top=m['top'], bot=m['bot']) != spec:
            return dict(ok=False, kind='harness', detail=f'model {m} != spec {spec}')
    if len(io['calls']) != len(cands):
        return dict(ok=False, kind='harness', detail='history length mismatch')
    return dict(ok=True)


# ---------------------------------------------------------------------------------------------------
# generation
# ---------------------------------------------------------------------------------------------------

def is_linear_extension(exts):
    S = [frozenset(e) for e in exts]
    return all(not (S[j] < S[i]) or i < j for i in range(len(S)) for j in range(len(S)))


def has_top_bottom(exts):
    t, b = top_bottom(exts)
    return t is not None and b is not None


def size_sorted(exts):
    return sorted(exts, key=lambda e: (-len(e), e))


def families(tables):
    seen = set()
    for rows in tables:
        exts = sorted(mined(rows).keys(), key=lambda e: (-len(e), e))
        key = (len(rows), tuple(exts))
        if key in seen:
            continue
        seen.add(key)
        yield rows, [list(e) for e in exts]


def orders_of(lst, rng, nshuffle):
    if len(lst) <= 5:
        return [list(p) for p in itertools.permutations(lst)]
    out = [list(lst), list(lst[::-1])]
    # (H7) listings that LOOK sorted: greatest first and least last around a shuffled inner part; size-sorted except for
    # one swapped pair of comparable neighbours
    inner = list(lst[1:-1])
    rng.shuffle(inner)
    for p in (list(lst[:1]) + inner + list(lst[-1:]), listing(lst, rng, 'swap')):
        if p not in out:
            out.append(p)
    for _ in range(nshuffle):
        p = list(lst)
        rng.shuffle(p)
        if p not in out:
            out.append(p)
    # a linear extension that is not size sorted, when there is one: swap adjacent incomparable pairs
    q = list(lst)
    for i in range(1, len(q) - 2):
        a, b = frozenset(q[i]), frozenset(q[i + 1])
        if not (a < b or b < a) and len(a) != len(b):
            q[i], q[i + 1] = q[i + 1], q[i]
    if q not in out and is_linear_extension(q):
        out.append(q)
    return out


def routine_cases(rows, order, stream, par_jobs=(), swis=(None,), tree=True):
    srt_ok = is_linear_extension(order)
    for srt in ((False, True) if srt_ok else (False,)):
        for r in ('cc', 'st'):
            yield dict(stream=stream, rows=rows, exts=order, routine=r, sorted=srt, njobs=1)
            for nj in par_jobs:
                for swi in swis:
                    c = dict(stream=stream, rows=rows, exts=order, routine=r, sorted=srt, njobs=nj)
                    if swi:
                        c['swi'] = swi
                    yield c
        if tree:
            yield dict(stream=stream, rows=rows, exts=order, routine='tree', sorted=srt)


def variant_cases(rows, order, stream, k):
    """the same list handed over as a tuple, and built from the concepts of another miner (extent tuples possibly in
    another order: the sort key of sort_concepts reads them)"""
    srt_ok = is_linear_extension(order)
    for r in ('cc', 'st', 'tree'):
        for srt in ((False, True) if srt_ok else (False,)):
            base = dict(stream=stream, rows=rows, exts=order, routine=r, sorted=srt)
            if r != 'tree':
                base['njobs'] = 1
            yield dict(base, ctype='tuple')
            yield dict(base, miner=MINERS[1 + k % 2])
    if len(order) > 2:
        yield dict(stream=stream, rows=rows, exts=order, routine='st', sorted=False, njobs=2 + k % 2, ctype='tuple',
                   miner=MINERS[1 + (k + 1) % 2])


def addrem_cases(rows, all_exts, order, stream, rng):
    """every admissible add and remove on the list `order` (the list itself has a greatest and a least concept), each in
    both `inplace` modes; the inplace=False case continues with up to two further candidates on the SAME base objects"""
    inlist = {tuple(e) for e in order}
    adds = [new for new in all_exts if tuple(new) not in inlist and has_top_bottom(order + [new])]
    rems = [ci for ci in range(len(order)) if has_top_bottom(order[:ci] + order[ci + 1:])] if len(order) >= 3 else []
    complete = len(inlist) == len(all_exts)
    k = 0
    ri = rng.randrange(len(ALL_RELS))

    def next_rel():
        nonlocal ri
        while True:
            ri += 1
            rel = dict(ALL_RELS[ri % len(ALL_RELS)])
            if rel['src'] == 'oe' and not complete:
                continue
            if rel.get('keys') == 'shuf':
                rel['kseed'] = rng.randrange(1000)
            return rel

    for routine, key, cands in (('add', 'new', adds), ('rem', 'ci', rems)):
        for i, cand in enumerate(cands):
            k += 1
            base = dict(stream=stream, rows=rows, exts=order, routine=routine, passtb=bool(k % 2))
            base[key] = cand
            more = [cands[(i + j) % len(cands)] for j in (1, 2)]
            yield dict(base, inplace=True)                  # plain {i: set} dictionaries in ascending key order
            yield dict(base, inplace=False, more=more)      # the same candidate again is a legitimate second call
            # the same with the relation in the representations the library itself hands around / a caller may build
            yield dict(base, inplace=True, rel=next_rel())
            yield dict(base, inplace=False, more=more[:1], rel=next_rel())
            if len(order) <= 4:
                yield dict(base, inplace=bool(k % 3), passtb=not (k % 2), more=more[:1], rel=next_rel())


def exhaustive(tables, rng, stream, par_all, swis, inner_cap, sample=None):
    nv = 0
    for rows, exts in families(tables):
        if sample is not None and rng.random() >= sample:
            continue
        # a single concept is its own greatest and least element
        for x in exts:
            yield from routine_cases(rows, [x], stream + '-single', (), (None,))
        if len(exts) < 2:
            yield dict(stream=stream + '-single', rows=rows, exts=exts, routine='oe')
            continue
        top, bot, inner = exts[0], exts[-1], exts[1:-1]
        # order_extents_comparison: complete concept sets only
        for oi, order in enumerate(orders_of(exts, rng, 6)):
            yield dict(stream=stream, rows=rows, exts=order, routine='oe')
            if oi % 7 == 0:
                yield dict(stream=stream, rows=rows, exts=order, routine='oe', ctype='tuple', miner=MINERS[1 + oi % 2])
        for k in range(min(len(inner), inner_cap) + 1):
            for sub in itertools.combinations(inner, k):
                lst = [top] + list(sub) + [bot]
                ords = orders_of(lst, rng, 5)
                for oi, order in enumerate(ords):
                    par = ()
                    if order == lst or (oi == (len(ords) * 2) // 3 and len(lst) > 2):
                        par = (2, 3, 5) if (par_all or order == lst) else (2 + (len(lst) + k) % 2,)
                    yield from routine_cases(rows, order, stream, par, swis)
                nv += 1
                yield from variant_cases(rows, lst, stream, nv)
                yield from variant_cases(rows, ords[(len(ords) * 2) // 3], stream, nv + 1)
                # add / remove on the size-sorted listing and on one other order
                for order in (lst, ords[len(ords) // 2]):
                    yield from addrem_cases(rows, exts, order, stream, rng)
        # lists whose greatest / least element is not the lattice top / bottom (new-top / new-bottom branches of add,
        # removal of the top / bottom itself)
        for k in range(1, min(len(exts), inner_cap + 2) + 1):
            for sub in itertools.combinations(exts, k):
                lst = list(sub)
                if len(lst) < 2 or not has_top_bottom(lst) or (lst[0] == top and lst[-1] == bot):
                    continue
                yield from addrem_cases(rows, exts, lst, stream + '-ends', rng)
                yield from addrem_cases(rows, exts, lst[::-1], stream + '-ends', rng)
                yield from routine_cases(rows, lst[::-1], stream + '-ends', (), (None,), tree=True)


def random_cases(rng, count, nmax, mmax, cap, par_p, swis, nmin=2, mmin=2):
    for _ in range(count):
        rows = G.random_table(rng, nmax, mmax, nmin=nmin, mmin=mmin)
        exts = sorted(mined(rows).keys(), key=lambda e: (-len(e), e))
        exts = [list(e) for e in exts]
        if len(exts) < 3:
            continue
        top, bot, inner = exts[0], exts[-1], exts[1:-1]
        keep = rng.random()
        sub = [e for e in inner if rng.random() < keep]
        if len(sub) > cap - 2:
            sub = rng.sample(sub, cap - 2)
            sub.sort(key=lambda e: (-len(e), e))
        lst = [top] + sub + [bot]
        for order in orders_of(lst, rng, 2)[:6] if len(lst) > 5 else [lst, rng.sample(lst, len(lst))]:
            par = ()
            if rng.random() < par_p:
                par = (rng.choice((2, 3, 5)),)
            yield from routine_cases(rows, order, 'random', par, swis if par else (None,))
        yield from variant_cases(rows, lst, 'random', rng.randrange(2))
        yield from itertools.islice(addrem_cases(rows, exts, rng.sample(lst, len(lst)), 'random', rng), 12)
        if len(exts) <= 40:
            yield dict(stream='random', rows=rows, exts=rng.sample(exts, len(exts)), routine='oe')


def malformed(rng, tables):
    """outside the scope of the property: only model = implementation is compared (<= 8 concepts)"""
    for rows, exts in families(tables):
        if not 3 <= len(exts) <= 8:
            continue
        for _ in range(3):
            k = rng.randint(2, len(exts))
            lst = rng.sample(exts, k)
            for srt in (False, True):
                for r in ('cc', 'st', 'tree'):
                    if r != 'cc' and not has_top_bottom(lst) and srt:
                        continue            # the sorted tree walk may not terminate on such input
                    if (not srt and has_top_bottom(lst)) or (srt and is_linear_extension(lst) and has_top_bottom(lst)):
                        continue            # in scope: covered by the other streams
                    c = dict(stream='malformed', rows=rows, exts=lst, routine=r, sorted=srt)
                    if r != 'tree':
                        c['njobs'] = 1
                    yield c


# ---------------------------------------------------------------------------------------------------
# (H8) size-gated code paths: directed deterministic cases across 64/65, 128/129, 256/257 OBJECTS and 64/65, 128/129,
# 999..1004 CONCEPTS, on inputs where an algorithm that is only right for complete (intersection-closed) concept sets,
# for <= 64 / <= 128 objects, for ascending extent tuples or for sorted listings is WRONG.  Concepts are built directly.
# ---------------------------------------------------------------------------------------------------

GADGET = [[0, 1, 2, 3], [0, 1, 2], [0, 1, 3], [0, 2, 3], [1, 2, 3], [0, 1], [1, 2], [1, 3], [2, 3], [0], [1], [2], [3]]
# the 16 subsets of four objects without {0,2}, {0,3} and the empty set: the smallest pruned list (found by enumeration) on
# which the bit-set routine `order_extents_comparison` returns a wrong relation; embedded (on objects of its own) in the
# directed families so that an algorithm which is only right on intersection-closed lists is wrong on them


def fam_objects(n):
    """24 concepts over n objects in which the objects n-1 and n-2 alone decide inclusions: {0,h} is NOT below {0,1,2}
    (but is, once h is dropped), {0,1,2} < {0,1,2,h2} and {0,h} < {0,h,h2} differ by one high object only, {1,h} and
    {1,h2} are different incomparable concepts that coincide without the high objects; plus GADGET on the objects 3..6.
    Not intersection-closed ({0,1,2,h2} & {0,h,h2} = {0,h2} is missing)."""
    h, h2 = n - 1, n - 2
    return [list(range(n)), [0, 1, 2, h2], [0, h, h2], [1, h, h2], [0, 1, 2], [0, h], [1, h2], [1, h], [0], [1]] + \
           [[g + 3 for g in e] for e in GADGET] + [[]]


def close_family(exts):
    """closure under intersection (as sorted lists, largest first)"""
    fam = {frozenset(e) for e in exts}
    work = list(fam)
    while work:
        a = work.pop()
        for b in list(fam):
            x = a & b
            if x not in fam:
                fam.add(x)
                work.append(x)
    return sorted((sorted(e) for e in fam), key=lambda e: (-len(e), e))


def nonclosed_witness(exts):
    """two listed extents whose intersection is not listed (None for an intersection-closed list); early exit"""
    M = [_mask(e) for e in exts]
    have = set(M)
    for a in M:
        for b in M:
            if a & b not in have:
                return a, b
    return None


def fam_boolean(k, m, rng):
    """m of the 2^k concepts of the contranominal k x k context (all subsets of the objects), top and bottom kept; for
    m < 2^k the dropped ones are chosen among the inner levels so that the list is not intersection-closed"""
    allx = [list(x) for r in range(k, -1, -1) for x in itertools.combinations(range(k), r)]
    if m == len(allx):
        return allx
    while True:
        drop = set(rng.sample(range(1, len(allx) - 1), len(allx) - m))
        lst = [e for i, e in enumerate(allx) if i not in drop]
        if nonclosed_witness(lst) is not None:
            return lst


def fam_antichain(m):
    """top, bottom and m-2 pairwise incomparable two-object extents {i, i+1}: no intersection of two of them is listed"""
    w = m - 2
    return [list(range(w))] + [[i, (i + 1) % w] for i in range(w)] + [[]]


def fam_chain(m):
    """a chain of m concepts (complete: order_extents_comparison applies)"""
    return [list(range(k)) for k in range(m - 1, -1, -1)]


def fam_multichain(w, ln, ncross=0):
    """GADGET on the objects 0..3 next to w disjoint chains of `ln` concepts each (chain a: objects 4+a*ln .. 4+a*ln+ln-1)
    between a top and the empty bottom, plus 2*ncross 'cross' concepts E(0,x) | E(1,y), E(0,y) | E(1,x) whose intersections
    are not listed.  Not intersection-closed; the spanning tree has only about w + 6 chains, so the threaded sweep needs
    few batches per concept."""
    def e(a, k):
        return list(range(4 + a * ln, 4 + a * ln + k + 1))
    out = [list(range(4 + w * ln))] + [list(x) for x in GADGET]
    for a in range(w):
        out += [e(a, k) for k in range(ln)]
    for i in range(ncross):
        x, y = 3 * i + 1, 3 * i + 2
        out += [e(0, x) + e(1, y), e(0, y) + e(1, x)]
    out.append([])
    return sorted(out, key=lambda q: (-len(q), q))


def scramble(exts, rng, how):
    """the order in which each concept lists its objects (`extent_i`): ascending, descending or shuffled"""
    if how == 'asc':
        return [sorted(e) for e in exts]
    if how == 'desc':
        return [sorted(e, reverse=True) for e in exts]
    out = []
    for e in exts:
        e = list(e)
        rng.shuffle(e)
        out.append(e)
    return out


def listing(exts, rng, how):
    """listing orders of the concept list (H7: orders that LOOK sorted): size-sorted; shuffled; greatest first and least
    last with the inner part shuffled; size-sorted except that one comparable neighbour pair is swapped; reversed"""
    srt = sorted(exts, key=lambda e: (-len(e), sorted(e)))
    if how == 'sorted':
        return srt
    if how == 'reversed':
        return srt[::-1]
    if how == 'shuffled':
        p = list(srt)
        rng.shuffle(p)
        return p
    if how == 'ends':
        inner = srt[1:-1]
        rng.shuffle(inner)
        return srt[:1] + inner + srt[-1:]
    if how == 'swap':
        p = list(srt)
        cand = [i for i in range(1, len(p) - 2) if set(p[i + 1]) < set(p[i])]
        if cand:
            i = cand[len(cand) // 2]
            p[i], p[i + 1] = p[i + 1], p[i]
        return p
    raise ValueError(how)


def direct_case(stream, fam, nobj, exts, routine, cols='self', **kw):
    c = dict(stream=stream, fam=fam, nobj=nobj, cols=cols, exts=exts, routine=routine, **kw)
    if len(exts) > BIG_FROM:
        c['big'] = True
    return c


BIG_FROM = 200        # lists longer than this are judged by the fast oracle only (no model run)


def direct_routines(stream, fam, nobj, exts, rng, orders, jobs=(2,), cols='self', oe=False, tree=True, fst=True):
    """the construction routines on one family: every listing order in `orders` with the unsorted flag, and the sorted
    flag on the size-sorted listing; `jobs`: job counts of the threaded sweep (every batch of chains costs one pool
    dispatch of about 10 ms per concept: only given for families whose spanning tree has few chains)"""
    for how in orders:
        lst = listing(exts, rng, how)
        f = fam + ':' + how
        kw = dict(cols=cols, sorted=False)
        yield direct_case(stream, f, nobj, lst, 'cc', njobs=1, **kw)
        yield direct_case(stream, f, nobj, lst, 'st', njobs=1, **kw)
        if how == 'shuffled':
            yield direct_case(stream, f, nobj, lst, 'cc', njobs=(jobs or (2,))[0], **kw)
            for nj in jobs:
                yield direct_case(stream, f, nobj, lst, 'fst' if fst else 'st', njobs=nj, **kw)
            if fst:
                yield direct_case(stream, f, nobj, lst, 'fst', njobs=1, **kw)
            if tree:
                yield direct_case(stream, f, nobj, lst, 'tree', cols=cols, sorted=False)
        if how == 'sorted':
            kw = dict(cols=cols, sorted=True)
            yield direct_case(stream, f, nobj, lst, 'cc', njobs=1, **kw)
            yield direct_case(stream, f, nobj, lst, 'st', njobs=1, **kw)
            for nj in jobs[:1] if len(exts) < 100 else ():
                yield direct_case(stream, f, nobj, lst, 'st', njobs=nj, **kw)
            if tree:
                yield direct_case(stream, f, nobj, lst, 'tree', **kw)
        if oe:
            yield direct_case(stream, f, nobj, lst, 'oe', cols=cols)


def direct_addrem(stream, fam, nobj, exts, rng, n_each=1, cols='self', rels=None):
    """add_concept / remove_concept around a list of m = len(exts) concepts, so that the size thresholds are CROSSED by the
    helpers: add number 1, 3, .. holds one inner concept back and adds it in place (m-1 -> m concepts), add number 2, 4, ..
    holds two back and adds either to the same base with inplace=False (m-2 -> m-1); remove_concept takes an inner concept
    out of the full list (m -> m-1); shuffled listings, top/bottom indexes passed or None alternately"""
    srt = sorted(exts, key=lambda e: (-len(e), sorted(e)))
    inner = srt[1:-1]
    k = 0
    for i in range(n_each):
        k += 1
        held = [inner[j] for j in rng.sample(range(len(inner)), min(len(inner), 1 + i % 2))]
        base = [e for e in srt if not any(e is h for h in held)]
        rng.shuffle(base)
        kw = dict(cols=cols, passtb=bool(k % 2), new=held[0], inplace=(i % 2 == 0), more=held[1:])
        if rels:
            kw['rel'] = dict(rels[k % len(rels)])
        yield direct_case(stream, fam + ':add', nobj, base, 'add', **kw)
    full = list(srt)
    rng.shuffle(full)
    idx = [i for i in range(len(full)) if 0 < len(full[i]) < nobj]
    for i, ci in enumerate(rng.sample(idx, min(len(idx), n_each))):
        k += 1
        others = [x for x in idx if x != ci]
        kw = dict(cols=cols, passtb=bool(k % 2), ci=ci, inplace=(i % 2 == 1), more=others[:1] if len(full) <= BIG_FROM else [])
        if rels:
            kw['rel'] = dict(rels[k % len(rels)])
        yield direct_case(stream, fam + ':rem', nobj, full, 'rem', **kw)


def sizegate_objects(rng, sizes):
    """64/65, 128/129, 256/257 objects: 24 concepts, every routine with its model"""
    rels = [r for r in ALL_RELS if r['src'] != 'oe' and r.get('keys') != 'shuf']
    for si, n in enumerate(sizes):
        exts = fam_objects(n)
        assert nonclosed_witness(exts) is not None
        for hi, how in enumerate(('shuf', 'desc', 'asc')):
            if n > 129 and how != 'shuf':
                continue
            e2 = scramble(exts, rng, how)
            fam = f'objects{n}:{how}'
            orders = ('sorted', 'shuffled', 'ends', 'swap') if how == 'shuf' else ('shuffled', 'sorted')[:1 + (si + hi) % 2]
            yield from direct_routines('sizegate-objects', fam, n, e2, rng, orders,
                                       jobs=((2, 3, 5)[si % 3],) if how == 'shuf' else (), fst=(how == 'shuf'))
            yield from direct_addrem('sizegate-objects', fam, n, e2, rng, n_each=3 if how == 'shuf' else 1,
                                     rels=rels[(si + hi) % 3::3])
            if how != 'shuf':
                continue
            full = scramble(close_family(exts), rng, 'shuf')
            assert nonclosed_witness(full) is None
            for lst in (listing(full, rng, 'shuffled'), listing(full, rng, 'sorted')):
                yield direct_case('sizegate-objects', fam + ':closed', n, lst, 'oe')
            yield direct_case('sizegate-objects', fam + ':closed', n, listing(full, rng, 'shuffled'), 'st', sorted=False, njobs=1)
            yield direct_case('sizegate-objects', fam + ':closed', n, listing(full, rng, 'sorted'), 'cc', sorted=True, njobs=1)


MID_MULTICHAIN = {64: (1, 49, 0), 65: (2, 25, 0), 128: (3, 37, 1), 129: (3, 38, 0)}


def sizegate_mid(rng, sizes):
    """64/65, 128/129 concepts (models are still run): a pruned Boolean lattice, an antichain, disjoint chains with cross
    concepts (none of them intersection-closed) and a chain (complete)"""
    for m in sizes:
        k = 7 if m <= 100 else 8
        w, ln, nc = MID_MULTICHAIN[m]
        fams = [(f'boolean{k}/{m}', k, fam_boolean(k, m, rng), [[g for g in range(k) if g != j] for j in range(k)], False, ()),
                (f'antichain{m}', m - 2, fam_antichain(m), 'self', False, ()),
                (f'multichain{w}x{ln}/{m}', 4 + w * ln, fam_multichain(w, ln, nc), 'self', False, (8,)),
                (f'chain{m}', m - 1, fam_chain(m), 'self', True, (2,))]
        for fi, (fam, nobj, exts, cols, closed, par) in enumerate(fams):
            assert len(exts) == m and closed == (nonclosed_witness(exts) is None), fam
            e2 = scramble(exts, rng, 'shuf')
            orders = ('shuffled', 'sorted') + (('ends', 'swap') if m < 100 else ())
            yield from direct_routines('sizegate-mid', fam, nobj, e2, rng, orders, jobs=par, cols=cols, oe=closed,
                                       fst=((m + fi) % 2 == 1))
            yield from direct_addrem('sizegate-mid', fam, nobj, e2, rng, n_each=1, cols=cols)


def sizegate_big(rng):
    """999 .. 1004 concepts, judged by the proved-equal fast oracle"""
    k = 10
    cols = [[g for g in range(k) if g != j] for j in range(k)]
    S = 'sizegate-big'
    for m, plan in ((1000, 'full'), (999, 'st'), (1001, 'st'), (1004, 'cc')):
        exts = scramble(fam_boolean(k, m, rng), rng, 'shuf')
        fam = f'boolean{k}/{m}'
        if plan == 'full':
            # (about 250 chains: the threaded sweep would need 125 000 pool dispatches — it is run on the few-chain families)
            lst = listing(exts, rng, 'shuffled')
            for r, nj in (('cc', 1), ('cc', 2), ('st', 1), ('fst', 1)):
                yield direct_case(S, fam + ':shuffled', k, lst, r, cols=cols, sorted=False, njobs=nj)
            yield direct_case(S, fam + ':shuffled', k, lst, 'tree', cols=cols, sorted=False)
            lst = listing(exts, rng, 'sorted')
            for r, srt in (('cc', True), ('st', True), ('st', False)):
                yield direct_case(S, fam + ':sorted', k, lst, r, cols=cols, sorted=srt, njobs=1)
            yield direct_case(S, fam + ':sorted', k, lst, 'tree', cols=cols, sorted=True)
            yield direct_case(S, fam + ':ends', k, listing(exts, rng, 'ends'), 'st', cols=cols, sorted=False, njobs=1)
            yield direct_case(S, fam + ':swap', k, listing(exts, rng, 'swap'), 'cc', cols=cols, sorted=False, njobs=1)
            yield from direct_addrem(S, fam, k, exts, rng, n_each=2, cols=cols)      # 999 -> 1000, 1000 -> 999, ...
        else:
            lst = listing(exts, rng, 'shuffled' if m != 1001 else 'ends')
            yield direct_case(S, fam, k, lst, 'st', cols=cols, sorted=False, njobs=1)
            yield direct_case(S, fam, k, lst, 'cc', cols=cols, sorted=False, njobs=1)
            if m == 1001:
                yield from direct_addrem(S, fam, k, exts, rng, n_each=1, cols=cols, rels=[dict(src='st'), dict(src='cc')])
    full = scramble(fam_boolean(k, 1 << k, rng), rng, 'shuf')
    for how in ('shuffled', 'sorted'):
        yield direct_case(S, f'boolean{k}/complete:{how}', k, listing(full, rng, how), 'oe', cols=cols)
    # the gadget next to disjoint long chains and cross concepts: 996 objects, supports up to 124, not intersection-closed
    exts = scramble(fam_multichain(8, 124, 2), rng, 'shuf')
    assert nonclosed_witness(exts) is not None and len(exts) >= 1000
    fam = f'multichain8x124/{len(exts)}'
    lst = listing(exts, rng, 'shuffled')
    for r, nj in (('st', 1), ('cc', 1), ('cc', 3)):
        yield direct_case(S, fam, 4 + 8 * 124, lst, r, sorted=False, njobs=nj)
    yield direct_case(S, fam, 4 + 8 * 124, lst, 'tree', sorted=False)
    lst = listing(exts, rng, 'sorted')
    yield direct_case(S, fam + ':sorted', 4 + 8 * 124, lst, 'st', sorted=True, njobs=1)
    yield direct_case(S, fam + ':sorted', 4 + 8 * 124, lst, 'cc', sorted=True, njobs=1)
    yield from direct_addrem(S, fam, 4 + 8 * 124, exts, rng, n_each=1)
    # the threaded sweep costs one pool dispatch (10-20 ms of sleeping) per concept and batch of n_jobs chains: run once,
    # on three long chains next to the gadget (about 9 chains in the tree: one batch with n_jobs=16)
    exts = scramble(fam_multichain(3, 329), rng, 'shuf')
    assert nonclosed_witness(exts) is not None and len(exts) >= 1000
    yield direct_case(S, f'multichain3x329/{len(exts)}', 4 + 3 * 329, listing(exts, rng, 'shuffled'), 'st', sorted=False,
                      njobs=16)
    # an antichain and a chain with more than 1000 members
    exts = scramble(fam_antichain(1002), rng, 'shuf')
    lst = listing(exts, rng, 'shuffled')
    for r in ('st', 'cc', 'tree'):
        yield direct_case(S, 'antichain1002', 1000, lst, r, sorted=False, **({} if r == 'tree' else dict(njobs=1)))
    yield direct_case(S, 'antichain1002:sorted', 1000, listing(exts, rng, 'sorted'), 'st', sorted=True, njobs=1)
    # (every comparison of two concepts builds a set of the larger extent: the 1001-chain costs 20 s per sweep — once)
    exts = scramble(fam_chain(1001), rng, 'shuf')
    lst = listing(exts, rng, 'shuffled')
    yield direct_case(S, 'chain1001', 1000, lst, 'st', sorted=False, njobs=1)
    yield direct_case(S, 'chain1001', 1000, lst, 'oe')
    yield from direct_addrem(S, 'chain1001', 1000, exts, rng, n_each=1)


def fam_wrap(d):
    """counter wrap-around: 'big' = 4 common objects + d objects of its own, 'small' = the 4 common + 30 of its own, so that
    |big \\ small| = d EXACTLY (255 / 256 / 257 / 512) while |small \\ big| = 30; big2 / small2 share one / two objects;
    a count of common or differing objects kept in 8 bits declares big <= small for d = 256, 512"""
    C = [0, 1, 2, 3]
    Bo = list(range(4, 4 + d))
    So = list(range(4 + d, 4 + d + 30))
    n = 4 + d + 30 + 1
    return n, [list(range(n)), C + Bo, [0] + Bo, C + So, [0, 1] + So[:20], C, [0], []]


def sizegate_wrap(rng, diffs):
    for di, d in enumerate(diffs):
        n, exts = fam_wrap(d)
        assert nonclosed_witness(exts) is not None
        for hi, how in enumerate(('shuf', 'asc')):
            e2 = scramble(exts, rng, how)
            fam = f'wrap{d}:{how}'
            orders = ('sorted', 'shuffled', 'ends') if how == 'shuf' else ('shuffled',)
            for o in orders:
                lst = listing(e2, rng, o)
                for srt in ((False, True) if o == 'sorted' else (False,)):
                    for nj in (1, 2, 3):
                        yield direct_case('sizegate-wrap', fam + ':' + o, n, lst, 'cc', sorted=srt, njobs=nj)
                    yield direct_case('sizegate-wrap', fam + ':' + o, n, lst, 'st', sorted=srt, njobs=1)
                    if how == 'shuf':
                        yield direct_case('sizegate-wrap', fam + ':' + o, n, lst, 'fst', sorted=srt, njobs=2 + di % 2)
                        yield direct_case('sizegate-wrap', fam + ':' + o, n, lst, 'tree', sorted=srt)
            if how == 'shuf':
                yield from direct_addrem('sizegate-wrap', fam, n, e2, rng, n_each=2)
                full = scramble(close_family(exts), rng, 'shuf')
                yield direct_case('sizegate-wrap', fam + ':closed', n, listing(full, rng, 'shuffled'), 'oe')


def hist_steps(all_exts, cur):
    inl = {tuple(sorted(e)) for e in cur}
    out = [['add', e] for e in all_exts if tuple(sorted(e)) not in inl and has_top_bottom(cur + [e])]
    if len(cur) >= 3:
        out += [['rem', i] for i in range(len(cur)) if has_top_bottom(cur[:i] + cur[i + 1:])]
    return out


def hist_apply(cur, st):
    return cur + [st[1]] if st[0] == 'add' else cur[:st[1]] + cur[st[1] + 1:]


def hist_cases(all_exts, lst, stream, rng, mk):
    """chained histories (H2/H5): the output of one helper call is the input of the next.  Bases: the size-sorted listing
    `lst`, and `lst` with each of its concepts moved to the END (then the first step removes that last-indexed concept: the
    index shift of remove_concept has nothing to shift); every admissible first step x every admissible second step, a
    random third step on every third history; inplace flags per step rotate through all combinations"""
    k = 0
    bases = [(lst, False)] + [([e for e in lst if e is not x] + [x], True) for x in lst]
    for base, last_only in bases:
        for s1 in hist_steps(all_exts, base):
            if last_only and s1 != ['rem', len(base) - 1]:
                continue
            cur1 = hist_apply(base, s1)
            for s2 in hist_steps(all_exts, cur1):
                k += 1
                steps = [s1, s2]
                if k % 3 == 0:
                    more = hist_steps(all_exts, hist_apply(cur1, s2))
                    if more:
                        steps.append(rng.choice(more))
                flags = [[(k >> j) & 1 for j in range(len(steps))]]
                if last_only:
                    flags.append([1 - f for f in flags[0]])
                for fl in flags:
                    yield mk(exts=base, routine='hist', steps=steps, inplace=fl, passtb=bool(k % 2), stream=stream)


def hist_exhaustive(tables, rng, inner_cap=6):
    for rows, exts in families(tables):
        if len(exts) < 3:
            continue
        top, bot, inner = exts[0], exts[-1], exts[1:-1]
        for kk in range(min(len(inner), inner_cap) + 1):
            for sub in itertools.combinations(inner, kk):
                lst = [top] + list(sub) + [bot]
                yield from hist_cases(exts, lst, 'history', rng, lambda **kw: dict(rows=rows, **kw))


def hist_directed(rng):
    """directed families for the chained histories: a concept that is the sole parent of k children and the sole child of
    one / k parents (fan), listed last; the gadget"""
    for kfan in (2, 3):
        n = kfan + 2
        top = list(range(n))
        c = list(range(kfan))
        leaves = [[i] for i in range(kfan)]
        xs = [[i, kfan] for i in range(kfan)] + [[i, kfan + 1] for i in range(kfan)] + [c + [kfan]]
        allx = [top, c] + leaves + xs + [[]]
        for lst in ([top] + leaves + [[]] + [c], [top] + xs[:kfan] + [[]] + [c] + leaves[:1], [top, c] + leaves + [[]]):
            yield from hist_cases(allx, lst, 'history-directed', rng,
                                  lambda **kw: dict(fam=f'fan{kfan}', nobj=n, cols='self', **kw))
    g = [[0, 1, 2, 3]] + [list(e) for e in GADGET[1:]] + [[]]
    allg = [list(x) for r in range(4, -1, -1) for x in itertools.combinations(range(4), r)]
    yield from itertools.islice(hist_cases(allg, g, 'history-directed', rng,
                                           lambda **kw: dict(fam='gadget', nobj=4, cols='self', **kw)), 1500)


def spread(main, heavy, every):
    """the heavy cases one by one between the ordinary ones (`every` apart: one per chunk of work)"""
    heavy = iter(heavy)
    k = 0
    for c in main:
        yield c
        k += 1
        if k % every == 0:
            h = next(heavy, None)
            if h is not None:
                yield h
    yield from heavy


def corpus_cases():
    import glob
    import json
    import os
    here = os.path.dirname(os.path.dirname(os.path.dirname(os.path.abspath(__file__))))
    for p in sorted(glob.glob(os.path.join(here, 'corpus', 'C12', '*.json'))):
        c = json.load(open(p))
        c = c.get('case', c)
        c['stream'] = 'corpus'
        yield c


def ordinary(tier, seed, boost, rng):
    full = tier == 'thorough'
    swis = (None, 1e-6, 1e-5, 1e-3) if full else (None,)
    yield from exhaustive(G.tables_upto(3, 3), rng, 'exhaustive', par_all=full, swis=swis, inner_cap=6)
    big = (rows for rows in G.tables_upto(4, 4, cells=12) if len(rows) > 3 or len(rows[0]) > 3)
    if full:
        yield from exhaustive(big, rng, 'exhaustive-large', par_all=False, swis=(None,), inner_cap=6)
    elif boost:
        # quick tier with drifted anchors / failed proof obligation: a bounded seeded sample of the n*m <= 12 scope
        yield from exhaustive(big, rng, 'exhaustive-large', par_all=False, swis=(None,), inner_cap=6, sample=0.05)
    if tier == 'quick':
        yield from random_cases(rng, 60 * (3 if boost else 1), 6, 6, 30, 0.25, (None,))
        # two-digit object indexes (the sort key joins them as text; bit-sets of >= 13 objects)
        yield from random_cases(rng, 12, 14, 4, 30, 0.25, (None,), nmin=13, mmin=3)
    else:
        yield from random_cases(rng, 500, 6, 6, 30, 0.3, (None, 1e-6))
        yield from random_cases(rng, 150, 14, 8, 30, 0.15, (None,))
    yield from malformed(rng, G.tables_upto(3, 3))


def heavy_cases(tier, seed):
    """the 1000-concept cases (most expensive first: they are handed to the workers while the rest runs), then the
    64..129-concept ones"""
    rng = random.Random(seed * 7919 + 1208)
    big = list(sizegate_big(rng))
    cost = lambda c: (0 if c['fam'].startswith('chain1001') and c['routine'] == 'st' else
                      1 if c.get('njobs', 1) > 3 else 2 if c['fam'].startswith('chain1001') else 3)
    big.sort(key=cost)
    yield from big
    yield from sizegate_mid(rng, (64, 65, 128, 129))
    if tier == 'thorough':
        for _ in range(2):
            yield from sizegate_big(rng)


def gen(tier, seed, boost=False):
    rng = random.Random(seed * 1000003 + 1201)
    yield from corpus_cases()
    rng_o = random.Random(seed * 104729 + 1207)
    objs = sizegate_objects(rng_o, (64, 65, 128, 129, 256, 257) + ((512, 513, 1024, 1025) if tier == 'thorough' else ()))
    wrap = sizegate_wrap(rng_o, (255, 256, 257, 512) + ((511, 768, 1024) if tier == 'thorough' else ()))
    rng_h = random.Random(seed * 15485863 + 1209)
    hist = itertools.chain(hist_directed(rng_h), hist_exhaustive(G.tables_upto(3, 3), rng_h))
    yield from spread(itertools.chain(objs, wrap, hist, ordinary(tier, seed, boost, rng)), heavy_cases(tier, seed), 100)


# ---------------------------------------------------------------------------------------------------

def nontrivial(c):
    return len(c['exts']) >= 3


def key(c):
    return [c['exts'], c['routine'], c.get('sorted'), c.get('njobs'), c.get('swi'), c.get('new'), c.get('ci'),
            c.get('passtb'), c.get('inplace'), c.get('more'), c.get('rel'), c.get('ctype'), c.get('miner'), c.get('steps')]


def branch(c, io, rep):
    r = c['routine']
    out = [c['stream'], r + (':sorted' if c.get('sorted') else ''), 'err' if 'err' in io else 'ok',
           'size:%d' % min(len(c['exts']), 10)]
    if r == 'hist':
        out.append('hist:' + '-'.join(st[0] + ('' if f else '(copy)') for st, f in zip(c['steps'], c['inplace'])))
    if c.get('fam'):
        out.append('fam:' + c['fam'].split(':')[0].split('/')[0].rstrip('0123456789') + ':n=%d' % len(c['exts']))
        out.append('objects>=%d' % max(k for k in (0, 64, 65, 128, 129, 256, 257, 1000) if c['nobj'] >= k))
    if c.get('njobs', 1) > 1:
        out.append(f'{r}:n_jobs={c["njobs"]}' + (':swi' if c.get('swi') else ''))
    if c.get('ctype'):
        out.append(f'{r}:tuple')
    if c.get('miner'):
        out.append(f'{r}:miner={c["miner"]}')
    if r == 'tree' and 'ok' in io and isinstance(io['ok'].get('chains'), list):
        out.append('chains:%d' % min(len(io['ok']['chains']), 6))
    if r in ('add', 'rem') and io.get('calls') and 'ok' in io['calls'][0]:
        t, b = top_bottom(c['exts'])
        first = io['calls'][0]['ok']
        if r == 'add':
            n = len(c['exts'])
            out.append('add:new-top' if first['top'] == n else 'add:new-bottom' if first['bot'] == n else 'add:inner')
        else:
            out.append('rem:top' if c['ci'] == t else 'rem:bottom' if c['ci'] == b else 'rem:inner')
        out.append(f'{r}:' + ('tb-given' if c['passtb'] else 'tb-None'))
        out.append(f'{r}:inplace' if c['inplace'] else f'{r}:copy:calls={len(io["calls"])}')
        rel = c.get('rel') or dict(src='oracle', val='set', keys='asc')
        out.append(f'{r}:rel={rel["src"]}' + (f':{rel["val"]}:{rel["keys"]}' if rel['src'] == 'oracle' else ''))
    return out


def signature(c, io, rep, v):
    r = c['routine']
    mode = 'par' if c.get('njobs', 1) > 1 else 'seq'
    what = ('err:' + io['err']) if isinstance(io, dict) and 'err' in io else 'wrong'
    if r in ('add', 'rem'):
        mode = 'inplace' if c.get('inplace') else 'copy'
        if 'modified although inplace=False' in v.get('detail', ''):
            what = 'caller-state-modified'
        elif 'do not hold the returned result' in v.get('detail', ''):
            what = 'passed-objects-stale'
    return f"C12:{r}:{'sorted' if c.get('sorted') else 'unsorted'}:{mode}:{v.get('kind')}:{what}"


def shrink_big(c):
    """1000-concept cases: try to drop halves, quarters, eighths of the list (each candidate costs seconds)"""
    exts = c['exts']
    n = len(exts)
    if c['routine'] in ('add', 'rem', 'oe'):
        return
    keep = set(top_bottom(exts))
    for parts in (2, 4, 8):
        size = n // parts
        for k in range(parts):
            rest = [e for i, e in enumerate(exts) if not (k * size <= i < (k + 1) * size) or i in keep]
            d = dict(c, exts=rest)
            if len(rest) <= BIG_FROM:
                d.pop('big', None)
            yield d


def shrink(c):
    if c['routine'] == 'hist':
        for k in range(len(c['steps']) - 1, 0, -1):
            yield dict(c, steps=c['steps'][:k], inplace=c['inplace'][:k])
        return
    if c.get('big'):
        yield from shrink_big(c)
        return
    exts = c['exts']
    r = c['routine']
    if r == 'oe':
        return
    for fld in ('ctype', 'miner'):
        if c.get(fld):
            d = dict(c)
            d.pop(fld)
            yield d
    if c.get('rel'):
        d = dict(c)
        d.pop('rel')
        yield d
        if c['rel'].get('src') != 'oracle':
            for rel in ORACLE_RELS:
                yield dict(c, rel=dict(rel, kseed=1))
    for i in range(len(exts)):
        if c.get('rel', {}).get('src') == 'oe':
            break                       # order_extents_comparison needs the complete concept set
        if r == 'rem' and i == c['ci']:
            continue
        rest = exts[:i] + exts[i + 1:]
        if len(rest) < 2 or not has_top_bottom(rest):
            continue
        d = dict(c)
        d['exts'] = rest
        if r == 'rem':
            d['ci'] = c['ci'] - (1 if i < c['ci'] else 0)
            if not has_top_bottom(rest[:d['ci']] + rest[d['ci'] + 1:]) or len(rest) < 3:
                continue
        if r == 'add' and not all(has_top_bottom(rest + [x]) and x not in rest for x in [c['new']] + list(c.get('more', []))):
            continue
        if r == 'rem' and c.get('more'):
            mm = [x - (1 if i < x else 0) for x in c['more'] if x != i]
            if len(mm) != len(c['more']) or not all(has_top_bottom(rest[:x] + rest[x + 1:]) for x in mm):
                continue
            d['more'] = mm
        if c.get('sorted') and not is_linear_extension(rest):
            continue
        yield d
    if c.get('more'):
        for j in range(len(c['more'])):
            d = dict(c)
            d['more'] = c['more'][:j] + c['more'][j + 1:]
            yield d
    if c.get('swi'):
        d = dict(c)
        d.pop('swi')
        yield d
    if c.get('njobs', 1) > 2:
        d = dict(c)
        d['njobs'] = 2
        yield d


# ---------------------------------------------------------------------------------------------------
# caspailleur / order_extents_comparison stream (harness/casp_stream.py), hooked in by the integrator:
# the code-shaped Lean model of caspailleur.order (Model/Caspailleur.lean) is compared with the real functions level by
# level on every case; on duplicate-free intersection-closed families the implementation's dict must also equal the Lean
# spec covers (theorem C12.order_extents_comparison_code_exact).  Cases carry the stream prefix 'casp-'.
# ---------------------------------------------------------------------------------------------------
import casp_stream as CASP  # noqa: E402

TRUSTED = [t for t in TRUSTED if 'caspailleur' not in t.lower()] + [
    'caspailleur.order / order_extents_comparison: code-shaped model (Model/Caspailleur.lean), contract proved on '
    'intersection-closed duplicate-free families and compared level by level with the real functions on every run; '
    'trusted there: bitarray primitives (search ascending, find, &, |, ~, count) and Python sorted/dict semantics']


def _is_casp(c):
    return str(c.get('stream', '')).startswith('casp-')


def _unc(c):
    return dict(c, stream=c['stream'][5:])


def _dispatch(name, casp_fn):
    orig = globals()[name]

    def f(c, *a):
        if _is_casp(c):
            return casp_fn(_unc(c), *a)
        return orig(c, *a)
    f.__name__ = name
    globals()[name] = f


for _n in ('impl', 'requests', 'judge', 'key', 'nontrivial', 'branch', 'signature'):
    _dispatch(_n, getattr(CASP, _n))

_gen_c12, _shrink_c12 = gen, shrink


def gen(tier, seed, boost=False):
    casp = (dict(c, stream='casp-' + c['stream']) for c in CASP.cases(tier, seed))
    # interleave: one caspailleur case per 25 ordinary ones, the rest at the end (the stream is cheap: ~1 ms per case)
    it = iter(casp)
    for i, c in enumerate(_gen_c12(tier, seed, boost)):
        yield c
        if i % 25 == 24:
            x = next(it, None)
            if x is not None:
                yield x
    yield from it


def shrink(c):
    if _is_casp(c):
        for s in CASP.shrink(_unc(c)):
            yield dict(s, stream='casp-' + s['stream'])
        return
    yield from _shrink_c12(c)

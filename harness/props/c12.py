"""C12 — every order-construction routine computes exactly the cover relation."""
import functools
import itertools
import os
import random
import signal
import sys

import gen as G
from implutil import exc_name

RULE = ('case = (context table, ordered list of extents of concepts mined by close_by_one from it, routine, flags). '
        'Lists: every sub-list of the concept set that keeps the greatest and the least concept (tables whose concept set '
        'has the same extents as an earlier one are skipped); listing orders: all permutations for <= 5 concepts, else '
        'size-sorted / reversed / seeded shuffles; routines: complete_comparison, construct_lattice_by_spanning_tree '
        '(n_jobs 1 on every order; n_jobs 2,3,5 on the size-sorted order and one shuffle), construct_spanning_tree + '
        '_get_chains (chain checker), order_extents_comparison (complete concept sets only), add_concept of every mined '
        'concept not in the list and remove_concept of every listed concept whose removal keeps a greatest and a least one, '
        'each with inplace=True (the passed list / dictionaries must hold the result afterwards) and with inplace=False as a '
        'history of three calls with different candidates on the SAME base objects (each result judged against the covers '
        'of the base, and the base list / relation deep-compared with a snapshot after every call); the relation is handed over '
        'as plain {i: set} dictionaries and, rotating, as set- / frozenset-valued dictionaries with keys inserted in ascending, '
        'descending, shuffled and mixed order, and as produced by the library (pipeline routine -> helper): complete_comparison, '
        'construct_lattice_by_spanning_tree, order_extents_comparison, _transpose_hierarchy of either direction, and '
        'ConceptLattice(...).children_dict / parents_dict of a lattice built from a children dict, a parents dict or lazily; '
        'further variants of the construction routines: the list handed over as a tuple, concepts taken from '
        'close_by_one_objectwise / lindig_algorithm, single-concept lists, tables with 13-14 objects (two-digit indexes); '
        'every routine must leave the list it was given untouched '
        '(also lists whose greatest/least is not the lattice top/bottom, so that the new-top / new-bottom branches run); '
        'is_concepts_sorted=True only on linear extensions of the order; then seeded random pruned lists up to 30 concepts '
        'from 6x6 tables (14x8 in the thorough tier). non-trivial = at least one concept strictly between top and bottom; '
        'distinct = distinct (extent list, routine, flags)')
EXHAUSTIVE = {
    'quick': 'all tables n,m<=3 (64 distinct concept sets, 367 sub-lists keeping top and bottom, 10420 (list, order) pairs) x '
             '{complete_comparison, spanning tree} x sorted flag where admissible; add/remove on every candidate concept',
    'thorough': 'all tables n*m<=12, n,m<=4 (591 concept sets, 6510 sub-lists, 234862 (list, order) pairs); n_jobs>1 runs are '
                'repeated under sys.setswitchinterval in {1e-6, 1e-5, 1e-3}'}
EXPLANATION = ('the children dictionary is pinned uniquely by the property (sets compared as sorted lists), so implementation != '
               'Spec.covers is a property failure; Fca.C12.* prove model = Spec.covers for all inputs: complete_comparison (both '
               'flags), spanning tree + chains + chain sweep + final reduction (sequential and batched-parallel for every scan '
               'order of a batch), the add/remove helpers, and the index translation of order_extents_comparison; the driver '
               'additionally evaluates the sweep model under several set-iteration orders and batch schedules (variants_agree) '
               'and applies the Lean chain checker to the implementation\'s own tree and chains')
ASSUMPTIONS = ['add_concept / remove_concept with inplace=False leave the caller\'s list and relation dictionaries unchanged; with '
               'inplace=True the passed objects hold the result (checked on the real code, not part of the Lean theorems: the model is pure)',
               'the concepts of a list come from one context, are pairwise different, and extents are duplicate-free',
               'the list contains a greatest and a least concept (only complete_comparison is also run without)',
               'is_concepts_sorted=True is only used on lists in which every strict superconcept precedes its subconcepts',
               'n_jobs >= 1',
               'add_concept: the new concept is not in the list and the enlarged list still has a greatest and a least concept; '
               'remove_concept: the reduced list still has them; both are given the correct cover relation']
TRUSTED = ['joblib: Parallel returns results in submission order; threading backend joins a batch before the next starts',
           'thread interleavings below the granularity of one iterate_chain call are not modelled (GIL-level races are only '
           'probed by the setswitchinterval sweep)',
           'caspailleur.order (topological_sorting / sort_intents_inclusion / inverse_order) is modelled by its contract',
           'CPython iterates a set of ints < 8 in ascending order (used only for the tree-equality diagnostic)']
CHUNK = 250
REQUESTS_NEED_IMPL = True


# ---------------------------------------------------------------------------------------------------
# implementation side
# ---------------------------------------------------------------------------------------------------

MINERS = ('cbo', 'objectwise', 'lindig')


@functools.lru_cache(maxsize=512)
def _mined(rows_key, miner='cbo'):
    """{sorted extent tuple: FormalConcept} of the concepts mined from the table (close_by_one by default; the other
    miners — whose concepts may list their extent in another order — only when they find the same extents: whether they
    do is the business of C02, not of this check)."""
    from fcapy.context import FormalContext
    from fcapy.algorithms import concept_construction as cca
    K = FormalContext(data=[[bool(v) for v in r] for r in rows_key])
    base = {tuple(sorted(int(g) for g in c.extent_i)): c for c in cca.close_by_one(K)}
    if miner == 'cbo':
        return base
    try:
        f = {'objectwise': cca.close_by_one_objectwise, 'lindig': cca.lindig_algorithm}[miner]
        alt = {tuple(sorted(int(g) for g in c.extent_i)): c for c in f(K)}
    except Exception:
        return base
    return alt if set(alt) == set(base) else base


def mined(rows, miner='cbo'):
    return _mined(tuple(tuple(r) for r in rows), miner)


def concept_list(c):
    m = mined(c['rows'], c.get('miner', 'cbo'))
    return [m[tuple(e)] for e in c['exts']]


def real_exts(c):
    """the extents in the order in which the concepts themselves list them (`extent_i`; the sort key reads that)"""
    return [[int(g) for g in x.extent_i] for x in concept_list(c)]


def canon_dict(d, n):
    """{i: set} -> list indexed by i of sorted int lists; anything else is reported verbatim."""
    if not isinstance(d, dict) or sorted(int(k) for k in d) != list(range(n)):
        return {'bad_keys': sorted(int(k) for k in d)} if isinstance(d, dict) else {'bad_type': type(d).__name__}
    return [sorted(int(x) for x in d[i]) for i in range(n)]


def py_covers(exts):
    S = [frozenset(e) for e in exts]
    n = len(S)
    low = [[j for j in range(n) if S[j] < S[i]] for i in range(n)]
    sub = [[j for j in low[i] if not any(S[j] < S[k] for k in low[i])] for i in range(n)]
    sup = [[i for i in range(n) if j in sub[i]] for j in range(n)]
    return sub, sup


def top_bottom(exts):
    S = [frozenset(e) for e in exts]
    t = [i for i in range(len(S)) if all(S[j] < S[i] for j in range(len(S)) if j != i)]
    b = [i for i in range(len(S)) if all(S[i] < S[j] for j in range(len(S)) if j != i)]
    return (t[0] if t else None), (b[0] if b else None)


# How the relation handed to add_concept / remove_concept is represented and where it comes from.  The helpers accept
# any {index: collection} dictionaries; the library itself hands around set- and frozenset-valued ones, filled in
# ascending (complete_comparison, children_dict), descending / arbitrary (order_extents_comparison,
# _transpose_hierarchy) key order.
ORACLE_RELS = [dict(src='oracle', val=v, keys=k) for v in ('set', 'frozenset') for k in ('asc', 'desc', 'shuf')] + \
              [dict(src='oracle', val='set', keys='asc-desc'), dict(src='oracle', val='frozenset', keys='desc-asc')]
PIPE_RELS = [dict(src=x) for x in ('cc', 'st', 'transpose', 'transpose-sub', 'lattice', 'lattice-parents',
                                   'lattice-lazy', 'oe')]
ALL_RELS = ORACLE_RELS + PIPE_RELS


class PipelineError(Exception):
    pass


def _ordered(d, how, kseed, second=False):
    keys = sorted(d)
    if how in ('asc-desc', 'desc-asc'):
        how = how.split('-')[1 if second else 0]
    if how == 'desc':
        keys = keys[::-1]
    elif how == 'shuf':
        random.Random(kseed * 2 + int(second)).shuffle(keys)
    return {k: d[k] for k in keys}


def build_relation(c, cs):
    """(subconcepts_dict, superconcepts_dict) for the list `cs` in the representation asked for by c['rel']"""
    import fcapy.algorithms.lattice_construction as lca
    from fcapy.lattice import ConceptLattice
    rel = c.get('rel') or dict(src='oracle', val='set', keys='asc')
    sub, sup = py_covers(c['exts'])
    osub = {i: set(x) for i, x in enumerate(sub)}
    osup = {i: set(x) for i, x in enumerate(sup)}
    src = rel['src']
    if src == 'oracle':
        conv = frozenset if rel['val'] == 'frozenset' else set
        subd = _ordered({i: conv(x) for i, x in osub.items()}, rel['keys'], rel.get('kseed', 0))
        supd = _ordered({i: conv(x) for i, x in osup.items()}, rel['keys'], rel.get('kseed', 0), second=True)
    elif src in ('cc', 'st', 'oe'):
        f = {'cc': lca.complete_comparison, 'st': lca.construct_lattice_by_spanning_tree,
             'oe': lca.order_extents_comparison}[src]
        subd = f(list(cs))
        supd = {i: set() for i in subd}          # transposed in the key order of the routine's own output
        for i, xs in subd.items():
            for x in xs:
                supd[x].add(i)
    elif src == 'transpose':
        subd = osub
        supd = ConceptLattice._transpose_hierarchy(osub)
    elif src == 'transpose-sub':
        supd = osup
        subd = ConceptLattice._transpose_hierarchy(osup)
    elif src in ('lattice', 'lattice-parents', 'lattice-lazy'):
        kw = {'lattice': dict(children_dict=osub), 'lattice-parents': dict(parents_dict=osup), 'lattice-lazy': {}}[src]
        L = ConceptLattice(list(cs), **kw)
        subd, supd = L.children_dict, L.parents_dict
    else:
        raise ValueError(src)
    n = len(cs)
    if canon_dict(subd, n) != [sorted(x) for x in sub] or canon_dict(supd, n) != [sorted(x) for x in sup]:
        raise PipelineError(f'{src}: children {canon_dict(subd, n)} parents {canon_dict(supd, n)}')
    return subd, supd


# A routine that loops for ever (e.g. a cyclic parent relation walked by `_get_chains` in a mutated tree) is cut off:
# the limit is on the CPU time of the process (robust against a loaded machine: a wall-clock limit of 5 s produced
# transient false alarms when 16 workers and other jobs shared the cores), with a generous wall-clock backstop.
IMPL_CPU_LIMIT_S = 6.0
IMPL_WALL_LIMIT_S = 120.0


class ImplTimeout(Exception):
    pass


def _on_alarm(signum, frame):
    raise ImplTimeout()


def impl(c):
    import fcapy.algorithms.lattice_construction as lca
    from fcapy.lattice import ConceptLattice
    cs = concept_list(c)
    n = len(cs)
    r = c['routine']
    old = sys.getswitchinterval()
    old_handler = signal.signal(signal.SIGALRM, _on_alarm)
    old_prof = signal.signal(signal.SIGPROF, _on_alarm)
    signal.setitimer(signal.ITIMER_REAL, IMPL_WALL_LIMIT_S)
    signal.setitimer(signal.ITIMER_PROF, IMPL_CPU_LIMIT_S)
    try:
        if c.get('swi'):
            sys.setswitchinterval(c['swi'])
        if r in ('cc', 'st', 'tree', 'oe'):
            arg = tuple(cs) if c.get('ctype') == 'tuple' else cs
            if r == 'cc':
                res = canon_dict(lca.complete_comparison(arg, is_concepts_sorted=c['sorted'], n_jobs=c['njobs']), n)
            elif r == 'st':
                res = canon_dict(lca.construct_lattice_by_spanning_tree(arg, is_concepts_sorted=c['sorted'],
                                                                        n_jobs=c['njobs']), n)
            elif r == 'tree':
                sub, sup = lca.construct_spanning_tree(arg, is_concepts_sorted=c['sorted'])
                chains = ConceptLattice._get_chains(arg, sup, is_concepts_sorted=c['sorted'])
                res = {'sub': canon_dict(sub, n), 'sup': canon_dict(sup, n),
                       'chains': [[int(x) for x in ch] for ch in chains]}
            else:
                res = canon_dict(lca.order_extents_comparison(arg), n)
            # the routines only read the list they are given
            intact = len(arg) == n and all(a is b for a, b in zip(arg, concept_list(c)))
            return {'ok': res, 'input_intact': intact}
        # add / remove: a history on ONE base (list + relation): the first candidate, and with inplace=False the
        # further candidates `more` are tried against the very same objects, which must stay intact.
        try:
            subd, supd = build_relation(c, cs)
        except PipelineError as e:
            return {'pipeline': str(e)[:400]}
        t, b = top_bottom(c['exts']) if c['passtb'] else (None, None)
        snap = ([sorted(int(g) for g in x.extent_i) for x in cs], canon_dict(subd, n), canon_dict(supd, n))
        cands = [c['new'] if r == 'add' else c['ci']] + (list(c.get('more', [])) if not c['inplace'] else [])
        calls = []
        for cand in cands:
            try:
                if r == 'add':
                    out = lca.add_concept(mined(c['rows'], c.get('miner', 'cbo'))[tuple(cand)], cs, subd, supd, t, b,
                                          inplace=c['inplace'])
                    m = n + 1
                else:
                    out = lca.remove_concept(cand, cs, subd, supd, t, b, inplace=c['inplace'])
                    m = n - 1
                cs2, sub2, sup2, t2, b2 = out
                res = {'ok': {'exts': [sorted(int(g) for g in x.extent_i) for x in cs2],
                              'sub': canon_dict(sub2, m), 'sup': canon_dict(sup2, m),
                              'top': None if t2 is None else int(t2), 'bot': None if b2 is None else int(b2)}}
            except ImplTimeout:
                raise
            except Exception as e:
                res = {'err': exc_name(e)}
                m = n
            now = ([sorted(int(g) for g in x.extent_i) for x in cs], canon_dict(subd, len(cs)), canon_dict(supd, len(cs)))
            if c['inplace']:
                # the objects that were passed in must now hold the result
                res['passed_hold_result'] = 'ok' in res and now == (res['ok']['exts'], res['ok']['sub'], res['ok']['sup'])
            else:
                res['base_intact'] = now == snap
                if not res['base_intact']:
                    res['base_now'] = dict(exts=now[0], sub=now[1], sup=now[2])
            calls.append(res)
        return {'calls': calls}
    except Exception as e:
        return {'err': exc_name(e)}
    finally:
        signal.setitimer(signal.ITIMER_PROF, 0)
        signal.setitimer(signal.ITIMER_REAL, 0)
        signal.signal(signal.SIGPROF, old_prof)
        signal.signal(signal.SIGALRM, old_handler)
        sys.setswitchinterval(old)


def id_to_topo(exts):
    """what caspailleur.order.topological_sorting returns as the index map for these extents"""
    n = len(exts)
    order = sorted(range(n), key=lambda i: (len(exts[i]), tuple(sorted(exts[i]))))
    pos = {i: k for k, i in enumerate(order)}
    return [pos[i] for i in range(n)]


def requests(c, io):
    r = c['routine']
    if r in ('cc', 'st'):
        return [dict(op='C12.' + r, cs=real_exts(c), sorted=c['sorted'], njobs=c['njobs'], ord='asc')]
    if r == 'tree':
        ok = io.get('ok') if isinstance(io, dict) else None
        good = isinstance(ok, dict) and isinstance(ok.get('sup'), list) and isinstance(ok.get('sub'), list)
        return [dict(op='C12.tree', cs=real_exts(c), sorted=c['sorted'], ord='asc',
                     implSup=ok['sup'] if good else [], implChains=ok['chains'] if good else [])]
    if r == 'oe':
        return [dict(op='C12.oe', cs=c['exts'], idToTopo=id_to_topo(c['exts']))]
    sub, sup = py_covers(c['exts'])
    t, b = top_bottom(c['exts']) if c['passtb'] else (None, None)
    base = dict(cs=c['exts'], sub=sub, sup=sup, top=t, bot=b, ord='asc')
    cands = [c['new'] if r == 'add' else c['ci']] + (list(c.get('more', [])) if not c['inplace'] else [])
    if r == 'add':
        return [dict(op='C12.add', new=cand, **base) for cand in cands]
    return [dict(op='C12.rem', ci=cand, **base) for cand in cands]


def judge(c, io, rep):
    v = _judge(c, io, rep)
    log = os.environ.get('C12_DEBUG_LOG')
    if log and not v.get('ok'):
        import json
        with open(log, 'a') as f:
            f.write(json.dumps(dict(case=c, io=io, verdict=v, pid=os.getpid())) + '\n')
    return v


def _judge(c, io, rep):
    if isinstance(io, dict) and 'input_intact' in io:
        if not io['input_intact']:
            return dict(ok=False, kind='property',
                        detail=f'{c["routine"]} modified the concept list it was given (input is only to be read)')
        io = {k: v for k, v in io.items() if k != 'input_intact'}
    r = c['routine']
    q = rep[0]
    mal = c['stream'] == 'malformed'
    if r in ('cc', 'st'):
        want = {'ok': q['spec']}
        model = {'ok': q['model']} if isinstance(q['model'], list) else q['model']
        if mal:     # outside the property's scope: only implementation = model is checked
            if io == model:
                return dict(ok=True)
            return dict(ok=False, kind='correspondence', detail=f'out-of-scope input: implementation {io} model {model}')
        if io != want:
            return dict(ok=False, kind='property',
                        detail=f'{r}(sorted={c["sorted"]}, n_jobs={c["njobs"]}) returned {io}, covers are {q["spec"]}')
        if model != want:
            return dict(ok=False, kind='harness', detail=f'model {model} != spec {q["spec"]} (contradicts a theorem)')
        if r == 'st' and not q.get('variants_agree', True):
            return dict(ok=False, kind='harness', detail='model depends on set order / batch schedule (contradicts '
                                                         'spanning_tree_parallel_sched_indep)')
        return dict(ok=True)
    if r == 'tree':
        if 'err' in io or 'err' in q.get('model', {}):
            if mal and io.get('err') == q.get('model', {}).get('err'):
                return dict(ok=True)
            return dict(ok=False, kind='correspondence', detail=f'tree: implementation {io} model {q}')
        ok = io['ok']
        if not mal and not q['impl_chains_ok']:
            return dict(ok=False, kind='correspondence',
                        detail=f'chains/tree of the implementation violate the chain property: {ok}')
        if not mal and not q['model_chains_ok']:
            return dict(ok=False, kind='harness', detail=f'model chains violate the chain property: {q}')
        if q['chains_on_impl_tree'] != ok['chains']:
            return dict(ok=False, kind='correspondence',
                        detail=f'_get_chains: implementation {ok["chains"]} model on the same tree {q["chains_on_impl_tree"]}')
        if len(c['exts']) <= 8 and (ok['sub'] != q['sub'] or ok['sup'] != q['sup']):
            return dict(ok=False, kind='correspondence', detail=f'spanning tree: implementation {ok} model {q}')
        return dict(ok=True)
    if r == 'oe':
        if io != {'ok': q['spec']}:
            return dict(ok=False, kind='property', detail=f'order_extents_comparison returned {io}, covers are {q["spec"]}')
        if q['model'] != q['spec'] or q['keys'] != list(range(len(c['exts']))):
            return dict(ok=False, kind='harness', detail=f'model {q["model"]} keys {q["keys"]} != spec {q["spec"]}')
        return dict(ok=True)
    # add / rem: every call of the history is judged against the spec of the SAME base
    if 'pipeline' in io:
        return dict(ok=False, kind='property',
                    detail=f'the relation produced for the helper by {c.get("rel")} is not the cover relation of the list: '
                           f'{io["pipeline"]}')
    if 'calls' not in io:
        return dict(ok=False, kind='property', detail=f'{r} raised {io}')
    cands = [c['new'] if r == 'add' else c['ci']] + (list(c.get('more', [])) if not c['inplace'] else [])
    for k, (cand, res, q) in enumerate(zip(cands, io['calls'], rep)):
        spec = q['spec']
        if r == 'add':
            want_exts = [sorted(e) for e in c['exts']] + [sorted(cand)]
            if not q.get('in_ok', True):
                return dict(ok=False, kind='harness', detail='input relation handed to add_concept is not the cover relation')
        else:
            want_exts = [sorted(e) for i, e in enumerate(c['exts']) if i != cand]
        want = dict(exts=want_exts, sub=spec['sub'], sup=spec['sup'], top=spec['top'], bot=spec['bot'])
        where = f'{r}({cand}, inplace={c["inplace"]}, relation={c.get("rel", "oracle sets")}), call {k + 1} on the same base'
        if res.get('ok') != want:
            shown = {kk: vv for kk, vv in res.items() if kk in ('ok', 'err')}
            return dict(ok=False, kind='property', detail=f'{where} returned {shown}, expected {want}')
        if c['inplace'] and not res.get('passed_hold_result'):
            return dict(ok=False, kind='property',
                        detail=f'{where}: the list / dictionaries passed in do not hold the returned result afterwards')
        if not c['inplace'] and not res.get('base_intact'):
            return dict(ok=False, kind='property',
                        detail=f'{where}: the caller\'s concepts / relation were modified although inplace=False: '
                               f'{res.get("base_now")}')
        m = q['model']
        if 'err' in m or dict(sub=m['sub'], sup=m['sup'], top=m['top'], bot=m['bot']) != spec:
            return dict(ok=False, kind='harness', detail=f'model {m} != spec {spec}')
    if len(io['calls']) != len(cands):
        return dict(ok=False, kind='harness', detail='history length mismatch')
    return dict(ok=True)


# ---------------------------------------------------------------------------------------------------
# generation
# ---------------------------------------------------------------------------------------------------

def is_linear_extension(exts):
    S = [frozenset(e) for e in exts]
    return all(not (S[j] < S[i]) or i < j for i in range(len(S)) for j in range(len(S)))


def has_top_bottom(exts):
    t, b = top_bottom(exts)
    return t is not None and b is not None


def size_sorted(exts):
    return sorted(exts, key=lambda e: (-len(e), e))


def families(tables):
    seen = set()
    for rows in tables:
        exts = sorted(mined(rows).keys(), key=lambda e: (-len(e), e))
        key = (len(rows), tuple(exts))
        if key in seen:
            continue
        seen.add(key)
        yield rows, [list(e) for e in exts]


def orders_of(lst, rng, nshuffle):
    if len(lst) <= 5:
        return [list(p) for p in itertools.permutations(lst)]
    out = [list(lst), list(lst[::-1])]
    for _ in range(nshuffle):
        p = list(lst)
        rng.shuffle(p)
        if p not in out:
            out.append(p)
    # a linear extension that is not size sorted, when there is one: swap adjacent incomparable pairs
    q = list(lst)
    for i in range(1, len(q) - 2):
        a, b = frozenset(q[i]), frozenset(q[i + 1])
        if not (a < b or b < a) and len(a) != len(b):
            q[i], q[i + 1] = q[i + 1], q[i]
    if q not in out and is_linear_extension(q):
        out.append(q)
    return out


def routine_cases(rows, order, stream, par_jobs=(), swis=(None,), tree=True):
    srt_ok = is_linear_extension(order)
    for srt in ((False, True) if srt_ok else (False,)):
        for r in ('cc', 'st'):
            yield dict(stream=stream, rows=rows, exts=order, routine=r, sorted=srt, njobs=1)
            for nj in par_jobs:
                for swi in swis:
                    c = dict(stream=stream, rows=rows, exts=order, routine=r, sorted=srt, njobs=nj)
                    if swi:
                        c['swi'] = swi
                    yield c
        if tree:
            yield dict(stream=stream, rows=rows, exts=order, routine='tree', sorted=srt)


def variant_cases(rows, order, stream, k):
    """the same list handed over as a tuple, and built from the concepts of another miner (extent tuples possibly in
    another order: the sort key of sort_concepts reads them)"""
    srt_ok = is_linear_extension(order)
    for r in ('cc', 'st', 'tree'):
        for srt in ((False, True) if srt_ok else (False,)):
            base = dict(stream=stream, rows=rows, exts=order, routine=r, sorted=srt)
            if r != 'tree':
                base['njobs'] = 1
            yield dict(base, ctype='tuple')
            yield dict(base, miner=MINERS[1 + k % 2])
    if len(order) > 2:
        yield dict(stream=stream, rows=rows, exts=order, routine='st', sorted=False, njobs=2 + k % 2, ctype='tuple',
                   miner=MINERS[1 + (k + 1) % 2])


def addrem_cases(rows, all_exts, order, stream, rng):
    """every admissible add and remove on the list `order` (the list itself has a greatest and a least concept), each in
    both `inplace` modes; the inplace=False case continues with up to two further candidates on the SAME base objects"""
    inlist = {tuple(e) for e in order}
    adds = [new for new in all_exts if tuple(new) not in inlist and has_top_bottom(order + [new])]
    rems = [ci for ci in range(len(order)) if has_top_bottom(order[:ci] + order[ci + 1:])] if len(order) >= 3 else []
    complete = len(inlist) == len(all_exts)
    k = 0
    ri = rng.randrange(len(ALL_RELS))

    def next_rel():
        nonlocal ri
        while True:
            ri += 1
            rel = dict(ALL_RELS[ri % len(ALL_RELS)])
            if rel['src'] == 'oe' and not complete:
                continue
            if rel.get('keys') == 'shuf':
                rel['kseed'] = rng.randrange(1000)
            return rel

    for routine, key, cands in (('add', 'new', adds), ('rem', 'ci', rems)):
        for i, cand in enumerate(cands):
            k += 1
            base = dict(stream=stream, rows=rows, exts=order, routine=routine, passtb=bool(k % 2))
            base[key] = cand
            more = [cands[(i + j) % len(cands)] for j in (1, 2)]
            yield dict(base, inplace=True)                  # plain {i: set} dictionaries in ascending key order
            yield dict(base, inplace=False, more=more)      # the same candidate again is a legitimate second call
            # the same with the relation in the representations the library itself hands around / a caller may build
            yield dict(base, inplace=True, rel=next_rel())
            yield dict(base, inplace=False, more=more[:1], rel=next_rel())
            if len(order) <= 4:
                yield dict(base, inplace=bool(k % 3), passtb=not (k % 2), more=more[:1], rel=next_rel())


def exhaustive(tables, rng, stream, par_all, swis, inner_cap, sample=None):
    nv = 0
    for rows, exts in families(tables):
        if sample is not None and rng.random() >= sample:
            continue
        # a single concept is its own greatest and least element
        for x in exts:
            yield from routine_cases(rows, [x], stream + '-single', (), (None,))
        if len(exts) < 2:
            yield dict(stream=stream + '-single', rows=rows, exts=exts, routine='oe')
            continue
        top, bot, inner = exts[0], exts[-1], exts[1:-1]
        # order_extents_comparison: complete concept sets only
        for oi, order in enumerate(orders_of(exts, rng, 6)):
            yield dict(stream=stream, rows=rows, exts=order, routine='oe')
            if oi % 7 == 0:
                yield dict(stream=stream, rows=rows, exts=order, routine='oe', ctype='tuple', miner=MINERS[1 + oi % 2])
        for k in range(min(len(inner), inner_cap) + 1):
            for sub in itertools.combinations(inner, k):
                lst = [top] + list(sub) + [bot]
                ords = orders_of(lst, rng, 5)
                for oi, order in enumerate(ords):
                    par = ()
                    if order == lst or (oi == (len(ords) * 2) // 3 and len(lst) > 2):
                        par = (2, 3, 5) if (par_all or order == lst) else (2 + (len(lst) + k) % 2,)
                    yield from routine_cases(rows, order, stream, par, swis)
                nv += 1
                yield from variant_cases(rows, lst, stream, nv)
                yield from variant_cases(rows, ords[(len(ords) * 2) // 3], stream, nv + 1)
                # add / remove on the size-sorted listing and on one other order
                for order in (lst, ords[len(ords) // 2]):
                    yield from addrem_cases(rows, exts, order, stream, rng)
        # lists whose greatest / least element is not the lattice top / bottom (new-top / new-bottom branches of add,
        # removal of the top / bottom itself)
        for k in range(1, min(len(exts), inner_cap + 2) + 1):
            for sub in itertools.combinations(exts, k):
                lst = list(sub)
                if len(lst) < 2 or not has_top_bottom(lst) or (lst[0] == top and lst[-1] == bot):
                    continue
                yield from addrem_cases(rows, exts, lst, stream + '-ends', rng)
                yield from addrem_cases(rows, exts, lst[::-1], stream + '-ends', rng)
                yield from routine_cases(rows, lst[::-1], stream + '-ends', (), (None,), tree=True)


def random_cases(rng, count, nmax, mmax, cap, par_p, swis, nmin=2, mmin=2):
    for _ in range(count):
        rows = G.random_table(rng, nmax, mmax, nmin=nmin, mmin=mmin)
        exts = sorted(mined(rows).keys(), key=lambda e: (-len(e), e))
        exts = [list(e) for e in exts]
        if len(exts) < 3:
            continue
        top, bot, inner = exts[0], exts[-1], exts[1:-1]
        keep = rng.random()
        sub = [e for e in inner if rng.random() < keep]
        if len(sub) > cap - 2:
            sub = rng.sample(sub, cap - 2)
            sub.sort(key=lambda e: (-len(e), e))
        lst = [top] + sub + [bot]
        for order in orders_of(lst, rng, 2)[:4] if len(lst) > 5 else [lst, rng.sample(lst, len(lst))]:
            par = ()
            if rng.random() < par_p:
                par = (rng.choice((2, 3, 5)),)
            yield from routine_cases(rows, order, 'random', par, swis if par else (None,))
        yield from variant_cases(rows, lst, 'random', rng.randrange(2))
        yield from itertools.islice(addrem_cases(rows, exts, rng.sample(lst, len(lst)), 'random', rng), 12)
        if len(exts) <= 40:
            yield dict(stream='random', rows=rows, exts=rng.sample(exts, len(exts)), routine='oe')


def malformed(rng, tables):
    """outside the scope of the property: only model = implementation is compared (<= 8 concepts)"""
    for rows, exts in families(tables):
        if not 3 <= len(exts) <= 8:
            continue
        for _ in range(3):
            k = rng.randint(2, len(exts))
            lst = rng.sample(exts, k)
            for srt in (False, True):
                for r in ('cc', 'st', 'tree'):
                    if r != 'cc' and not has_top_bottom(lst) and srt:
                        continue            # the sorted tree walk may not terminate on such input
                    if (not srt and has_top_bottom(lst)) or (srt and is_linear_extension(lst) and has_top_bottom(lst)):
                        continue            # in scope: covered by the other streams
                    c = dict(stream='malformed', rows=rows, exts=lst, routine=r, sorted=srt)
                    if r != 'tree':
                        c['njobs'] = 1
                    yield c


def corpus_cases():
    import glob
    import json
    import os
    here = os.path.dirname(os.path.dirname(os.path.dirname(os.path.abspath(__file__))))
    for p in sorted(glob.glob(os.path.join(here, 'corpus', 'C12', '*.json'))):
        c = json.load(open(p))
        c = c.get('case', c)
        c['stream'] = 'corpus'
        yield c


def gen(tier, seed, boost=False):
    rng = random.Random(seed * 1000003 + 1201)
    yield from corpus_cases()
    full = tier == 'thorough'
    swis = (None, 1e-6, 1e-5, 1e-3) if full else (None,)
    yield from exhaustive(G.tables_upto(3, 3), rng, 'exhaustive', par_all=full, swis=swis, inner_cap=6)
    big = (rows for rows in G.tables_upto(4, 4, cells=12) if len(rows) > 3 or len(rows[0]) > 3)
    if full:
        yield from exhaustive(big, rng, 'exhaustive-large', par_all=False, swis=(None,), inner_cap=6)
    elif boost:
        # quick tier with drifted anchors / failed proof obligation: a bounded seeded sample of the n*m <= 12 scope
        yield from exhaustive(big, rng, 'exhaustive-large', par_all=False, swis=(None,), inner_cap=6, sample=0.05)
    if tier == 'quick':
        yield from random_cases(rng, 60 * (3 if boost else 1), 6, 6, 30, 0.25, (None,))
        # two-digit object indexes (the sort key joins them as text; bit-sets of >= 13 objects)
        yield from random_cases(rng, 12, 14, 4, 30, 0.25, (None,), nmin=13, mmin=3)
    else:
        yield from random_cases(rng, 500, 6, 6, 30, 0.3, (None, 1e-6))
        yield from random_cases(rng, 150, 14, 8, 30, 0.15, (None,))
    yield from malformed(rng, G.tables_upto(3, 3))


# ---------------------------------------------------------------------------------------------------

def nontrivial(c):
    return len(c['exts']) >= 3


def key(c):
    return [c['exts'], c['routine'], c.get('sorted'), c.get('njobs'), c.get('swi'), c.get('new'), c.get('ci'),
            c.get('passtb'), c.get('inplace'), c.get('more'), c.get('rel'), c.get('ctype'), c.get('miner')]


def branch(c, io, rep):
    r = c['routine']
    out = [c['stream'], r + (':sorted' if c.get('sorted') else ''), 'err' if 'err' in io else 'ok',
           'size:%d' % min(len(c['exts']), 10)]
    if c.get('njobs', 1) > 1:
        out.append(f'{r}:n_jobs={c["njobs"]}' + (':swi' if c.get('swi') else ''))
    if c.get('ctype'):
        out.append(f'{r}:tuple')
    if c.get('miner'):
        out.append(f'{r}:miner={c["miner"]}')
    if r == 'tree' and 'ok' in io and isinstance(io['ok'].get('chains'), list):
        out.append('chains:%d' % min(len(io['ok']['chains']), 6))
    if r in ('add', 'rem') and io.get('calls') and 'ok' in io['calls'][0]:
        t, b = top_bottom(c['exts'])
        first = io['calls'][0]['ok']
        if r == 'add':
            n = len(c['exts'])
            out.append('add:new-top' if first['top'] == n else 'add:new-bottom' if first['bot'] == n else 'add:inner')
        else:
            out.append('rem:top' if c['ci'] == t else 'rem:bottom' if c['ci'] == b else 'rem:inner')
        out.append(f'{r}:' + ('tb-given' if c['passtb'] else 'tb-None'))
        out.append(f'{r}:inplace' if c['inplace'] else f'{r}:copy:calls={len(io["calls"])}')
        rel = c.get('rel') or dict(src='oracle', val='set', keys='asc')
        out.append(f'{r}:rel={rel["src"]}' + (f':{rel["val"]}:{rel["keys"]}' if rel['src'] == 'oracle' else ''))
    return out


def signature(c, io, rep, v):
    r = c['routine']
    mode = 'par' if c.get('njobs', 1) > 1 else 'seq'
    what = ('err:' + io['err']) if isinstance(io, dict) and 'err' in io else 'wrong'
    if r in ('add', 'rem'):
        mode = 'inplace' if c.get('inplace') else 'copy'
        if 'modified although inplace=False' in v.get('detail', ''):
            what = 'caller-state-modified'
        elif 'do not hold the returned result' in v.get('detail', ''):
            what = 'passed-objects-stale'
    return f"C12:{r}:{'sorted' if c.get('sorted') else 'unsorted'}:{mode}:{v.get('kind')}:{what}"


def shrink(c):
    exts = c['exts']
    r = c['routine']
    if r == 'oe':
        return
    for fld in ('ctype', 'miner'):
        if c.get(fld):
            d = dict(c)
            d.pop(fld)
            yield d
    if c.get('rel'):
        d = dict(c)
        d.pop('rel')
        yield d
        if c['rel'].get('src') != 'oracle':
            for rel in ORACLE_RELS:
                yield dict(c, rel=dict(rel, kseed=1))
    for i in range(len(exts)):
        if c.get('rel', {}).get('src') == 'oe':
            break                       # order_extents_comparison needs the complete concept set
        if r == 'rem' and i == c['ci']:
            continue
        rest = exts[:i] + exts[i + 1:]
        if len(rest) < 2 or not has_top_bottom(rest):
            continue
        d = dict(c)
        d['exts'] = rest
        if r == 'rem':
            d['ci'] = c['ci'] - (1 if i < c['ci'] else 0)
            if not has_top_bottom(rest[:d['ci']] + rest[d['ci'] + 1:]) or len(rest) < 3:
                continue
        if r == 'add' and not all(has_top_bottom(rest + [x]) and x not in rest for x in [c['new']] + list(c.get('more', []))):
            continue
        if r == 'rem' and c.get('more'):
            mm = [x - (1 if i < x else 0) for x in c['more'] if x != i]
            if len(mm) != len(c['more']) or not all(has_top_bottom(rest[:x] + rest[x + 1:]) for x in mm):
                continue
            d['more'] = mm
        if c.get('sorted') and not is_linear_extension(rest):
            continue
        yield d
    if c.get('more'):
        for j in range(len(c['more'])):
            d = dict(c)
            d['more'] = c['more'][:j] + c['more'][j + 1:]
            yield d
    if c.get('swi'):
        d = dict(c)
        d.pop('swi')
        yield d
    if c.get('njobs', 1) > 2:
        d = dict(c)
        d['njobs'] = 2
        yield d

"""C16 — stability equals its definition and is bracketed by its published bounds."""
import glob
import json
import math
import os
import random
import warnings
from fractions import Fraction

import gen as G
from implutil import BACKENDS, SHORT, ints, make_context, exc_name

RULE = ('case = (table, backend, sequence of measure names); the lattice is ConceptLattice.from_context(K); for EVERY concept '
        'the real stability / stability_bounds / log_stability_lbound are called and calc_concepts_measures(name, K) + '
        'L.measures are observed after every name; floats are converted exactly with fractions.Fraction; exhaustive over '
        'all tables of the tier scope x 3 backends, then seeded random tables with 3..10 objects and 2..7 attributes (extents <= 10); '
        'non-trivial = table neither all-true nor all-false with >= 2 rows; distinct = distinct (table, backend, names)')
EXHAUSTIVE = {'quick': 'all tables with n<=4 objects, m<=3 attributes (5050) x 3 backends, every concept of each lattice',
              'thorough': 'all tables with n<=5, m<=4, n*m<=15 (43242) x 3 backends, every concept of each lattice'}
EXPLANATION = ('stability is pinned uniquely (Fca.C16.stability_def: model = |{S<=A | S\'=B}|/2^|A|), so an implementation value '
               'different from the Lean-recomputed definition value is a property failure; the bracket LStab<=Stab<=UStab and the '
               'exponentiated log bound (1-Stab)*2^Dmin <= |M| are evaluated in exact rational arithmetic by the Lean driver on the '
               'IMPLEMENTATION\'s numbers, and in floating point (margin 1e-9) on the harness side; the model values (proved to '
               'satisfy all of these for every concept lattice) are compared with the implementation as well')
ASSUMPTIONS = ['tables have n>=1 rows and m>=1 columns', 'the lattice is the one from_context builds (all concepts + cover relation); '
               'the driver re-checks that against the brute-force concept set on every case',
               'extent sizes <= 10 in the random stream (exact stability is exponential)',
               'implementation floats are dyadic rationals converted exactly; only the log bound (an irrational) is compared with '
               'a 1e-9 tolerance, after recovering its integer part Dmin exactly']
TRUSTED = ['fractions.Fraction(float) is exact; math.log2 of a small integer is accurate to 1e-12',
           'itertools.chain/combinations order (checked against the model by the powerset stream)',
           'target_entropy / mean_information_gain (numpy statistics of a target vector) are outside C16 and opaque in the model']
CHUNK = 150
REQUESTS_NEED_IMPL = True

NAMES = ['stability_bounds', 'LStab', 'UStab', 'stability', 'log_stability_lbound']
ORDERS = [
    ['stability', 'stability_bounds', 'log_stability_lbound'],
    ['LStab', 'stability'],
    ['log_stability_lbound', 'UStab', 'stability', 'LStab'],
    ['stability_bounds'],
    ['stability', 'stability'],
    ['UStab', 'log_stability_lbound'],
]
TOL = 1e-9


def _corpus():
    d = os.path.join(os.path.dirname(os.path.dirname(os.path.dirname(os.path.abspath(__file__)))), 'corpus', 'C16')
    for p in sorted(glob.glob(os.path.join(d, '*.json'))):
        c = json.load(open(p))
        c = c.get('case', c)
        c['stream'] = 'corpus'
        yield c


def gen(tier, seed, boost=False):
    rng = random.Random(seed * 1000003 + 1601)
    yield from _corpus()
    # the enumeration order of utils.powerset against the model's
    for k in range(0, 7):
        yield dict(stream='powerset', kind='powerset', s=list(range(k)))
    for _ in range(20):
        k = rng.randint(0, 7)
        yield dict(stream='powerset', kind='powerset', s=[rng.randint(0, 9) for _ in range(k)])
    # exhaustive small scope
    big = tier == 'thorough' or boost
    it = G.tables_upto(5, 4, cells=15) if big else G.tables_upto(4, 3)
    cnt = 0
    for rows in it:
        for be in BACKENDS:
            yield dict(stream='exhaustive', be=be, rows=rows, names=ORDERS[cnt % len(ORDERS)])
            cnt += 1
    # the same concept sets listed in other orders (re-ordered concept lists, remove + re-add)
    rng2 = random.Random(seed * 7919 + 1616)
    tabs = [rows for rows in G.tables_upto(3, 3) if G.is_mixed(rows)]
    rng2.shuffle(tabs)
    tabs = tabs[:120 if tier == 'quick' else 450] + [G.random_table(rng2, 8, 5, nmin=3, mmin=2) for _ in range(60 if tier == 'quick' else 600)]
    for i, rows in enumerate(tabs):
        for order in ('reversed', 'rotated', ['shuffle', rng2.randrange(10 ** 6)], ['readd', rng2.randrange(10 ** 6)]):
            yield dict(stream='reordered', be=BACKENDS[i % 3], rows=rows, names=[NAMES[i % len(NAMES)]], order=order)
    # seeded random larger cases (extents up to 10)
    nrand = 400 if tier == 'quick' else 4000
    if boost:
        nrand *= 3
    for i in range(nrand):
        rows = G.random_table(rng, 10, 7, nmin=3, mmin=2)
        k = rng.randint(1, 4)
        names = [rng.choice(NAMES) for _ in range(k)]
        yield dict(stream='random', be=BACKENDS[i % 3] if rng.random() < 0.8 else rng.choice(BACKENDS), rows=rows, names=names)
    # malformed: unknown measure names
    for i in range(12 if tier == 'quick' else 60):
        rows = G.random_table(rng, 4, 3)
        nm = rng.choice(['Stab', 'lstab', 'stability ', '', 'stability_bound', 'log_stability', 'xyz'])
        yield dict(stream='malformed', kind='badname', be=rng.choice(BACKENDS), rows=rows, name=nm)


def frac(x):
    """exact value of a Python number as [num, den]"""
    f = Fraction(x)
    return [f.numerator, f.denominator]


def _canon_arrays(md, n_attrs):
    out = []
    for k, vs in md.items():
        vals = []
        for v in list(vs):
            if v is None:
                vals.append(None)
            elif k == 'log_stability_lbound':
                vals.append(_logd(float(v), n_attrs))
            else:
                vals.append(frac(float(v)))
        out.append([str(k), vals])
    return out


def _logd(v, n_attrs):
    """the float `Dmin - log2(n)` -> {'d': Dmin or None (inf), 'err': distance from an integer, 'f': value}"""
    if math.isinf(v) and v > 0:
        return dict(d=None, err=0.0, f='inf')
    if math.isnan(v) or math.isinf(v):
        return dict(d=-1, err=float('inf'), f=repr(v))
    d = v + math.log2(n_attrs)
    r = round(d)
    return dict(d=int(r), err=abs(d - r), f=v)


def _lattice(c):
    from fcapy.lattice import ConceptLattice
    K = make_context(c['rows'], c['be'])
    L = ConceptLattice.from_context(K)
    order = c.get('order')
    if order:
        # the same concepts listed in another order (the measures must not rely on the listing order):
        # a lattice rebuilt from a re-ordered concept list, or one whose concept was removed and re-added
        cs = list(L)
        n = len(cs)
        if order == 'reversed':
            L = ConceptLattice(cs[::-1])
        elif order == 'rotated':
            L = ConceptLattice(cs[n // 2:] + cs[:n // 2])
        elif order[0] == 'shuffle':
            r = random.Random(order[1])
            r.shuffle(cs)
            L = ConceptLattice(cs)
        elif order[0] == 'readd' and n > 2:
            i = 1 + order[1] % (n - 2)
            conc = L[i]
            L.remove(conc)
            L.add(conc)
    return K, L


def impl(c):
    warnings.filterwarnings('ignore')
    if c.get('kind') == 'powerset':
        from fcapy.utils.utils import powerset
        return {'powerset': [ints(x) for x in powerset(list(c['s']))]}
    from fcapy.lattice import concept_measures as cms
    try:
        K, L = _lattice(c)
        if c.get('kind') == 'badname':
            try:
                L.calc_concepts_measures(c['name'], K)
                return {'ok': _canon_arrays(L.measures, K.n_bin_attrs)}
            except Exception as e:
                return {'err': exc_name(e)}
        n = len(L)
        out = dict(concepts=[[ints(L[i].extent_i), ints(L[i].intent_i)] for i in range(n)],
                   children=[ints(list(L.children(i))) for i in range(n)],
                   n_bin_attrs=int(K.n_bin_attrs))
        out['stab'] = [frac(cms.stability(i, L, K)) for i in range(n)]
        bs = [cms.stability_bounds(i, L) for i in range(n)]
        out['lb'] = [frac(b[0]) for b in bs]
        out['ub'] = [frac(b[1]) for b in bs]
        out['log'] = [_logd(float(cms.log_stability_lbound(i, L, K.n_bin_attrs)), K.n_bin_attrs) for i in range(n)]
        calls = []
        for nm in c['names']:
            L.calc_concepts_measures(nm, K)
            calls.append(_canon_arrays(L.measures, K.n_bin_attrs))
        out['calls'] = calls
        return out
    except Exception as e:
        return {'err': exc_name(e), 'msg': str(e)[:200]}


def requests(c, io):
    if c.get('kind') == 'powerset':
        return [dict(op='C16.powerset', s=c['s'])]
    w = len(c['rows'][0])
    if c.get('kind') == 'badname':
        K, L = _lattice(c)
        return [dict(op='C16.calc', be=SHORT[c['be']], rows=c['rows'], w=w, name=c['name'],
                     concepts=[[ints(x.extent_i), ints(x.intent_i)] for x in L],
                     children=[ints(list(L.children(i))) for i in range(len(L))])]
    if 'err' in io:
        return []
    return [dict(op='C16.table', be=SHORT[c['be']], rows=c['rows'], w=w, concepts=io['concepts'], children=io['children'],
                 stab=io['stab'], lb=io['lb'], ub=io['ub'],
                 logd=[(x['d'] if x['d'] is None or x['d'] >= 0 else 0) for x in io['log']], names=c['names'])]


def _bad(kind, what, detail):
    return dict(ok=False, kind=kind, what=what, detail=detail)


def _float_log_ok(logf, stab):
    """log bound <= -log2(1 - stability), in floating point with margin TOL (stab = 1 -> +inf on the right)"""
    s = Fraction(stab[0], stab[1])
    rhs = math.inf if s >= 1 else -math.log2(float(1 - s))
    lhs = math.inf if logf == 'inf' else float(logf)
    return lhs <= rhs + TOL


def judge(c, io, rep):
    if c.get('kind') == 'powerset':
        if io['powerset'] == rep[0]['powerset']:
            return dict(ok=True)
        return _bad('correspondence', 'powerset', f'utils.powerset order {io["powerset"]} != model {rep[0]["powerset"]}')
    if c.get('kind') == 'badname':
        r = rep[0]
        if 'err' in io and io.get('err') == r.get('err'):
            return dict(ok=True)
        return _bad('correspondence', 'badname', f'unknown measure name {c["name"]!r}: implementation {io}, model {r}')
    if 'err' in io:
        return _bad('property', 'raised:' + io['err'], f'implementation raised {io["err"]}: {io.get("msg")}')
    r = rep[0]
    n = len(io['concepts'])
    # ---- the property on the implementation's own numbers (oracle: Lean spec + exact arithmetic) ----
    for i in range(n):
        if io['stab'][i] != r['def'][i]:
            return _bad('property', 'stab-def', f'concept {i} {io["concepts"][i]}: stability {io["stab"][i]} but '
                                                  f'|{{S<=A | S\'=B}}|/2^|A| = {r["def"][i]}')
    for i in range(n):
        if not r['impl_bracket'][i]:
            return _bad('property', 'bracket', f'concept {i} {io["concepts"][i]}: not LStab <= Stab <= UStab: '
                                                 f'lb={io["lb"][i]} stab={io["stab"][i]} ub={io["ub"][i]}')
    for i in range(n):
        lg = io['log'][i]
        if not _float_log_ok(lg['f'], io['stab'][i]):
            return _bad('property', 'log', f'concept {i} {io["concepts"][i]}: log bound {lg["f"]} > -log2(1 - {io["stab"][i]})')
    for i in range(n):
        lg = io['log'][i]
        if lg['err'] > TOL:
            return _bad('correspondence', 'log-form', f'concept {i}: log bound {lg["f"]} is not (integer - log2({io["n_bin_attrs"]}))')
        if not r['impl_log'][i]:
            return _bad('property', 'log', f'concept {i} {io["concepts"][i]}: exponentiated log bound fails: '
                                             f'(1-{io["stab"][i]})*2^{lg["d"]} > {io["n_bin_attrs"]}')
    for k, arrays in enumerate(io['calls']):
        if not arrays:
            return _bad('property', 'arrays', f'no measure stored after calc_concepts_measures({c["names"][k]!r})')
        for name, vs in arrays:
            if len(vs) != n or any(v is None for v in vs):
                return _bad('property', 'arrays', f'after {c["names"][:k + 1]}: measures[{name!r}] has {len(vs)} values '
                                                    f'({sum(v is None for v in vs)} None) for {n} concepts')
    # ---- preconditions of the theorems, then model = implementation ----
    if not r['concepts_ok'] or not r['lattice_ok']:
        return _bad('correspondence', 'lattice', 'the lattice data is not the concept lattice of the table '
                                                 f'(concepts_ok={r["concepts_ok"]}, lattice_ok={r["lattice_ok"]}): '
                                                 f'concepts={io["concepts"]} children={io["children"]}')
    if r['stab'] != r['def']:
        return _bad('harness', 'model-def', f'model stability {r["stab"]} != definition {r["def"]} (contradicts stability_def)')
    if not all(r['model_bracket']) or not all(r['model_log']):
        return _bad('harness', 'model-bracket', f'model violates its theorem: bracket={r["model_bracket"]} log={r["model_log"]}')
    mb = [[b[0], b[1]] if isinstance(b, list) else b for b in r['bounds']]
    ib = [[io['lb'][i], io['ub'][i]] for i in range(n)]
    if mb != ib:
        return _bad('correspondence', 'bounds', f'stability_bounds {ib} != model {mb}')
    ml = [[x[0], x[1]] if isinstance(x, list) else x for x in r['log']]
    il = [[io['log'][i]['d'], io['n_bin_attrs']] for i in range(n)]
    if ml != il:
        return _bad('correspondence', 'logval', f'log_stability_lbound (Dmin, n) {il} != model {ml}')
    # arrays after each call
    if len(r['calls']) != len(io['calls']):
        return _bad('correspondence', 'calls', f'model calls {r["calls"]} vs implementation {io["calls"]}')
    for k, (ia, ma) in enumerate(zip(io['calls'], r['calls'])):
        if isinstance(ma, dict):
            return _bad('correspondence', 'calls', f'model raised {ma} at call {k}')
        ia2 = [[name, [([v['d'], io['n_bin_attrs']] if isinstance(v, dict) else v) for v in vs]] for name, vs in ia]
        for name, vs in ia2:
            direct = {'Stab': io['stab'], 'LStab': io['lb'], 'UStab': io['ub'],
                      'log_stability_lbound': [[x['d'], io['n_bin_attrs']] for x in io['log']]}.get(name)
            if direct is not None and vs != direct:
                return _bad('property', 'arrays', f'after {c["names"][:k + 1]}: measures[{name!r}] {vs} is not the list of '
                                                    f'per-concept values {direct} of the measure function')
        if ia2 != ma:
            return _bad('correspondence', 'arrays-val', f'after {c["names"][:k + 1]}: measures {ia2} != model {ma}')
    return dict(ok=True)


def nontrivial(c):
    return 'rows' in c and c.get('kind') is None and G.is_mixed(c['rows']) and len(c['rows']) >= 2


def key(c):
    return [c.get('rows'), c.get('be'), c.get('names'), c.get('kind'), c.get('s'), c.get('name'), c.get('order')]


def branch(c, io, rep):
    out = [c['stream']]
    if c.get('kind') or 'err' in io:
        return out + [c.get('kind') or 'err']
    out.append(c['be'])
    n = len(io['concepts'])
    out.append('concepts:%s' % ('1' if n == 1 else '2-4' if n <= 4 else '5-8' if n <= 8 else '9-16' if n <= 16 else '17+'))
    out.append('maxextent:%d' % max(len(x[0]) for x in io['concepts']))
    fr = lambda p: Fraction(p[0], p[1])
    strict = tight_l = tight_u = neg = 0
    for i in range(n):
        s, lb, ub = fr(io['stab'][i]), fr(io['lb'][i]), fr(io['ub'][i])
        strict += lb < s < ub
        tight_l += lb == s
        tight_u += ub == s
        neg += lb < 0
    if strict:
        out.append('bracket:strict')
    if tight_l:
        out.append('bracket:lb=stab')
    if tight_u:
        out.append('bracket:ub=stab')
    if neg:
        out.append('lb<0')
    if any(len(x[0]) == 0 for x in io['concepts']):
        out.append('empty-extent')
    if any(len(ch) >= 3 for ch in io['children']):
        out.append('children>=3')
    return out


def signature(c, io, rep, v):
    return f"C16:{v.get('what', v.get('kind'))}"


def shrink(c):
    if c.get('kind') == 'powerset':
        return
    yield from G.shrink_table_case(c)
    if c.get('names') and len(c['names']) > 1:
        for i in range(len(c['names'])):
            d = dict(c)
            d['names'] = c['names'][:i] + c['names'][i + 1:]
            yield d

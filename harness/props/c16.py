"""C16 — stability equals its definition and is bracketed by its published bounds."""
import glob
import json
import math
import os
import random
import warnings
from fractions import Fraction

import gen as G
from implutil import BACKENDS, SHORT, ints, make_context, exc_name

RULE = ('case = (table, backend, sequence of measure names); the lattice is ConceptLattice.from_context(K); for EVERY concept '
        'the real stability / stability_bounds / log_stability_lbound are called and calc_concepts_measures(name, K) + '
        'L.measures are observed after every name; floats are converted exactly with fractions.Fraction; exhaustive over '
        'all tables of the tier scope x 3 backends, then seeded random tables with 3..10 objects and 2..7 attributes (extents <= 10); '
        'streams beyond the complete from_context lattice: `reordered` (same concepts, other listing orders), `pruned` (Sofia with a small '
        'L_max, sub-selections keeping top and bottom, lattices after remove: ONLY stability = definition is judged there, the '
        'bounds presuppose the complete lattice), `history` (intermediate calc_concepts_measures on a reduced / partial / '
        'object-sharing lattice, then the complete lattice restored from the SAME concept objects and judged as usual); '
        '`wide` (2..6 objects x 64..130 attributes: objects told apart only by columns >= 64, spread / duplicated columns; the '
        'driver enumerates the concepts from the object side), `tall` (11..13 objects, two-digit indexes), `dupnames` (duplicated '
        'object and attribute names, also under reordering / pruning / histories), `ctxmut` (the SAME context object used, then '
        'changed through the public setters K.data.data / object_names / attribute_names, then used again: judged for the current content); '
        'non-trivial = table neither all-true nor all-false with >= 2 rows; distinct = distinct (table, backend, names, variant)')
EXHAUSTIVE = {'quick': 'all tables with n<=4 objects, m<=3 attributes (5050) x 3 backends, every concept of each lattice',
              'thorough': 'all tables with n<=5, m<=4, n*m<=15 (43242) x 3 backends, every concept of each lattice'}
EXPLANATION = ('stability is pinned uniquely (Fca.C16.stability_def: model = |{S<=A | S\'=B}|/2^|A|), so an implementation value '
               'different from the Lean-recomputed definition value is a property failure; the bracket LStab<=Stab<=UStab and the '
               'exponentiated log bound (1-Stab)*2^Dmin <= |M| are evaluated in exact rational arithmetic by the Lean driver on the '
               'IMPLEMENTATION\'s numbers, and in floating point (margin 1e-9) on the harness side; the model values (proved to '
               'satisfy all of these for every concept lattice) are compared with the implementation as well')
ASSUMPTIONS = ['tables have n>=1 rows and m>=1 columns (up to 130 columns in the wide stream); object / attribute names are arbitrary strings, '
               'duplicates allowed (the measures are defined on object indexes)', 'bounds / log bound / arrays are judged on complete concept lattices (from_context, re-ordered, or restored through a '
               'remove/add/grow/shared-object history; the driver re-checks completeness + covers against the brute-force concept '
               'set on every such case); on pruned lattices (Sofia L_max, sub-selections, after remove) only stability = definition '
               'is judged, every listed pair being re-checked to be a genuine concept',
               'extent sizes <= 10 in the random stream (exact stability is exponential)',
               'implementation floats are dyadic rationals converted exactly; only the log bound (an irrational) is compared with '
               'a 1e-9 tolerance, after recovering its integer part Dmin exactly']
TRUSTED = ['fractions.Fraction(float) is exact; math.log2 of a small integer is accurate to 1e-12',
           'itertools.chain/combinations order (checked against the model by the powerset stream)',
           'target_entropy / mean_information_gain (numpy statistics of a target vector) are outside C16 and opaque in the model']
CHUNK = 150
REQUESTS_NEED_IMPL = True

NAMES = ['stability_bounds', 'LStab', 'UStab', 'stability', 'log_stability_lbound']
ORDERS = [
    ['stability', 'stability_bounds', 'log_stability_lbound'],
    ['LStab', 'stability'],
    ['log_stability_lbound', 'UStab', 'stability', 'LStab'],
    ['stability_bounds'],
    ['stability', 'stability'],
    ['UStab', 'log_stability_lbound'],
]
TOL = 1e-9


def _corpus():
    d = os.path.join(os.path.dirname(os.path.dirname(os.path.dirname(os.path.abspath(__file__)))), 'corpus', 'C16')
    for p in sorted(glob.glob(os.path.join(d, '*.json'))):
        c = json.load(open(p))
        c = c.get('case', c)
        c['stream'] = 'corpus'
        yield c


def gen(tier, seed, boost=False):
    rng = random.Random(seed * 1000003 + 1601)
    yield from _corpus()
    # the enumeration order of utils.powerset against the model's
    for k in range(0, 7):
        yield dict(stream='powerset', kind='powerset', s=list(range(k)))
    for _ in range(20):
        k = rng.randint(0, 7)
        yield dict(stream='powerset', kind='powerset', s=[rng.randint(0, 9) for _ in range(k)])
    # exhaustive small scope
    big = tier == 'thorough' or boost
    it = G.tables_upto(5, 4, cells=15) if big else G.tables_upto(4, 3)
    cnt = 0
    for rows in it:
        for be in BACKENDS:
            yield dict(stream='exhaustive', be=be, rows=rows, names=ORDERS[cnt % len(ORDERS)])
            cnt += 1
    # the same concept sets listed in other orders (re-ordered concept lists, remove + re-add)
    rng2 = random.Random(seed * 7919 + 1616)
    tabs = [rows for rows in G.tables_upto(3, 3) if G.is_mixed(rows)]
    rng2.shuffle(tabs)
    tabs = tabs[:120 if tier == 'quick' else 450] + [G.random_table(rng2, 8, 5, nmin=3, mmin=2) for _ in range(60 if tier == 'quick' else 600)]
    for i, rows in enumerate(tabs):
        for order in ('reversed', 'rotated', ['shuffle', rng2.randrange(10 ** 6)], ['readd', rng2.randrange(10 ** 6)]):
            yield dict(stream='reordered', be=BACKENDS[i % 3], rows=rows, names=[NAMES[i % len(NAMES)]], order=order)
    # lattices that are NOT the complete concept lattice: only `stability` = definition is judged
    rng3 = random.Random(seed * 104729 + 1617)
    small = [rows for rows in G.tables_upto(4, 3) if G.is_mixed(rows) and len(rows) >= 3]
    rng3.shuffle(small)
    ptabs = small[:100 if tier == 'quick' else 600] + \
        [G.random_table(rng3, 8, 6, nmin=3, mmin=2) for _ in range(120 if tier == 'quick' else 1200)]
    for i, rows in enumerate(ptabs):
        for prune in (['sofia', rng3.choice([1, 2, 3, 4, 6])], ['select', rng3.randrange(10 ** 6)],
                      ['remove', rng3.randrange(10 ** 6)]):
            yield dict(stream='pruned', be=BACKENDS[i % 3], rows=rows, names=[], prune=prune)
    # histories: measures computed on a reduced lattice first, then on the complete lattice made of the same concept objects
    htabs = small[100:180 if tier == 'quick' else 700] + \
        [G.random_table(rng3, 8, 6, nmin=3, mmin=2) for _ in range(120 if tier == 'quick' else 1200)]
    for i, rows in enumerate(htabs):
        for kind in ('remove', 'grow', 'shared'):
            mid = [rng3.choice(NAMES[:3])] if rng3.random() < 0.8 else [rng3.choice(NAMES) for _ in range(2)]
            # the final calls recompute every measure family touched before (so that no partial, stale key is left on
            # the shared concept objects) and always one of the bounds names
            names = [rng3.choice(NAMES[:3])] + [nm for nm in dict.fromkeys(mid) if nm not in NAMES[:3]]
            names += [rng3.choice(NAMES) for _ in range(rng3.randint(0, 1))]
            rng3.shuffle(names)
            yield dict(stream='history', be=BACKENDS[i % 3], rows=rows, names=names, hist=[kind, rng3.randrange(10 ** 6)], mid=mid)
    # shape extremes: more than 64 attributes (bit packing), few objects so that 2^|extent| stays small
    rng4 = random.Random(seed * 15485863 + 1618)
    k = 0
    for core in G.tables_upto(3, 2):
        if not G.is_mixed(core):
            continue
        for fill in (0, 1):    # objects differ ONLY in the columns 64.. ; column 0 constant
            rows = [[fill] * 64 + list(r) + [0] for r in core]
            yield dict(stream='wide', be=BACKENDS[k % 3], rows=rows, names=ORDERS[k % len(ORDERS)], wide=True)
            k += 1
    for i in range(150 if tier == 'quick' else 1500):
        yield dict(stream='wide', be=BACKENDS[i % 3], rows=_wide_table(rng4), names=[rng4.choice(NAMES) for _ in range(rng4.randint(1, 3))],
                   wide=True)
    # two-digit object indexes
    for i in range(6 if tier == 'quick' else 40):
        rows = G.random_table(rng4, 13, 3, nmin=11, mmin=2)
        yield dict(stream='tall', be=BACKENDS[i % 3], rows=rows, names=[rng4.choice(['stability_bounds', 'log_stability_lbound', 'LStab'])])
    # duplicated object / attribute names (FormalContext accepts them): plain, re-ordered, pruned and history variants
    small2 = [rows for rows in G.tables_upto(4, 3) if G.is_mixed(rows) and len(rows) >= 2]
    rng4.shuffle(small2)
    dtabs = small2[:150 if tier == 'quick' else 1200] + \
        [G.random_table(rng4, 8, 6, nmin=3, mmin=2) for _ in range(100 if tier == 'quick' else 1000)]
    for i, rows in enumerate(dtabs):
        objs, attrs = _dup_names(rng4, len(rows), 'g'), _dup_names(rng4, len(rows[0]), 'm')
        base = dict(stream='dupnames', be=BACKENDS[i % 3], rows=rows, objs=objs, attrs=attrs)
        v = i % 4
        if v == 0 or v == 1:
            yield dict(base, names=[rng4.choice(NAMES) for _ in range(rng4.randint(1, 3))])
        elif v == 2:
            yield dict(base, names=[rng4.choice(NAMES)], order=rng4.choice(['reversed', 'rotated', ['shuffle', rng4.randrange(10 ** 6)],
                                                                            ['readd', rng4.randrange(10 ** 6)]]))
        else:
            mid = [rng4.choice(NAMES[:3])]
            yield dict(base, names=[rng4.choice(NAMES[:3]), rng4.choice(NAMES)], mid=mid,
                       hist=[rng4.choice(['remove', 'grow', 'shared']), rng4.randrange(10 ** 6)])
            yield dict(base, names=[], prune=[rng4.choice(['select', 'remove']), rng4.randrange(10 ** 6)])
    # the same context object: used, changed through its public setters, used again (answers must be those of the current content)
    for i in range(200 if tier == 'quick' else 2000):
        if i % 2:
            rows = G.random_table(rng4, 7, 5, nmin=2, mmin=2)
        else:
            rows = rng4.choice(small2)
        n, m = len(rows), len(rows[0])
        how = rng4.choice(['data', 'data', 'data+names', 'names'])
        rows0 = rows if how == 'names' else _perturb(rng4, rows)
        mut = dict(rows0=rows0, how=how, objs0=_dup_names(rng4, n, 'h') if rng4.random() < 0.5 else None,
                   attrs0=_dup_names(rng4, m, 'k') if rng4.random() < 0.5 else None)
        named = how != 'data'
        yield dict(stream='ctxmut', be=BACKENDS[i % 3], rows=rows, names=[rng4.choice(NAMES) for _ in range(rng4.randint(1, 3))], mut=mut,
                   objs=_dup_names(rng4, n, 'g') if named else mut['objs0'], attrs=_dup_names(rng4, m, 'm') if named else mut['attrs0'])
    # seeded random larger cases (extents up to 10)
    nrand = 400 if tier == 'quick' else 4000
    if boost:
        nrand *= 3
    for i in range(nrand):
        rows = G.random_table(rng, 10, 7, nmin=3, mmin=2)
        k = rng.randint(1, 4)
        names = [rng.choice(NAMES) for _ in range(k)]
        yield dict(stream='random', be=BACKENDS[i % 3] if rng.random() < 0.8 else rng.choice(BACKENDS), rows=rows, names=names)
    # malformed: unknown measure names
    for i in range(12 if tier == 'quick' else 60):
        rows = G.random_table(rng, 4, 3)
        nm = rng.choice(['Stab', 'lstab', 'stability ', '', 'stability_bound', 'log_stability', 'xyz'])
        yield dict(stream='malformed', kind='badname', be=rng.choice(BACKENDS), rows=rows, name=nm)


def _wide_table(rng):
    """2..6 objects x 64..130 attributes built from a small core of distinguishing columns"""
    n = rng.randint(2, 6)
    m = rng.choice([64, 65, 66, 70, 96, 127, 128, 129, 130, rng.randint(65, 130), rng.randint(65, 130)])
    k = rng.randint(1, 4)
    while True:
        core = [[int(rng.random() < 0.5) for _ in range(k)] for _ in range(n)]
        if len({tuple(r) for r in core}) > 1:
            break
    fam = rng.choice(['tail', 'tail', 'spread', 'dup', 'random'])
    if fam == 'random':
        d = rng.choice((0.1, 0.5, 0.9))
        return [[int(rng.random() < d) for _ in range(m)] for _ in range(n)]
    if fam == 'dup':     # every column is a copy of a core column or constant
        src = [rng.randrange(-2, k) for _ in range(m)]
        return [[(1 if j == -1 else 0 if j == -2 else core[g][j]) for j in src] for g in range(n)]
    const = [int(rng.random() < 0.25) for _ in range(m)]
    lo = max(0, min(64, m - k)) if fam == 'tail' else 0
    pos = rng.sample(range(lo, m), k)
    rows = [list(const) for _ in range(n)]
    for g in range(n):
        for t, j in enumerate(pos):
            rows[g][j] = core[g][t]
    return rows


def _dup_names(rng, n, prefix):
    """n names drawn from a pool smaller than n (duplicates guaranteed for n >= 2)"""
    p = rng.randint(1, max(1, n - 1))
    return [f'{prefix}{rng.randrange(p)}' for _ in range(n)]


def _perturb(rng, rows):
    """another table of the same shape"""
    out = [list(r) for r in rows]
    for _ in range(rng.randint(1, max(1, len(rows) * len(rows[0]) // 2))):
        i, j = rng.randrange(len(rows)), rng.randrange(len(rows[0]))
        out[i][j] = 1 - out[i][j]
    if rng.random() < 0.3:
        rng.shuffle(out)
    return out


def frac(x):
    """exact value of a Python number as [num, den]"""
    f = Fraction(x)
    return [f.numerator, f.denominator]


def _canon_arrays(md, n_attrs):
    out = []
    for k, vs in md.items():
        vals = []
        for v in list(vs):
            if v is None:
                vals.append(None)
            elif k == 'log_stability_lbound':
                vals.append(_logd(float(v), n_attrs))
            else:
                vals.append(frac(float(v)))
        out.append([str(k), vals])
    return out


def _logd(v, n_attrs):
    """the float `Dmin - log2(n)` -> {'d': Dmin or None (inf), 'err': distance from an integer, 'f': value}"""
    if math.isinf(v) and v > 0:
        return dict(d=None, err=0.0, f='inf')
    if math.isnan(v) or math.isinf(v):
        return dict(d=-1, err=float('inf'), f=repr(v))
    d = v + math.log2(n_attrs)
    r = round(d)
    return dict(d=int(r), err=abs(d - r), f=v)


def _lattice(c):
    from fcapy.lattice import ConceptLattice
    if c.get('mut'):
        K = _mutated_context(c)
    else:
        K = make_context(c['rows'], c['be'], c.get('objs'), c.get('attrs'))
    L = ConceptLattice.from_context(K)
    order = c.get('order')
    if order:
        # the same concepts listed in another order (the measures must not rely on the listing order):
        # a lattice rebuilt from a re-ordered concept list, or one whose concept was removed and re-added
        cs = list(L)
        n = len(cs)
        if order == 'reversed':
            L = ConceptLattice(cs[::-1])
        elif order == 'rotated':
            L = ConceptLattice(cs[n // 2:] + cs[:n // 2])
        elif order[0] == 'shuffle':
            r = random.Random(order[1])
            r.shuffle(cs)
            L = ConceptLattice(cs)
        elif order[0] == 'readd' and n > 2:
            i = 1 + order[1] % (n - 2)
            conc = L[i]
            L.remove(conc)
            L.add(conc)
    if c.get('prune'):
        L = _prune(c, K, L)
    if c.get('hist'):
        L = _history(c, K, L)
    return K, L


def _mutated_context(c):
    """a PRIVATE context object: built with the old content, used (lattice + every measure), then changed through the public
    setters to the content of the case"""
    from fcapy.context import FormalContext
    from fcapy.lattice import ConceptLattice
    from fcapy.lattice import concept_measures as cms
    mut = c['mut']
    K = FormalContext(data=[[bool(v) for v in r] for r in mut['rows0']], object_names=mut.get('objs0'),
                      attribute_names=mut.get('attrs0'), backend=c['be'])
    L0 = ConceptLattice.from_context(K)
    for i in range(len(L0)):
        cms.stability(i, L0, K), cms.stability_bounds(i, L0), cms.log_stability_lbound(i, L0, K.n_bin_attrs)
    for nm in NAMES:
        L0.calc_concepts_measures(nm, K)
    L0.measures
    if mut['how'] in ('data', 'data+names'):
        K.data.data = [[bool(v) for v in r] for r in c['rows']]
    if mut['how'] in ('names', 'data+names'):
        K.object_names = list(c['objs'])
        K.attribute_names = list(c['attrs'])
    return K


def _mid(L):
    return [i for i in range(len(L)) if i not in (L.top, L.bottom)]


def _prune(c, K, L):
    """a lattice holding only SOME concepts of the context (each still a genuine concept of K)"""
    from fcapy.lattice import ConceptLattice
    kind, arg = c['prune']
    if kind == 'sofia':
        return ConceptLattice.from_context(K, algo='Sofia', L_max=arg)
    r = random.Random(arg)
    mid = _mid(L)
    if kind == 'select':
        keep = {i for i in mid if r.random() < 0.5}
        return ConceptLattice([x for i, x in enumerate(L) if i in keep or i in (L.top, L.bottom)])
    if kind == 'remove' and mid:
        for x in [L[i] for i in r.sample(mid, min(len(mid), r.randint(1, 2)))]:
            L.remove(x)
    return L


def _history(c, K, L):
    """intermediate calc_concepts_measures calls on a reduced / partial / object-sharing lattice; returns the complete
    lattice made of the SAME concept objects"""
    from fcapy.lattice import ConceptLattice
    kind, arg = c['hist']
    r = random.Random(arg)

    def mid_calc(X):
        for nm in c['mid']:
            X.calc_concepts_measures(nm, K)
        m = X.measures
        assert all(len(v) == len(X) for v in m.values()), 'intermediate measures arrays of unequal length'

    mid = _mid(L)
    if kind == 'remove':
        victims = [L[i] for i in r.sample(mid, min(len(mid), r.randint(1, 2)))]
        for x in victims:
            L.remove(x)
        mid_calc(L)
        for x in victims:
            L.add(x)
    elif kind == 'grow':
        allc = list(L)
        first = [x for i, x in enumerate(allc) if i in (L.top, L.bottom) or r.random() < 0.4]
        rest = [x for x in allc if not any(x is y for y in first)]
        r.shuffle(rest)
        L = ConceptLattice(first)
        mid_calc(L)
        for k, x in enumerate(rest):
            L.add(x)
            if r.random() < 0.25:
                mid_calc(L)
    elif kind == 'shared':
        keep = {i for i in mid if r.random() < 0.4}
        small = ConceptLattice([x for i, x in enumerate(L) if i in keep or i in (L.top, L.bottom)])
        mid_calc(small)
    return L


def impl(c):
    warnings.filterwarnings('ignore')
    if c.get('kind') == 'powerset':
        from fcapy.utils.utils import powerset
        return {'powerset': [ints(x) for x in powerset(list(c['s']))]}
    from fcapy.lattice import concept_measures as cms
    try:
        K, L = _lattice(c)
        if c.get('kind') == 'badname':
            try:
                L.calc_concepts_measures(c['name'], K)
                return {'ok': _canon_arrays(L.measures, K.n_bin_attrs)}
            except Exception as e:
                return {'err': exc_name(e)}
        n = len(L)
        out = dict(concepts=[[ints(L[i].extent_i), ints(L[i].intent_i)] for i in range(n)],
                   children=[ints(list(L.children(i))) for i in range(n)],
                   n_bin_attrs=int(K.n_bin_attrs))
        out['stab'] = [frac(cms.stability(i, L, K)) for i in range(n)]
        if c.get('prune'):
            L.calc_concepts_measures('stability', K)
            out['calls'] = [_canon_arrays(L.measures, K.n_bin_attrs)]
            return out
        bs = [cms.stability_bounds(i, L) for i in range(n)]
        out['lb'] = [frac(b[0]) for b in bs]
        out['ub'] = [frac(b[1]) for b in bs]
        out['log'] = [_logd(float(cms.log_stability_lbound(i, L, K.n_bin_attrs)), K.n_bin_attrs) for i in range(n)]
        calls = []
        for nm in c['names']:
            L.calc_concepts_measures(nm, K)
            if not c.get('hist'):
                calls.append(_canon_arrays(L.measures, K.n_bin_attrs))
        if c.get('hist'):   # keys of the intermediate calls are complete only after the last final call
            calls.append(_canon_arrays(L.measures, K.n_bin_attrs))
        out['calls'] = calls
        return out
    except Exception as e:
        return {'err': exc_name(e), 'msg': str(e)[:200]}


def requests(c, io):
    if c.get('kind') == 'powerset':
        return [dict(op='C16.powerset', s=c['s'])]
    w = len(c['rows'][0])
    if c.get('kind') == 'badname':
        K, L = _lattice(c)
        return [dict(op='C16.calc', be=SHORT[c['be']], rows=c['rows'], w=w, name=c['name'],
                     concepts=[[ints(x.extent_i), ints(x.intent_i)] for x in L],
                     children=[ints(list(L.children(i))) for i in range(len(L))])]
    if 'err' in io:
        return []
    if c.get('prune'):
        return [dict(op='C16.table', be=SHORT[c['be']], rows=c['rows'], w=w, concepts=io['concepts'], children=io['children'],
                     stab=io['stab'], lb=[], ub=[], logd=[], names=[])]
    return [dict(op='C16.table', objside=bool(c.get('wide')), be=SHORT[c['be']], rows=c['rows'], w=w, concepts=io['concepts'], children=io['children'],
                 stab=io['stab'], lb=io['lb'], ub=io['ub'],
                 logd=[(x['d'] if x['d'] is None or x['d'] >= 0 else 0) for x in io['log']], names=c['names'])]


def _bad(kind, what, detail):
    return dict(ok=False, kind=kind, what=what, detail=detail)


def _float_log_ok(logf, stab):
    """log bound <= -log2(1 - stability), in floating point with margin TOL (stab = 1 -> +inf on the right)"""
    s = Fraction(stab[0], stab[1])
    rhs = math.inf if s >= 1 else -math.log2(float(1 - s))
    lhs = math.inf if logf == 'inf' else float(logf)
    return lhs <= rhs + TOL


def judge(c, io, rep):
    if c.get('kind') == 'powerset':
        if io['powerset'] == rep[0]['powerset']:
            return dict(ok=True)
        return _bad('correspondence', 'powerset', f'utils.powerset order {io["powerset"]} != model {rep[0]["powerset"]}')
    if c.get('kind') == 'badname':
        r = rep[0]
        if 'err' in io and io.get('err') == r.get('err'):
            return dict(ok=True)
        return _bad('correspondence', 'badname', f'unknown measure name {c["name"]!r}: implementation {io}, model {r}')
    if 'err' in io:
        return _bad('property', 'raised:' + io['err'], f'implementation raised {io["err"]}: {io.get("msg")}')
    r = rep[0]
    n = len(io['concepts'])
    if c.get('prune'):
        # not the complete lattice: stability is defined by the concept and the context alone, so it is still pinned;
        # the bounds / log bound presuppose the complete lattice and are not judged here
        for i in range(n):
            if io['stab'][i] != r['def'][i]:
                return _bad('property', 'stab-def', f'pruned lattice {c["prune"]}, concept {i} {io["concepts"][i]} '
                                                      f'(children {io["children"][i]}): stability {io["stab"][i]} but '
                                                      f'|{{S<=A | S\'=B}}|/2^|A| = {r["def"][i]}')
        arr = dict((k, v) for k, v in io['calls'][0])
        if arr.get('Stab') != io['stab']:
            return _bad('property', 'arrays', f'pruned lattice: measures["Stab"] {arr.get("Stab")} is not the list of '
                                                f'per-concept stabilities {io["stab"]}')
        if not r['concepts_ok']:
            return _bad('correspondence', 'lattice', f'a pruned lattice holds a non-concept: {io["concepts"]}')
        if r['stab'] != r['def']:
            return _bad('harness', 'model-def', f'model stability {r["stab"]} != definition {r["def"]} (contradicts stability_def)')
        return dict(ok=True)
    for i in range(n):
        if io['stab'][i] != r['def'][i]:
            return _bad('property', 'stab-def', f'concept {i} {io["concepts"][i]}: stability {io["stab"][i]} but '
                                                  f'|{{S<=A | S\'=B}}|/2^|A| = {r["def"][i]}')
    for i in range(n):
        if not r['impl_bracket'][i]:
            return _bad('property', 'bracket', f'concept {i} {io["concepts"][i]}: not LStab <= Stab <= UStab: '
                                                 f'lb={io["lb"][i]} stab={io["stab"][i]} ub={io["ub"][i]}')
    for i in range(n):
        lg = io['log'][i]
        if not _float_log_ok(lg['f'], io['stab'][i]):
            return _bad('property', 'log', f'concept {i} {io["concepts"][i]}: log bound {lg["f"]} > -log2(1 - {io["stab"][i]})')
    for i in range(n):
        lg = io['log'][i]
        if lg['err'] > TOL:
            return _bad('correspondence', 'log-form', f'concept {i}: log bound {lg["f"]} is not (integer - log2({io["n_bin_attrs"]}))')
        if not r['impl_log'][i]:
            return _bad('property', 'log', f'concept {i} {io["concepts"][i]}: exponentiated log bound fails: '
                                             f'(1-{io["stab"][i]})*2^{lg["d"]} > {io["n_bin_attrs"]}')
    last = len(c['names']) - 1
    for k, arrays in ([(last, io['calls'][0])] if c.get('hist') else enumerate(io['calls'])):
        if not arrays:
            return _bad('property', 'arrays', f'no measure stored after calc_concepts_measures({c["names"][k]!r})')
        ad = dict((k, v) for k, v in arrays)
        for i in range(n):
            d = Fraction(*r['def'][i])
            for key, ok in (('LStab', lambda x: x <= d), ('UStab', lambda x: d <= x), ('Stab', lambda x: x == d)):
                v = ad.get(key)
                if v is not None and i < len(v) and v[i] is not None and not ok(Fraction(*v[i])):
                    return _bad('property', 'bracket' if key != 'Stab' else 'stab-def',
                                f'after {c.get("hist") or ""}{c["names"][:k + 1]}: stored {key}[{i}] = {v[i]} but the stability of '
                                f'concept {io["concepts"][i]} is {r["def"][i]} (LStab <= Stab <= UStab must hold)')
        for name, vs in arrays:
            if len(vs) != n or any(v is None for v in vs):
                return _bad('property', 'arrays', f'after {c["names"][:k + 1]}: measures[{name!r}] has {len(vs)} values '
                                                    f'({sum(v is None for v in vs)} None) for {n} concepts')
    # ---- preconditions of the theorems, then model = implementation ----
    if not r['concepts_ok'] or not r['lattice_ok']:
        return _bad('correspondence', 'lattice', 'the lattice data is not the concept lattice of the table '
                                                 f'(concepts_ok={r["concepts_ok"]}, lattice_ok={r["lattice_ok"]}): '
                                                 f'concepts={io["concepts"]} children={io["children"]}')
    if r['stab'] != r['def']:
        return _bad('harness', 'model-def', f'model stability {r["stab"]} != definition {r["def"]} (contradicts stability_def)')
    if not all(r['model_bracket']) or not all(r['model_log']):
        return _bad('harness', 'model-bracket', f'model violates its theorem: bracket={r["model_bracket"]} log={r["model_log"]}')
    mb = [[b[0], b[1]] if isinstance(b, list) else b for b in r['bounds']]
    ib = [[io['lb'][i], io['ub'][i]] for i in range(n)]
    if mb != ib:
        return _bad('correspondence', 'bounds', f'stability_bounds {ib} != model {mb}')
    ml = [[x[0], x[1]] if isinstance(x, list) else x for x in r['log']]
    il = [[io['log'][i]['d'], io['n_bin_attrs']] for i in range(n)]
    if ml != il:
        return _bad('correspondence', 'logval', f'log_stability_lbound (Dmin, n) {il} != model {ml}')
    # arrays after each call
    if len(r['calls']) != len(c['names']) or (not c.get('hist') and len(r['calls']) != len(io['calls'])):
        return _bad('correspondence', 'calls', f'model calls {r["calls"]} vs implementation {io["calls"]}')
    pairs = [(last, io['calls'][0], r['calls'][-1])] if c.get('hist') else \
        [(k, ia, ma) for k, (ia, ma) in enumerate(zip(io['calls'], r['calls']))]
    for k, ia, ma in pairs:
        if isinstance(ma, dict):
            return _bad('correspondence', 'calls', f'model raised {ma} at call {k}')
        ia2 = [[name, [([v['d'], io['n_bin_attrs']] if isinstance(v, dict) else v) for v in vs]] for name, vs in ia]
        for name, vs in ia2:
            direct = {'Stab': io['stab'], 'LStab': io['lb'], 'UStab': io['ub'],
                      'log_stability_lbound': [[x['d'], io['n_bin_attrs']] for x in io['log']]}.get(name)
            if direct is not None and vs != direct:
                return _bad('property', 'arrays', f'after {c["names"][:k + 1]}: measures[{name!r}] {vs} is not the list of '
                                                    f'per-concept values {direct} of the measure function')
        if c.get('hist'):   # the concept objects carry keys in the insertion order of the earlier calls
            ia2, ma = sorted(ia2), sorted(ma)
        if ia2 != ma:
            return _bad('correspondence', 'arrays-val', f'after {c["names"][:k + 1]}: measures {ia2} != model {ma}')
    return dict(ok=True)


def nontrivial(c):
    return 'rows' in c and c.get('kind') is None and G.is_mixed(c['rows']) and len(c['rows']) >= 2


def key(c):
    return [c.get('rows'), c.get('be'), c.get('names'), c.get('kind'), c.get('s'), c.get('name'), c.get('order'), c.get('prune'), c.get('hist'), c.get('mid'), c.get('objs'), c.get('attrs'), c.get('mut')]


def branch(c, io, rep):
    out = [c['stream']]
    if c.get('kind') or 'err' in io:
        return out + [c.get('kind') or 'err']
    out.append(c['be'])
    n = len(io['concepts'])
    if c.get('prune'):
        out.append('pruned:' + c['prune'][0])
        if any(len(ch) == 1 for ch in io['children']):
            out.append('pruned:single-child')
        if any(len(io['children'][i]) == 1 and
               1 - Fraction(2) ** (len(io['concepts'][io['children'][i][0]][0]) - len(io['concepts'][i][0])) != Fraction(*io['stab'][i])
               for i in range(n)):
            out.append('pruned:single-child-not-cover')
        return out
    if c.get('hist'):
        out.append('history:' + c['hist'][0])
    if c.get('wide'):
        m = len(c['rows'][0])
        out.append('wide:m>64' if m > 64 else 'wide:m=64')
        heads = {tuple(r[:64]) for r in c['rows']}
        if m > 64 and len(heads) < len({tuple(r) for r in c['rows']}):
            out.append('wide:objects-differ-only-beyond-col-64')
    if c.get('mut'):
        out.append('ctxmut:' + c['mut']['how'])
    if c.get('objs') and len(set(c['objs'])) < len(c['objs']):
        out.append('dup-object-names')
    if c.get('attrs') and len(set(c['attrs'])) < len(c['attrs']):
        out.append('dup-attribute-names')
    out.append('concepts:%s' % ('1' if n == 1 else '2-4' if n <= 4 else '5-8' if n <= 8 else '9-16' if n <= 16 else '17+'))
    out.append('maxextent:%d' % max(len(x[0]) for x in io['concepts']))
    fr = lambda p: Fraction(p[0], p[1])
    strict = tight_l = tight_u = neg = 0
    for i in range(n):
        s, lb, ub = fr(io['stab'][i]), fr(io['lb'][i]), fr(io['ub'][i])
        strict += lb < s < ub
        tight_l += lb == s
        tight_u += ub == s
        neg += lb < 0
    if strict:
        out.append('bracket:strict')
    if tight_l:
        out.append('bracket:lb=stab')
    if tight_u:
        out.append('bracket:ub=stab')
    if neg:
        out.append('lb<0')
    if any(len(x[0]) == 0 for x in io['concepts']):
        out.append('empty-extent')
    if any(len(ch) >= 3 for ch in io['children']):
        out.append('children>=3')
    return out


def signature(c, io, rep, v):
    return f"C16:{v.get('what', v.get('kind'))}"


def _drop(xs, i):
    return None if xs is None else xs[:i] + xs[i + 1:]


def shrink(c):
    if c.get('kind') == 'powerset':
        return
    rows = c['rows']
    n, m = len(rows), len(rows[0])
    mut = c.get('mut')

    def variant(new_rows, ri=None, cj=None):
        d = dict(c, rows=new_rows)
        if ri is not None:
            d['objs'] = _drop(c.get('objs'), ri)
        if cj is not None:
            d['attrs'] = _drop(c.get('attrs'), cj)
        if mut:
            mm = dict(mut)
            if ri is not None:
                mm['rows0'], mm['objs0'] = _drop(mut['rows0'], ri), _drop(mut.get('objs0'), ri)
            if cj is not None:
                mm['rows0'], mm['attrs0'] = [_drop(r, cj) for r in mut['rows0']], _drop(mut.get('attrs0'), cj)
            d['mut'] = mm
        return d
    if n > 1:
        for i in range(n):
            yield variant(rows[:i] + rows[i + 1:], ri=i)
    if m > 1:
        for j in range(m):
            yield variant([r[:j] + r[j + 1:] for r in rows], cj=j)
    if c.get('names') and len(c['names']) > 1:
        for i in range(len(c['names'])):
            yield dict(c, names=c['names'][:i] + c['names'][i + 1:])
    if c.get('objs') and not mut and len(set(c['objs'])) < n:
        pass    # the duplicated names are the point of the case: kept
    cells = [(i, j) for i in range(n) for j in range(m) if rows[i][j]]
    for i, j in cells[:400]:
        nr = [list(r) for r in rows]
        nr[i][j] = 0
        yield variant(nr)
    if mut:
        for i in range(n):
            for j in range(m):
                if mut['rows0'][i][j]:
                    r0 = [list(r) for r in mut['rows0']]
                    r0[i][j] = 0
                    yield dict(c, mut=dict(mut, rows0=r0))

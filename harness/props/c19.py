"""C19 — line-diagram layouts respect the order; node moving preserves levels."""
import itertools
import math
import os
import random
from fractions import Fraction

import gen as G
from implutil import exc_name

RULE = ('layout case = (poset: family of subsets of a k-set under inclusion in a given element order, or the concept '
        'lattice of a boolean table; layout in {fcart(c,dpth), multipartite}); the IMPLEMENTATION\'s calc_levels output '
        'and coordinates (exact rationals of the floats) are judged by the Lean checker holdsLayout against a cover '
        'relation computed independently by the harness, and compared with the Lean models of calc_levels/fcart_layout/'
        'multipartite_layout (the latter including networkx\'s placement and rescaling in exact rationals; the member order '
        'inside each layer - the iteration order of a Python set - is read off the implementation\'s output by sorting the '
        'layer\'s nodes by their x coordinate and handed to the model; coordinates compared up to 1e-9 absolute). '
        'mover case = (orientation, position dict on a dyadic grid of <=3 levels x <=3 peers, history of swap/shift/'
        'jitter/place operations, insertion order of the dictionary keys: ascending / reversed / level by level / '
        'scrambled); Mover(pos).pos must equal the loaded dictionary; the WHOLE history is first judged by the geometric '
        'step oracle on the implementation\'s own positions (level coordinates unchanged, other levels unmoved, swap '
        'exchanges exactly two peers, shift by k = k places among the peers ordered by their actual coordinates before '
        'the step with the level\'s coordinates reused, jitter/place = x+dx / x), then compared with the Lean Mover model '
        'after every operation; layout cases also load the layout through Mover.initialize_pos in both orientations and '
        'demand the identity. '
        'non-trivial = poset with >=2 comparable elements / history with >=1 successful state-changing operation; '
        'distinct = distinct (poset, order of elements, layout, parameters) / (orientation, positions, history)')
EXHAUSTIVE = {
    'quick': 'layouts: all 255 non-empty families of subsets of a 3-set + concept lattices of all 682 tables n,m<=3, x '
             '{fcart c in {0.1,0.5,1} x dpth in {1,2,3}, multipartite} (each also through Mover.initialize_pos, v and h); '
             'mover: loading (4 key insertion orders) and every single operation of the full alphabet (keys ascending and level by '
             'level) on all 39 grids (<=3 levels x <=3 peers) in both orientations; every history [inward jitter/place of an outermost node past '
             '>=1 peer, any operation(, shift of that node)] on 6 grids with rows of 2-4 peers; all histories of length 2 on the '
             'grids with <=4 nodes (full alphabet up to 3 nodes, without place and dx=+-1 on 4 nodes), length 3 on the grids with '
             '<=2 nodes (swap, shift, jitter dx in {+-0.25,+-3}); H1: every [layout, net-zero-size remove/add/del mutation, layout] on '
             'one poset over families of 2-3 subsets of a 3-set (every 4th for 4 subsets) x {fcart, multipartite}^2; every '
             '[op, re-load of another diagram, op] on one mover for 5 diagram pairs, both orientations',
    'thorough': 'layouts: additionally all families of <=7 subsets of a 4-set (26332) and lattices of all tables with '
                'n,m<=4, n*m<=12; mover: length 2 on all 39 grids, length 3 on grids with <=4 nodes, length 4 on grids '
                'with <=2 nodes'}
EXPLANATION = ('layouts are relational (exact coordinates are not pinned): the verified checker Fca.C19.holdsLayout_sound '
               'judges the implementation\'s own output (fcart and multipartite); calc_levels is pinned (levels_longest_chain) '
               'and compared with the model; the fcart model is proved to satisfy the property (fcart_layout_ok) and is '
               'compared with the implementation; the multipartite model (fcapy wrapper + networkx multipartite_layout/'
               'rescale_layout) is proved to satisfy the property for every iteration order of the layer sets '
               '(multipartite_layout_exact) and is compared with the implementation on every multipartite case; '
               'the hypotheses WFP2 of those theorems (children = transpose of parents, '
               'tops = parentless elements, cover relation of a strict order) are checked on every input; mover outputs are '
               'pinned and compared with the model after every operation (1e-9 relative tolerance; generators stay on '
               'dyadic grids so float arithmetic is exact) and judged by the step oracle')
ASSUMPTIONS = ['a re-load of positions into a used mover and a layout of a mutated poset are judged like a freshly built object '
               'with the current content (the Lean models are pure functions of the current content)',
               'posets are non-empty (calc_levels raises ValueError on the empty poset: malformed stream)',
               'position dictionaries have keys 0..n-1 and pairwise distinct positions',
               'node arguments of mover operations are valid indexes; place_node only judged in the vertical orientation',
               'coordinates are finite floats; NaN/inf are out of scope']
TRUSTED = ['networkx (multipartite_layout, rescale_layout, utils.groups, set_node_attributes/get_node_attributes): modelled '
           'from its source, version 3.6.x, and compared on every run (every multipartite case: the implementation\'s '
           'coordinates against the Lean model Fca.Layout.mpLayout, 1e-9 absolute; the property itself is still judged by '
           'holdsLayout on the implementation\'s own output)',
           'numpy float arithmetic of networkx\'s placement vs. the exact rationals of the model (compared up to 1e-9)',
           'float arithmetic of fcart_layout / Mover vs. exact rationals of the model (compared up to 1e-9; a near-tie of '
           'two fcart priorities is tolerated as a rounding artefact)',
           'harness-side cover relation (subset inclusion / extent inclusion) and the python step oracle for the mover',
           'the python step oracle reads every operation geometrically off Mover.pos (peers ordered by their actual '
           'coordinates before the step); the Lean side proves the same reading of the model: Sorted (rows strictly '
           'ascending along the rank order) is established by setPos on distinct positions and preserved by every '
           'operation (mover_sorted_invariant), ranks are geometric (mover_rank_geometric, mover_shift_geometric)']
CHUNK = 400
REQUESTS_NEED_IMPL = True
TOL = 1e-9
MP_TOL = 1e-9   # absolute: multipartite coordinates lie in [-1, 1]

CS = (0.1, 0.5, 1.0)
DPTHS = (1, 2, 3)


# ------------------------------------------------------------------------------------------ helpers

def fr(x):
    f = Fraction(float(x))
    return [f.numerator, f.denominator]


def fl(q):
    return q[0] / q[1]


def close(a, b):
    return abs(a - b) <= TOL * max(1.0, abs(a), abs(b))


def cover_parents(sets):
    n = len(sets)
    lt = [[sets[i] < sets[j] for j in range(n)] for i in range(n)]
    return [sorted(j for j in range(n) if lt[i][j] and not any(lt[i][k] and lt[k][j] for k in range(n)))
            for i in range(n)]


def layout_configs():
    for c in CS:
        for d in DPTHS:
            yield dict(layout='fcart', c=c, dpth=d)
    yield dict(layout='multipartite')


def _layout_call(P, cfg):
    from fcapy.visualizer.line_layouts import LAYOUTS
    kw = dict(c=cfg['c'], dpth=cfg['dpth']) if cfg['layout'] == 'fcart' else {}
    return LAYOUTS[cfg['layout']](P, **kw)


def apply_hist(P, hist):
    """replay a history of PUBLIC uses/mutations on ONE poset object; returns the exceptions raised by the steps"""
    from fcapy.visualizer.line_layouts import calc_levels
    errs = []
    for k, st in enumerate(hist or []):
        try:
            if st[0] == 'layout':
                _layout_call(P, st[1])
            elif st[0] == 'levels':
                calc_levels(P)
            elif st[0] == 'initpos':
                from fcapy.visualizer.mover import Mover
                Mover().initialize_pos(P, layout=st[1])
            elif st[0] == 'add':
                P.add(frozenset(st[1]), fill_up_cache=bool(st[2]))
            elif st[0] == 'remove':
                P.remove(frozenset(st[1]))
            elif st[0] == 'del':
                del P[st[1]]
            elif st[0] == 'scribble':      # a hostile caller overwrites everything the library handed out
                lv, ld = calc_levels(P)
                lv[:] = [len(lv) + 3] * len(lv)
                ld.clear()
                pos = _layout_call(P, st[1])
                for key in list(pos):
                    pos[key] = [0.0, 0.0]
                pos.clear()
                pd = P.parents_dict
                pd.clear()
        except Exception as e:
            errs.append([k, st[0], exc_name(e)])
    return errs


def build_poset(c):
    if c['ptype'] == 'subsets':
        from fcapy.poset import POSet
        sets = [frozenset(s) for s in c['elems']]
        P = POSet(sets, leq_func=lambda a, b: a <= b, use_cache=c.get('use_cache', True))
        if c.get('hist'):
            c['_hist_err'] = apply_hist(P, c['hist'])
            sets = [frozenset(e) for e in P.elements]
        return P, sets
    from fcapy.context import FormalContext
    from fcapy.lattice import ConceptLattice
    K = FormalContext(data=[[bool(v) for v in r] for r in c['rows']])
    L = ConceptLattice.from_context(K)
    if c.get('hist'):
        c['_hist_err'] = apply_hist(L, [st for st in c['hist'] if st[0] in ('layout', 'levels', 'initpos', 'scribble')])
    return L, [frozenset(int(g) for g in L[i].extent_i) for i in range(len(L))]


# ------------------------------------------------------------------------------------------ mover grids

YS = [1.0, 0.25, -0.5]
XS = {1: [0.25], 2: [-0.5, 0.75], 3: [-1.0, 0.0, 1.5], 4: [-0.75, -0.25, 0.25, 0.75]}
DXS = (0.25, -0.25, 1.0, -1.0, 1.25, -1.25, 3.0, -3.0)
PLACES = (-2.0, 0.375, 2.0)
SHIFTS = (-2, -1, 1, 2)


def all_shapes():
    for nl in (1, 2, 3):
        yield from itertools.product((1, 2, 3), repeat=nl)


def grid_positions(shape, perm=None):
    """(peer coordinate, level coordinate) per node; node ids scrambled so index order != geometric order."""
    pts = [(x, YS[l]) for l, cnt in enumerate(shape) for x in XS[cnt]]
    n = len(pts)
    if perm is None:
        perm = [(i * 2 + 1) % n if math.gcd(2, n) == 1 else (n - 1 - i) for i in range(n)]
    out = [None] * n
    for k, p in enumerate(pts):
        out[perm[k]] = p
    return out


def orient_pos(pts, d):
    """points given as (peer, level) -> dictionary coordinates (x, y) of the orientation"""
    return [[p, l] for p, l in pts] if d == 'v' else [[-l, p] for p, l in pts]


def alphabet(n, d, full=True):
    ops = [dict(op='swap', a=a, b=b) for a in range(n) for b in range(a + 1, n)] + [dict(op='swap', a=0, b=0)]
    ops += [dict(op='shift', i=i, k=k) for i in range(n) for k in SHIFTS]
    ops += [dict(op='jitter', i=i, dx=dx) for i in range(n)
            for dx in (DXS if full is True else (0.25, -0.25, 1.25, -1.25, 3.0, -3.0) if full == 'mid' else (0.25, -0.25, 3.0, -3.0))]
    if d == 'v' and full is True:
        ops += [dict(op='place', i=i, x=x) for i in range(n) for x in PLACES]
    return ops


KORDERS = ('asc', 'rev', 'bylevel', 'scrambled')


def key_order(name, pos, d):
    """insertion order of the keys of the position dictionary handed to Mover (None = ascending)"""
    n = len(pos)
    _, la = axes(d)
    if name == 'asc':
        return None
    if name == 'rev':
        return list(range(n - 1, -1, -1))
    if name == 'bylevel':   # written level by level, each level left to right (what networkx layouts return)
        return sorted(range(n), key=lambda i: (-pos[i][la] if d == 'v' else pos[i][la], pos[i][1 - la]))
    return [(i * 5 + 3) % n if math.gcd(5, n) == 1 else (i * 3 + 1) % n if math.gcd(3, n) == 1 else (n - 1 - i)
            for i in range(n)]


def mover_exhaustive(tier, boost):
    thorough = tier == 'thorough' or boost
    for shape in all_shapes():
        n = sum(shape)
        for d in ('v', 'h'):
            pos = orient_pos(grid_positions(shape), d)
            A = alphabet(n, d)
            L = 1
            if n <= (9 if thorough else 4):
                L = 2
            if n <= (4 if thorough else 2):
                L = 3
            if thorough and n <= 2:
                L = 4
            # loading alone, and every single operation, with every insertion order of the dictionary keys
            for ko in KORDERS:
                korder = key_order(ko, pos, d)
                yield dict(kind='mover', stream='mover-load', dir=d, pos=pos, ops=[], korder=korder)
                if (L > 1 and ko == 'asc') or ko == 'bylevel' or (thorough and ko != 'asc'):
                    for op in A:
                        yield dict(kind='mover', stream='mover-exh-L1', dir=d, pos=pos, ops=[op], korder=korder)
            korder = key_order('asc' if d == 'v' else 'bylevel', pos, d)
            # quick: full alphabet up to 3 nodes at length 2; thinner alphabets (no place, fewer offsets) beyond
            AL = A if (thorough or L == 1 or (L == 2 and n <= 3)) else alphabet(n, d, full='mid' if L == 2 else False)
            for ops in itertools.product(AL, repeat=L):
                yield dict(kind='mover', stream=f'mover-exh-L{L}', dir=d, pos=pos, ops=list(ops), korder=korder)


BORDER_SHAPES = ((2,), (3,), (4,), (1, 3), (3, 2), (2, 4))


def mover_border_inward(tier, boost):
    """histories that START with an outermost node of a row dragged inwards past >= 1 peer (jitter or place),
    followed by every operation of the alphabet (and then a shift of the dragged node): the first step is where
    ranks and coordinates could get out of step, the later steps are where that shows geometrically"""
    for shape in BORDER_SHAPES:
        pts = grid_positions(shape)
        n = len(pts)
        for d in ('v', 'h'):
            pos = orient_pos(pts, d)
            A = alphabet(n, d)
            firsts = []
            for lvl in sorted(set(p[1] for p in pts)):
                row = sorted((j for j in range(n) if pts[j][1] == lvl), key=lambda j: pts[j][0])
                if len(row) < 2:
                    continue
                xs = [pts[j][0] for j in row]
                for node, targets in ((row[0], [(xs[g] + xs[g + 1]) / 2 for g in range(1, len(xs) - 1)] + [xs[-1] + 0.5]),
                                      (row[-1], [(xs[g] + xs[g + 1]) / 2 for g in range(len(xs) - 2)] + [xs[0] - 0.5])):
                    for t in targets:
                        firsts.append(dict(op='jitter', i=node, dx=t - pts[node][0]))
                        if d == 'v':
                            firsts.append(dict(op='place', i=node, x=t))
            for ko in ('asc', 'bylevel'):
                korder = key_order(ko, pos, d)
                for f in firsts:
                    for op in A:
                        yield dict(kind='mover', stream='mover-border-inward', dir=d, pos=pos, ops=[f, op], korder=korder)
                        if ko == 'asc' and op['op'] in ('swap', 'jitter'):
                            for k in (-1, 1):
                                yield dict(kind='mover', stream='mover-border-inward', dir=d, pos=pos, korder=korder,
                                           ops=[f, op, dict(op='shift', i=f['i'], k=k)])


def random_diagram(rng, nmax=12):
    nl = rng.randint(1, 4)
    pts, n = [], 0
    ys = rng.sample([k * 0.25 for k in range(-8, 9)], nl)
    for y in ys:
        cnt = rng.randint(1, 4)
        if n + cnt > nmax:
            cnt = max(1, nmax - n)
        for x in rng.sample([k * 0.25 for k in range(-12, 13)], cnt):
            pts.append((x, y))
        n += cnt
        if n >= nmax:
            break
    rng.shuffle(pts)
    return pts


def random_korder(rng, n):
    t = rng.random()
    if t >= 0.6:
        return None
    korder = list(range(n))
    if t < 0.2:
        korder.reverse()
    else:
        rng.shuffle(korder)
    return korder


def random_mover(rng, stream='mover-random'):
    """random history; in a third of the cases other random diagrams are re-loaded into the same mover on the way"""
    pts = random_diagram(rng, 14 if rng.random() < 0.15 else 12)
    d = rng.choice('vh')
    first, korder = orient_pos(pts, d), random_korder(rng, len(pts))
    reloads = rng.random() < 0.35
    ops = []
    for _ in range(rng.randint(1, 20)):
        n = len(pts)
        t = rng.random()
        if reloads and t < 0.12:
            pts = random_diagram(rng)
            ops.append(dict(op='load', pos=orient_pos(pts, d), korder=random_korder(rng, len(pts))))
        elif reloads and t < 0.15:
            ops.append(dict(op='scribble'))
        elif t < 0.3:
            a = rng.randrange(n)
            same = [b for b in range(n) if pts[b][1] == pts[a][1]]
            b = rng.choice(same) if rng.random() < 0.85 else rng.randrange(n)
            ops.append(dict(op='swap', a=a, b=b))
        elif t < 0.55:
            ops.append(dict(op='shift', i=rng.randrange(n), k=rng.randint(-4, 4)))
        elif t < 0.87:
            ops.append(dict(op='jitter', i=rng.randrange(n), dx=rng.choice([k * 0.125 for k in range(-40, 41)])))
        else:
            ops.append(dict(op='place', i=rng.randrange(n), x=rng.choice([k * 0.125 for k in range(-40, 41)])))
    return dict(kind='mover', stream=stream + ('-reload' if reloads else ''), dir=d, pos=first, ops=ops, korder=korder)


# ------------------------------------------------------------------------------------------ re-loads (H1 for the mover)

RELOAD_PAIRS = (((2, 3), None, (3, 2), None), ((2, 2), None, (2, 2), [0, 1, 2, 3]), ((1, 2), None, (2, 3), None),
                ((2, 4), None, (1, 3), None), ((4,), None, (2, 2), None))


def priming_ops(pts, d):
    """operations that look at the members of a row: shifts, overtaking jitters, same-level swaps"""
    n = len(pts)
    ops = [dict(op='shift', i=i, k=k) for i in range(n) for k in SHIFTS]
    ops += [dict(op='jitter', i=i, dx=dx) for i in range(n) for dx in (1.25, -1.25, 3.0, -3.0)]
    ops += [dict(op='swap', a=a, b=b) for a in range(n) for b in range(a + 1, n) if pts[a][1] == pts[b][1]]
    return ops


def mover_reload_exh():
    """load A, one operation, load B (a diagram whose levels hold other nodes / another number of nodes) into the SAME
    mover, one operation: the second diagram must behave like one loaded into a fresh mover"""
    for shA, pA, shB, pB in RELOAD_PAIRS:
        ptsA, ptsB = grid_positions(shA, pA), grid_positions(shB, pB)
        for d in ('v', 'h'):
            posA, posB = orient_pos(ptsA, d), orient_pos(ptsB, d)
            opsB = priming_ops(ptsB, d)
            if d == 'v':
                opsB += [dict(op='place', i=i, x=x) for i in range(len(ptsB)) for x in (-2.0, 2.0)]
            load = dict(op='load', pos=posB, korder=key_order('bylevel', posB, d))
            for o1 in priming_ops(ptsA, d):
                for o2 in opsB:
                    yield dict(kind='mover', stream='mover-reload', dir=d, pos=posA, korder=None, ops=[o1, load, o2])
            back = dict(op='load', pos=posA, korder=None)
            for o1 in priming_ops(ptsB, d)[::3]:
                for o2 in priming_ops(ptsA, d)[::2]:
                    yield dict(kind='mover', stream='mover-reload', dir=d, pos=posA, korder=None,
                               ops=[load, o1, dict(op='scribble'), back, o2])


def mover_nondyadic(rng, count):
    """coordinates not representable in float32 / far from the unit square; only operations that re-use coordinates
    (load, swap, shift) so that the comparison stays exact; up to 16 nodes (two-digit ids)"""
    vals = [0.1, 0.2, 0.3, 19.99, -19.99, 2.0 ** 24 + 1, -(2.0 ** 24 + 1), 1e-9, 1 / 3, 1e6 + 0.1, -0.7, 123.456]
    for _ in range(count):
        nl = rng.randint(1, 4)
        pts = []
        for y in rng.sample(vals, nl):
            for x in rng.sample(vals, rng.randint(1, 4)):
                pts.append((x, y))
        rng.shuffle(pts)
        n, d = len(pts), rng.choice('vh')
        ops = []
        for _k in range(rng.randint(1, 8)):
            t = rng.random()
            if t < 0.4:
                a = rng.randrange(n)
                ops.append(dict(op='swap', a=a, b=rng.choice([b for b in range(n) if pts[b][1] == pts[a][1]])))
            elif t < 0.9:
                ops.append(dict(op='shift', i=rng.randrange(n), k=rng.randint(-3, 3)))
            else:
                ops.append(dict(op='scribble'))
        korder = list(range(n))
        rng.shuffle(korder)
        yield dict(kind='mover', stream='mover-nondyadic', dir=d, pos=orient_pos(pts, d), ops=ops, korder=korder)


# ------------------------------------------------------------------------------------------ poset histories (H1 for the layouts)

MUT_CFGS = (dict(layout='fcart', c=0.5, dpth=1), dict(layout='multipartite'))


def layout_mutate_exh():
    """layout -> net-zero-size mutation of the SAME poset (remove+add, add+remove, del+add; nothing laid out in
    between) -> layout: the second layout is judged like that of a freshly built poset with the current content"""
    sub3 = subsets_of(3)
    k = 0
    for r in (2, 3, 4):
        for fam in itertools.combinations(sub3, r):
            fam = [list(x) for x in fam]
            for rem in fam:
                for add in sub3:
                    if add in fam:
                        continue
                    muts = ([['remove', rem], ['add', add, True]], [['add', add, True], ['remove', rem]],
                            [['del', fam.index(rem)], ['add', add, False]])
                    for mi, mut in enumerate(muts):
                        for pre in MUT_CFGS:
                            for fin in MUT_CFGS:
                                k += 1
                                if r == 4 and k % 4:      # the 4-element families: every fourth combination
                                    continue
                                if mi == 2 and pre is not fin:
                                    continue
                                c = dict(kind='layout', stream='layout-mutate', ptype='subsets', elems=fam,
                                         hist=[['layout', pre]] + mut)
                                c.update(fin)
                                yield c


def layout_mutate_random(rng, count):
    """longer histories on one poset: adds / removes / dels (fill_up_cache on and off), layouts, calc_levels,
    Mover.initialize_pos and hostile overwriting of returned values in between; use_cache on and off"""
    for _ in range(count):
        k = rng.randint(3, 4)
        pool = subsets_of(k)
        cur = rng.sample(pool, rng.randint(2, 6))
        c = dict(kind='layout', stream='layout-mutate-random', ptype='subsets', elems=[list(x) for x in cur],
                 use_cache=rng.random() < 0.8, hist=[])
        for _s in range(rng.randint(2, 10)):
            t = rng.random()
            if t < 0.3 and len(cur) < len(pool):
                a = rng.choice([x for x in pool if x not in cur])
                cur.append(a)
                c['hist'].append(['add', a, rng.random() < 0.7])
            elif t < 0.45 and len(cur) > 1:
                a = rng.choice(cur)
                cur.remove(a)
                c['hist'].append(['remove', a])
            elif t < 0.55 and len(cur) > 1:
                i = rng.randrange(len(cur))
                del cur[i]
                c['hist'].append(['del', i])
            elif t < 0.75:
                c['hist'].append(['layout', rng.choice(list(layout_configs()))])
            elif t < 0.82:
                c['hist'].append(['levels'])
            elif t < 0.9:
                c['hist'].append(['initpos', rng.choice(['fcart', 'multipartite'])])
            else:
                c['hist'].append(['scribble', rng.choice(MUT_CFGS)])
        c.update(rng.choice(list(layout_configs())))
        yield c


# ------------------------------------------------------------------------------------------ generators

def subsets_of(k):
    return [sorted(s) for r in range(k + 1) for s in itertools.combinations(range(k), r)]


def layout_cases_for(base, stream):
    for cfg in layout_configs():
        c = dict(base)
        c.update(cfg)
        c['kind'] = 'layout'
        c['stream'] = stream
        yield c


def corpus_cases():
    import json
    d = os.path.join(os.path.dirname(os.path.dirname(os.path.dirname(os.path.abspath(__file__)))), 'corpus', 'C19')
    if os.path.isdir(d):
        for f in sorted(os.listdir(d)):
            if f.endswith('.json'):
                c = json.load(open(os.path.join(d, f)))
                c['stream'] = 'corpus'
                yield c


def gen(tier, seed, boost=False):
    rng = random.Random(seed * 1000003 + 1919)
    thorough = tier == 'thorough' or boost
    yield from corpus_cases()
    # --- layouts: exhaustive
    sub3 = subsets_of(3)
    for r in range(1, len(sub3) + 1):
        for fam in itertools.combinations(sub3, r):
            yield from layout_cases_for(dict(ptype='subsets', elems=[list(s) for s in fam]), 'layout-exh-subsets3')
    for rows in G.tables_upto(3, 3):
        yield from layout_cases_for(dict(ptype='lattice', rows=rows), 'layout-exh-lattice3')
    # --- histories on ONE object: poset mutated between two layouts; other diagrams re-loaded into a used mover
    yield from layout_mutate_exh()
    yield from layout_mutate_random(rng, 300 if tier == 'quick' else 5000)
    yield from mover_reload_exh()
    yield from mover_nondyadic(rng, 300 if tier == 'quick' else 5000)
    # --- mover: the small exhaustive scope (quick) before the large thorough/boost-only streams
    yield from mover_border_inward(tier, boost)
    yield from mover_exhaustive('quick', False)
    if thorough:
        sub4 = subsets_of(4)
        for r in range(1, 8):
            for fam in itertools.combinations(sub4, r):
                yield from layout_cases_for(dict(ptype='subsets', elems=[list(s) for s in fam]), 'layout-exh-subsets4')
        for rows in G.tables_upto(4, 4, cells=12):
            if len(rows) <= 3 and len(rows[0]) <= 3:
                continue
            yield from layout_cases_for(dict(ptype='lattice', rows=rows), 'layout-exh-lattice4')
    # --- layouts: random (shuffled element order, larger ground sets, larger lattices)
    nrand = (400 if tier == 'quick' else 6000) * (3 if boost else 1)
    for _ in range(nrand):
        k = rng.randint(3, 5)
        pool = subsets_of(k)
        fam = rng.sample(pool, rng.randint(1, min(len(pool), 12)))
        cfg = rng.choice(list(layout_configs()))
        if cfg['layout'] == 'fcart' and rng.random() < 0.5:
            cfg = dict(layout='fcart', c=rng.choice([0.0, 0.25, 0.3, 0.75, 1.0, 2.0]), dpth=rng.randint(0, 4))
        c = dict(kind='layout', stream='layout-random', ptype='subsets', elems=[list(s) for s in fam])
        c.update(cfg)
        yield c
        if _ % 4 == 0:
            rows = G.random_table(rng, 6, 6)
            c = dict(kind='layout', stream='layout-random-lattice', ptype='lattice', rows=rows)
            c.update(rng.choice(list(layout_configs())))
            yield c
    # --- mover: the thorough exhaustive scope (its quick part was enumerated above), then random
    if thorough:
        yield from (c for c in mover_exhaustive(tier, boost) if c['stream'] not in ('mover-load', 'mover-exh-L1'))
    nrand = (4000 if tier == 'quick' else 80000) * (3 if boost else 1)
    for _ in range(nrand):
        yield random_mover(rng)
    # --- malformed stream: empty poset, empty position dict, invalid node index
    yield dict(kind='layout', stream='malformed', ptype='subsets', elems=[], layout='fcart', c=0.5, dpth=1)
    yield dict(kind='layout', stream='malformed', ptype='subsets', elems=[], layout='multipartite')
    yield dict(kind='mover', stream='malformed', dir='v', pos=[], ops=[])
    for d in 'vh':
        pos = orient_pos(grid_positions((2, 1)), d)
        for op in (dict(op='swap', a=0, b=7), dict(op='shift', i=5, k=1), dict(op='jitter', i=3, dx=0.5)):
            yield dict(kind='mover', stream='malformed', dir=d, pos=pos, ops=[op, dict(op='swap', a=0, b=0)])


# ------------------------------------------------------------------------------------------ implementation side

def impl_layout(c):
    from fcapy.visualizer.line_layouts import LAYOUTS, calc_levels
    c = dict(c)
    P, sets = build_poset(c)
    n = len(P)
    out = dict(n=n, cover=cover_parents(sets), hist_err=c.get('_hist_err') or [],
               elems=[sorted(x) for x in sets] if c.get('hist') else None)
    try:
        out['parents'] = [sorted(int(x) for x in P.parents(i)) for i in range(n)]
        out['children'] = [sorted(int(x) for x in P.children(i)) for i in range(n)]
        out['tops'] = [int(x) for x in P.tops]
    except Exception as e:
        return {'err': exc_name(e), 'where': 'poset'}
    try:
        lv, ld = calc_levels(P)
        out['levels'] = [int(x) for x in lv]
        out['ldict'] = [[int(x) for x in ld[k]] for k in sorted(ld)]
        out['ldict_keys'] = [int(k) for k in sorted(ld)]
    except Exception as e:
        out['levels_err'] = exc_name(e)
    try:
        kw = dict(c=c['c'], dpth=c['dpth']) if c['layout'] == 'fcart' else {}
        pos = LAYOUTS[c['layout']](P, **kw)
        out['keys'] = sorted(int(k) for k in pos)
        out['pos'] = [[fr(pos[i][0]), fr(pos[i][1])] for i in range(n) if i in pos]
        out['plen'] = [len(pos[i]) for i in range(n) if i in pos]
        # Mover.initialize_pos loads the layout's own dictionary (whatever its key order): reading it back must be
        # the identity in both orientations
        from fcapy.visualizer.mover import Mover
        bad = []
        for d in ('v', 'h'):
            m = Mover(direction=d)
            m.initialize_pos(P, layout=c['layout'], **kw)
            rb = m.pos
            want = {int(k): (float(v[0]), float(v[1])) for k, v in pos.items()}
            got = None if rb is None else {int(k): (float(v[0]), float(v[1])) for k, v in rb.items()}
            if got != want:
                bad.append([d, [list(got[i]) if got and i in got else None for i in range(n)]])
        out['initpos_bad'] = bad
        out['key_order'] = [int(k) for k in pos]
        if c['layout'] == 'multipartite':
            import networkx
            out['nx'] = str(networkx.__version__)
    except Exception as e:
        out['pos_err'] = exc_name(e)
    return out


def mover_apply(m, op):
    if op['op'] == 'swap':
        m.swap_nodes(op['a'], op['b'])
    elif op['op'] == 'shift':
        m.shift_node(op['i'], op['k'])
    elif op['op'] == 'jitter':
        m.jitter_node(op['i'], op['dx'])
    else:
        m.place_node(op['i'], op['x'])


def read_pos(m):
    p = m.pos
    if p is None:
        return None
    return [[fr(p[i][0]), fr(p[i][1])] for i in range(len(p))]


def _pos_dict(pos, korder):
    keys = korder or range(len(pos))
    return {i: (float(pos[i][0]), float(pos[i][1])) for i in keys}


def impl_mover(c):
    from fcapy.visualizer.mover import Mover
    try:
        m = Mover(pos=_pos_dict(c['pos'], c.get('korder')), direction=c['dir'])
        out = dict(init=read_pos(m), trace=[])
    except Exception as e:
        return {'err': exc_name(e)}
    for op in c['ops']:
        try:
            if op['op'] == 'load':          # other positions loaded into the SAME mover
                m.pos = _pos_dict(op['pos'], op.get('korder'))
            elif op['op'] == 'scribble':    # a hostile caller overwrites what the mover handed out
                d = m.pos
                for key in list(d):
                    d[key] = (0.0, 0.0)
                d.clear()
            else:
                mover_apply(m, op)
            out['trace'].append(dict(pos=read_pos(m)))
        except Exception as e:
            try:
                p = read_pos(m)
            except Exception as e2:
                p = 'unreadable:' + exc_name(e2)
            out['trace'].append(dict(err=exc_name(e), pos=p))
    return out


def impl(c):
    return impl_layout(c) if c['kind'] == 'layout' else impl_mover(c)


# ------------------------------------------------------------------------------------------ driver requests

def segments(c):
    """a mover history split at the re-loads: [(positions, [(index in c['ops'], op), ...]), ...]"""
    segs = [(c['pos'], [])]
    for k, op in enumerate(c['ops']):
        if op['op'] == 'load':
            segs.append((op['pos'], []))
        elif op['op'] != 'scribble':
            segs[-1][1].append((k, op))
    return segs


def requests(c, io):
    if c['kind'] == 'mover':
        rs = []
        for pos, kops in segments(c):      # a re-load must behave like a freshly built mover
            ops = []
            for _, op in kops:
                o = dict(op)
                if 'dx' in o:
                    o['dx'] = fr(o['dx'])
                if 'x' in o:
                    o['x'] = fr(o['x'])
                ops.append(o)
            rs.append(dict(op='C19.mover', dir=c['dir'], pos=[[fr(x), fr(y)] for x, y in pos], ops=ops))
        return rs
    if 'parents' not in io:
        return []
    base = dict(parents=io['parents'], children=io['children'], tops=io['tops'])
    rs = [dict(op='C19.levels', **base)]
    if 'levels' in io and 'pos' in io:
        rs.append(dict(op='C19.check', parents=io['cover'], levels=io['levels'], pos=io['pos']))
    else:
        rs.append(dict(op='C19.check', parents=[], levels=[], pos=[]))
    if c['layout'] == 'fcart':
        extra = {}
        if 'levels' in io and 'pos' in io and len(io['pos']) == len(io['levels']) == io['n']:
            extra['idon'] = impl_ranks(io)
        rs.append(dict(op='C19.fcart', c=fr(c['c']), dpth=c['dpth'], cover=io['cover'], **extra, **base))
    elif c['layout'] == 'multipartite' and 'levels' in io and 'pos' in io \
            and len(io['pos']) == len(io['levels']) == io['n'] and io.get('keys') == list(range(io['n'])):
        rs.append(dict(op='C19.mpLayout', cover=io['cover'], orders=impl_layer_orders(io), **base))
    return rs


# ------------------------------------------------------------------------------------------ judging

def impl_ranks(io):
    """id_on_lvl of the implementation, read off its x coordinates (rank of x within the level)"""
    lv = io['levels']
    ranks = [0] * len(lv)
    for l in set(lv):
        row = sorted((i for i in range(len(lv)) if lv[i] == l), key=lambda i: fl(io['pos'][i][0]))
        for r, i in enumerate(row):
            ranks[i] = r
    return ranks


def impl_layer_orders(io):
    """member order of every layer as networkx iterated the layer's set, read off the implementation's output: the
    slot of a node inside its layer is the rank of its x coordinate (ties - never produced by a correct run - by id)"""
    lv = io['levels']
    return [sorted((i for i in range(len(lv)) if lv[i] == l), key=lambda i: (fl(io['pos'][i][0]), i))
            for l in sorted(set(lv))]


def admissible_order(io, fc):
    """is the implementation's placement an admissible run of fcart_layout?  With the exact priorities induced by the
    implementation's OWN ranks of the higher levels (computed by the Lean model's `priority`), every level must be
    ordered by (priority, element) up to near-ties (1e-9) of the priorities - float rounding may resolve such a
    near-tie either way, and the choice legitimately propagates to the levels below"""
    lv, ranks = io['levels'], impl_ranks(io)
    pr = [None if q is None else fl(q) for q in fc['prios_impl']]
    for l in sorted(set(lv)):
        row = sorted((i for i in range(len(lv)) if lv[i] == l), key=lambda i: ranks[i])
        if l == 0:
            if row != sorted(row):
                return False
            continue
        for a, b in zip(row, row[1:]):
            if pr[a] is None or pr[b] is None:
                return False
            if pr[a] > pr[b] + 1e-9 * max(1.0, abs(pr[a]), abs(pr[b])):
                return False
    return True


def judge_layout(c, io, rep):
    if 'where' in io:
        return dict(ok=False, kind='correspondence', detail=f'poset interface raised {io["err"]}')
    lev, chk = rep[0], rep[1]
    fc = rep[2] if c['layout'] == 'fcart' else None
    mp = rep[2] if c['layout'] == 'multipartite' and len(rep) > 2 else None
    if io['n'] == 0:   # malformed: only the exception classes are compared
        ok = io.get('levels_err') == lev.get('err') and io.get('pos_err') == lev.get('err')
        return dict(ok=ok, kind='correspondence', detail=f'empty poset: impl {io.get("levels_err")}/{io.get("pos_err")} model {lev}')
    if io.get('hist_err'):
        k, what, err = io['hist_err'][0]
        if what in ('layout', 'levels', 'initpos', 'scribble'):
            return dict(ok=False, kind='property', part='total',
                        detail=f'step {k} {c["hist"][k]} of the history raised {err} on the poset')
        return dict(ok=False, kind='correspondence', part='poset-mutation', detail=f'step {k} {c["hist"][k]} raised {err}')
    if 'levels_err' in io or 'pos_err' in io:
        return dict(ok=False, kind='property', part='total',
                    detail=f'layout raised on a non-empty poset (elements now {io.get("elems") or c.get("elems")}): '
                           f'calc_levels {io.get("levels_err")}, layout {io.get("pos_err")}')
    if io['keys'] != list(range(io['n'])) or any(k != 2 for k in io['plen']):
        return dict(ok=False, kind='property', part='total', detail=f'positions for keys {io["keys"]} of {io["n"]} elements')
    if io.get('initpos_bad'):
        d, got = io['initpos_bad'][0]
        return dict(ok=False, kind='property', part='roundtrip',
                    detail=f'Mover(direction={d!r}).initialize_pos(poset, {c["layout"]!r}).pos = {got} differs from the layout '
                           f'{[[fl(x), fl(y)] for x, y in io["pos"]]} (dictionary key order {io["key_order"]})')
    if not chk['holds']:
        part = next(k for k in ('total', 'inj', 'order', 'levels') if not chk[k])
        return dict(ok=False, kind='property', part=part,
                    detail=f'holdsLayout=false ({part}) levels={io["levels"]} pos={[[fl(x), fl(y)] for x, y in io["pos"]]}'
                           + (f' for the poset {io["elems"]} reached by the history' if io.get('elems') is not None else ''))
    if io['parents'] != io['cover']:
        return dict(ok=False, kind='correspondence', part='cover',
                    detail=f'POSet.parents {io["parents"]} differ from the cover relation {io["cover"]}')
    n = io['n']
    transpose = [sorted(q for q in range(n) if c_ in io['parents'][q]) for c_ in range(n)]
    if io['children'] != transpose or sorted(io['tops']) != [i for i in range(n) if not io['parents'][i]] \
            or len(set(io['tops'])) != len(io['tops']):
        # hypotheses WFP2 of the Lean theorems (children = transpose of parents, tops = parentless elements)
        return dict(ok=False, kind='correspondence', part='poset-interface',
                    detail=f'children {io["children"]} / tops {io["tops"]} inconsistent with parents {io["parents"]}')
    if 'err' in lev:
        return dict(ok=False, kind='correspondence', part='levels-model', detail=f'model calc_levels raised {lev["err"]}')
    if lev['levels'] != io['levels']:
        return dict(ok=False, kind='harness', detail=f'model levels {lev["levels"]} != checked impl levels {io["levels"]}')
    if lev['dict'] != io['ldict'] or io['ldict_keys'] != list(range(len(io['ldict']))):
        return dict(ok=False, kind='correspondence', part='levels_dict', detail=f'levels_dict {io["ldict"]} vs model {lev["dict"]}')
    if fc is not None:
        if 'err' in fc:
            return dict(ok=False, kind='correspondence', part='fcart-model', detail=f'model fcart raised {fc["err"]}')
        if not fc['holds']:
            return dict(ok=False, kind='harness', detail='the fcart MODEL output is rejected by holdsLayout')
        bad = [i for i, (p, q) in enumerate(zip(io['pos'], fc['pos']))
               if not (close(fl(p[0]), fl(q[0])) and close(fl(p[1]), fl(q[1])))]
        if bad:
            # a float near-tie between two priorities may legitimately order peers differently (and that choice changes
            # the priorities of the levels below): tolerated only when the y coordinates agree, the x coordinates of
            # each level are the same multiset, and the implementation's order is an admissible run of the algorithm
            ys_ok = all(close(fl(p[1]), fl(q[1])) for p, q in zip(io['pos'], fc['pos']))
            key = lambda ps: sorted((round(fl(p[1]), 9), round(fl(p[0]), 9)) for p in ps)
            if ys_ok and key(io['pos']) == key(fc['pos']) and 'prios_impl' in fc and admissible_order(io, fc):
                return dict(ok=True, note='near-tie')
            return dict(ok=False, kind='correspondence', part='fcart-pos',
                        detail=f'fcart positions differ from the model at {bad}: impl {[[fl(x), fl(y)] for x, y in io["pos"]]} '
                               f'model {[[fl(x), fl(y)] for x, y in fc["pos"]]}')
    if mp is not None:
        # the multipartite MODEL (fcapy wrapper + networkx placement, exact rationals) against the implementation
        if 'err' in mp:
            return dict(ok=False, kind='correspondence', part='mp-model', detail=f'model multipartite_layout raised {mp["err"]}')
        if not mp['holds']:
            return dict(ok=False, kind='harness', detail='the multipartite MODEL output is rejected by holdsLayout '
                                                         '(contradicts multipartite_layout_exact)')
        if mp['levels'] != io['levels'] or not mp['ord_ok']:
            return dict(ok=False, kind='harness', detail=f'model layers {mp["layers"]} are not the layers read off the '
                                                         f'implementation {impl_layer_orders(io)}')
        bad = [i for i, (p, q) in enumerate(zip(io['pos'], mp['pos']))
               if abs(fl(p[0]) - fl(q[0])) > MP_TOL or abs(fl(p[1]) - fl(q[1])) > MP_TOL]
        if bad or len(mp['pos']) != len(io['pos']):
            return dict(ok=False, kind='correspondence', part='mp-pos',
                        detail=f'multipartite positions differ from the model (networkx {io.get("nx")}; model = 3.6.x source) '
                               f'at nodes {bad}: impl {[[fl(x), fl(y)] for x, y in io["pos"]]} '
                               f'model {[[fl(x), fl(y)] for x, y in mp["pos"]]} layers {mp["layers"]}')
    return dict(ok=True)


def axes(d):
    """(index of the peer axis, index of the level axis) in an (x, y) pair"""
    return (0, 1) if d == 'v' else (1, 0)


def step_oracle(d, before, op, after, err):
    """property of one mover step on the implementation's own positions (floats)"""
    pa, la = axes(d)
    n = len(before)
    if len(after) != n:
        return 'levels', f'number of nodes changed {n} -> {len(after)}'
    for j in range(n):
        if after[j][la] != before[j][la]:
            return 'levels', f'level coordinate of node {j} changed {before[j][la]} -> {after[j][la]}'
    node = op.get('i', op.get('a'))
    if node is None or not (0 <= node < n):
        return None
    lvl = before[node][la]
    if err is not None:
        if after != before:
            return 'atomic', f'operation raised {err} but moved nodes'
        # the only documented refusals: swapping across levels; jittering/placing exactly onto a peer
        if op['op'] == 'swap' and before[op['a']][la] != before[op['b']][la] and err == 'DifferentHierarchyLevelsError':
            return None
        if op['op'] in ('jitter', 'place') and err == 'AssertionError':
            dx = op['dx'] if op['op'] == 'jitter' else op['x'] - before[node][0]
            new = before[node][pa] + dx
            if any(j != node and before[j][la] == lvl and before[j][pa] == new for j in range(n)):
                return None
        return 'raises', f'{op} raised {err} on a valid input'
    for j in range(n):
        if before[j][la] != lvl and after[j][pa] != before[j][pa]:
            return 'other-level', f'node {j} of another level moved {before[j]} -> {after[j]}'
    if op['op'] == 'swap':
        a, b = op['a'], op['b']
        exp = [p[pa] for p in before]
        exp[a], exp[b] = exp[b], exp[a]
        if [p[pa] for p in after] != exp:
            return 'swap', f'swap({a},{b}) gave {[p[pa] for p in after]} expected {exp}'
    elif op['op'] == 'shift':
        i, k = op['i'], op['k']
        peers = sorted((j for j in range(n) if before[j][la] == lvl), key=lambda j: before[j][pa])
        coords = [before[j][pa] for j in peers]
        p = peers.index(i)
        q = min(max(p + k, 0), len(peers) - 1)
        peers.remove(i)
        peers.insert(q, i)
        for r, j in enumerate(peers):
            if after[j][pa] != coords[r]:
                return 'shift', f'shift({i},{k}): node {j} at {after[j][pa]} expected {coords[r]}'
    elif op['op'] == 'jitter':
        i = op['i']
        if not close(after[i][pa], before[i][pa] + op['dx']):
            return 'jitter', f'jitter({i},{op["dx"]}): node at {after[i][pa]} expected {before[i][pa] + op["dx"]}'
    elif op['op'] == 'place' and d == 'v':
        i = op['i']
        if not close(after[i][pa], op['x']):
            return 'place', f'place({i},{op["x"]}): node at {after[i][pa]}'
    return None


def judge_mover(c, io, rep):
    r = rep[0]
    if 'err' in io or 'err' in r:
        ok = io.get('err') == r.get('err')
        if c['pos']:
            return dict(ok=False, kind='property', part='roundtrip', detail=f'loading positions raised: impl {io.get("err")} model {r.get("err")}')
        return dict(ok=ok, kind='correspondence', detail=f'empty dict: impl {io.get("err")} model {r.get("err")}')
    want = [[float(x), float(y)] for x, y in c['pos']]
    flt = lambda ps: [[fl(x), fl(y)] for x, y in ps]
    if io['init'] is None or flt(io['init']) != want:
        return dict(ok=False, kind='property', part='roundtrip',
                    detail=f'Mover(pos, {c["dir"]!r}).pos = {io["init"] and flt(io["init"])} != loaded {want} '
                           f'(keys inserted in the order {c.get("korder") or "ascending"})')
    # pass 1 - the property, judged geometrically on the implementation's own positions over the WHOLE history
    # (a disagreement with the model at an earlier step must not hide a later step that goes wrong)
    before = want
    for k, (op, st) in enumerate(zip(c['ops'], io['trace'])):
        if not isinstance(st['pos'], list):
            return dict(ok=False, kind='property', part='readable', step=k, detail=f'step {k}: position unreadable {st["pos"]}')
        after = flt(st['pos'])
        if op['op'] == 'load':
            wl = [[float(x), float(y)] for x, y in op['pos']]
            if st.get('err') or after != wl:
                return dict(ok=False, kind='property', part='roundtrip', step=k,
                            detail=f'step {k}: re-loading {wl} (keys {op.get("korder") or "ascending"}) into the used mover '
                                   f'gave {st.get("err") or after}')
        elif op['op'] == 'scribble':
            if st.get('err') or after != before:
                return dict(ok=False, kind='property', part='aliasing', step=k,
                            detail=f'step {k}: overwriting the dictionary returned by Mover.pos changed the mover: {before} -> '
                                   f'{st.get("err") or after}')
        else:
            n = len(before)
            if 0 <= op.get('i', op.get('a', 0)) < n and 0 <= op.get('b', 0) < n:
                bad = step_oracle(c['dir'], before, op, after, st.get('err'))
                if bad is not None:
                    return dict(ok=False, kind='property', part=bad[0], step=k,
                                detail=f'step {k} {op} of {[o if o["op"] != "load" else "load" for o in c["ops"]]}: {bad[1]}; '
                                       f'positions before the step {before}')
        before = after
    # pass 2 - correspondence with the Lean model (one model run per loaded diagram)
    for (pos, kops), r in zip(segments(c), rep):
        wl = [[float(x), float(y)] for x, y in pos]
        if 'err' in r or flt(r['init']['pos']) != wl:
            return dict(ok=False, kind='harness', detail='model round trip differs (contradicts mover_roundtrip)')
        n = len(wl)
        for (k, op), ms in zip(kops, r['trace']):
            st = io['trace'][k]
            after = flt(st['pos'])
            valid = 0 <= op.get('i', op.get('a', 0)) < n and 0 <= op.get('b', 0) < n
            if st.get('err') != ms.get('err'):
                if not valid and st.get('err') and ms.get('err'):
                    pass    # malformed node index: only "both raise" is compared
                else:
                    return dict(ok=False, kind='correspondence', part='exception', step=k,
                                detail=f'step {k} {op}: impl {st.get("err")} model {ms.get("err")}')
            mp = flt(ms['pos'])
            if len(mp) != len(after) or any(not (close(a[0], b[0]) and close(a[1], b[1])) for a, b in zip(after, mp)):
                return dict(ok=False, kind='correspondence', part='model-pos', step=k,
                            detail=f'step {k} {op}: impl {after} model {mp}')
    return dict(ok=True)


def judge(c, io, rep):
    return judge_layout(c, io, rep) if c['kind'] == 'layout' else judge_mover(c, io, rep)


# ------------------------------------------------------------------------------------------ bookkeeping

def nontrivial(c):
    if c['kind'] == 'layout':
        if c['ptype'] == 'lattice':
            return G.is_mixed(c['rows'])
        s = [frozenset(x) for x in c['elems']]
        return any(a < b for a in s for b in s)
    return len(c['ops']) > 0 and c['stream'] != 'malformed'


def key(c):
    if c['kind'] == 'layout':
        return ['L', c['ptype'], c.get('elems'), c.get('rows'), c['layout'], c.get('c'), c.get('dpth'), c.get('hist'), c.get('use_cache')]
    return ['M', c['dir'], c['pos'], c['ops'], c.get('korder')]


def branch(c, io, rep):
    out = [c['stream']]
    if c['kind'] == 'layout':
        out.append('layout:' + c['layout'])
        if c['layout'] == 'multipartite' and len(rep) > 2 and 'pos' in rep[2]:
            out.append('mp-model-compared:networkx-' + '.'.join(str(io.get('nx')).split('.')[:2]))
            if any(o != sorted(o) for o in impl_layer_orders(io)):
                out.append('mp-layer-order:not-ascending')
        if 'levels' in io:
            out.append(f'levels:{max(io["levels"]) + 1}' if io['levels'] else 'levels:0')
    else:
        out.append('mover:' + c['dir'])
        if rep and 'trace' in rep[0] and 'trace' in io:
            pa, _ = axes(c['dir'])
            prev = io['init']
            for op, st in zip(c['ops'], io['trace']):
                tag = 'op:' + op['op']
                if st.get('err'):
                    tag += ':' + st['err']
                elif op['op'] in ('jitter', 'place') and isinstance(st['pos'], list) and prev:
                    moved = sum(1 for a, b in zip(prev, st['pos']) if a != b)
                    tag += ':overtake' if moved > 1 else (':moved' if moved == 1 else ':still')
                out.append(tag)
                if isinstance(st['pos'], list):
                    prev = st['pos']
    return out


def signature(c, io, rep, v):
    what = c.get('layout') if c['kind'] == 'layout' else (c['ops'][v['step']]['op'] if 'step' in v and v['step'] < len(c['ops']) else 'load')
    return f"C19:{c['kind']}:{what}:{v.get('kind')}:{v.get('part', '-')}"


def shrink(c):
    if c['kind'] == 'layout' and c.get('hist'):
        for i in range(len(c['hist'])):
            d = dict(c)
            d['hist'] = c['hist'][:i] + c['hist'][i + 1:]
            yield d
        return
    if c['kind'] == 'layout':
        if c['ptype'] == 'subsets':
            for i in range(len(c['elems'])):
                if len(c['elems']) > 1:
                    d = dict(c)
                    d['elems'] = c['elems'][:i] + c['elems'][i + 1:]
                    yield d
        else:
            yield from G.shrink_table_case(c)
        return
    for i in range(len(c['ops'])):
        d = dict(c)
        d['ops'] = c['ops'][:i] + c['ops'][i + 1:]
        yield d
    n = len(c['pos'])
    if any(o['op'] == 'load' for o in c['ops']):
        return
    for j in range(n):
        if n > 1 and all(j not in (o.get('i'), o.get('a'), o.get('b')) for o in c['ops']):
            d = dict(c)
            d['pos'] = c['pos'][:j] + c['pos'][j + 1:]
            ren = lambda x: x - (x > j)
            d['ops'] = [{k: (ren(v) if k in ('i', 'a', 'b') else v) for k, v in o.items()} for o in c['ops']]
            if c.get('korder'):
                d['korder'] = [ren(x) for x in c['korder'] if x != j]
            yield d
    if c.get('korder'):
        d = dict(c)
        d['korder'] = None
        yield d

"""C13 — each pattern structure is a Galois connection and its two interval engines agree.

One case = one column of one structure family ('iv' runs BOTH IntervalPS and IntervalNumpyPS, 'set' = SetPS,
'attr' = AttributePS) together with lists of descriptions, base lists and object lists; the case is evaluated on
the full cross product  descriptions x bases  (extension_i),  on every object list (intention_i), and on
to_bin_attr_extents / n_bin_attrs.  A failing case is shrunk down to a single call.
"""
import glob
import itertools
import json
import os
import random

import gen as G

HERE = os.path.dirname(os.path.abspath(__file__))
VERIF = os.path.dirname(os.path.dirname(HERE))

RULE = ('case = (structure family, one column, descriptions D, base lists B, object lists O); evaluated calls = '
        'extension_i(d, b) for all (d, b) in D x B, intention_i(A) for all A in O, to_bin_attr_extents, n_bin_attrs '
        '(interval family: on IntervalPS and IntervalNumpyPS both).  Exhaustive: every column of the tier scope with '
        'D = all descriptions on the value grid + None (+ single numbers), B = None + every ordered duplicate-free '
        'index list, O = every ordered duplicate-free index list; then seeded random columns up to 10 rows on scaled '
        'dyadic grids; a history stream (ONE object per engine: build, full observation, full observation again, '
        '`ps.data = <other column of the same length>`, full observation, ... judged against the spec for the CURRENT '
        'column after every step; exhaustive over all ordered pairs of distinct 2-row columns on small grids, then '
        'random histories of 2-5 steps on columns up to 7 rows); '
        'extreme streams: value pools single precision cannot hold (decimal fractions, integers above 2**24 / 2**31, '
        'nearly equal doubles, +-inf, -0.0, denormals, > float32 max) exhaustively for <= 2 rows and randomly up to 9 '
        'rows, also in ps.data histories; index lists with repetitions / unsorted / of length n without being a '
        'permutation / longer than the column, exhaustively for <= 3 rows; columns with 13..129 rows; tuples and '
        'one-shot iterators as index collections; set values whose text order differs from their numeric order. '
        'The implementation is always driven by a hostile-but-legal caller: the column object (and its mutable cells) '
        'is cleared after construction / assignment, ONE list object per role is refilled and re-used for every call '
        '(and checked to be left alone), every returned list/set is mutated in place after it has been recorded. '
        'a separate malformed stream (0-row column, out-of-range indexes, non-descriptions, bad cells). '
        'non-trivial = column with >= 2 distinct values and at least one base list that is neither None nor a sorted '
        'prefix; distinct = distinct case (column, structure, D, B, O).  One "evaluation" is one column with its whole '
        'cross product (a 4-row interval column = 2 x 21 x 66 extension calls + 2 x 65 intention calls + binarisation).')
EXHAUSTIVE = {
    'quick': 'interval: all columns with <= 4 rows over {0,1,2,3} (4 points + 6 proper intervals, 11110 columns) x 21 '
             'descriptions (None, 4 numbers, 16 pairs incl. improper) x (None + all ordered base lists) x all ordered '
             'object lists x both engines; all input forms (x, [x], [x,x], int/float) for <= 2 rows; '
             'set: all columns <= 4 rows over the 8 subsets of {a,b,c} (4680) x (None + 8 subsets) x bases x object '
             'lists; attribute: all boolean columns <= 4 rows x {False,True} x bases x object lists; '
             'histories (build, observe, observe, ps.data = other column, observe, observe): all ordered pairs of distinct '
             '2-row interval columns over {0,1,2} (1260), of 2-row set columns over the subsets of {a,b} (240), of '
             'boolean columns with <= 3 rows (70); extreme values: all columns <= 2 rows over every 4-number window of 9 '
             'hostile value pools (1650) x 21 descriptions x all bases x all object lists; extreme index lists: all '
             'columns <= 3 rows (interval over {0,1,2}: 258, set over subsets of {a,b}: 84, attribute: 14) x all '
             'descriptions x every index list of length <= n+1 WITH repetitions as base and as object list',
    'thorough': 'the quick scope, plus interval columns with 5 rows over {0,1,2} (6 values) and set columns with 5 rows '
                'over the 4 subsets of {a,b}, with sorted and reversed base/object lists',
}
EXPLANATION = ('extension_i and intention_i (non-empty A) outputs are pinned uniquely by the property, so implementation '
               '!= Spec is a property failure; the implementation\'s intention_i outputs are additionally judged by the '
               'Lean checker Spec.PS.galoisOn (A inside ext(int A); ext(int A) inside ext(d) for every grid description d '
               'covering A).  Theorems Fca.C13.* prove model = Spec and the Galois laws for all inputs, and '
               'numpy_eq_python for all inputs with >= 1 row.  The model is a pure function of the current column '
               '(no state), so "the answers depend on the current data only, never on earlier queries or earlier '
               'columns" holds of it by construction; the history stream checks exactly that of the implementation: one '
               'object is queried, re-queried, given `ps.data = column` and queried again, and every observation must '
               'equal the spec/model value for the column it currently holds.  Binary-attribute names are compared with '
               'describe_pattern of the modelled description (string formatting done in this harness, trusted).')
ASSUMPTIONS = ['a column has at least one row (DESIGN section 6); the 0-row column is only compared with the model '
               '(there IntervalNumpyPS raises IndexError where IntervalPS answers [] — outside the property\'s scope)',
               'index arguments are lists (or tuples; base sets also one-shot iterators) of valid non-negative indexes; '
               'repetitions and any order are in scope (the theorems need no duplicate-freeness): the extension keeps '
               'the base order and multiplicity',
               'numbers are doubles other than NaN (so +-inf, -0.0, decimal fractions, integers up to 2**53, denormals); '
               'the model works on integers: the harness either scales dyadic test values by a power of two or sends '
               'the RANK of each value in an explicit pool of test numbers (only comparisons are applied to them); an '
               'implementation output that is not exactly one of the numbers handed in is a failure; 0.0 and -0.0 are '
               'not mixed in one column (they are equal, and which sign survives set()/np.unique is unspecified)',
               'interval descriptions are None, a number, or a 2-sequence of numbers']
TRUSTED = ['formatting of binary-attribute names (describe_pattern) is reproduced in the harness from the modelled description',
           'Python set iteration order is not modelled: every use in the anchored code goes through sorted/min/max/len']
CHUNK = 60
REQUESTS_NEED_IMPL = True

LETTERS = 'abcdefgh'


# ------------------------------------------------------------------------------------------------ generators

def _bases(n):
    return [None] + [list(p) for p in G.ordered_sublists(range(n))]


def _objs(n):
    return [list(p) for p in G.ordered_sublists(range(n))]


def _sorted_rev(n):
    out = []
    for s in G.sorted_sublists(range(n)):
        out.append(list(s))
        if len(s) > 1:
            out.append(list(s)[::-1])
    return out


def _rep_lists(n):
    """every index list over range(n) of length <= n + 1, repetitions allowed (so: unsorted lists, lists with a
    repeated object, lists of length exactly n that are NOT a permutation, lists longer than the column)"""
    return [list(p) for k in range(n + 2) for p in itertools.product(range(n), repeat=k)]


def _iv_values(k):
    return [a for a in range(k)] + [[a, b] for a in range(k) for b in range(a + 1, k)]


def _iv_descs(k):
    return [None] + list(range(k)) + [[a, b] for a in range(k) for b in range(k)]


def _subsets(k):
    return [list(c) for r in range(k + 1) for c in itertools.combinations(range(k), r)]


_EXP_CACHE = {}


def _expand(c):
    """Exhaustive cases carry the tokens 'ALL' (bases / objs: every ordered duplicate-free index list, bases also
    None), 'SR' (sorted and reversed lists) and 'GRIDk' (every description on the k-point grid) instead of the
    explicit lists, to keep cases small; this returns the case with explicit lists."""
    if not any(isinstance(c[k], str) for k in ('descs', 'bases', 'objs')):
        return c
    n = len(c['col'])
    d = dict(c)
    for k in ('descs', 'bases', 'objs'):
        tok = c[k]
        if not isinstance(tok, str):
            continue
        ck = (c['ps'], k, tok, n)
        if ck not in _EXP_CACHE:
            if tok == 'ALL':
                v = _bases(n) if k == 'bases' else _objs(n)
            elif tok == 'SR':
                v = ([None] if k == 'bases' else []) + _sorted_rev(n)
            elif tok == 'REP':
                v = ([None] if k == 'bases' else []) + _rep_lists(n)
            elif tok.startswith('GRID'):
                g = int(tok[4:])
                v = {'iv': lambda: _iv_descs(g), 'set': lambda: [None] + _subsets(g), 'attr': lambda: [0, 1]}[c['ps']]()
            else:
                raise ValueError(tok)
            _EXP_CACHE[ck] = v
        d[k] = _EXP_CACHE[ck]
    return d


def _corpus():
    for p in sorted(glob.glob(os.path.join(VERIF, 'corpus', 'C13', '*.json'))):
        try:
            c = json.load(open(p))
        except Exception:
            continue
        for case in (c if isinstance(c, list) else [c]):
            case = dict(case)
            case['stream'] = 'corpus'
            yield case


def _exhaustive(tier, boost):
    big = tier == 'thorough' or boost
    vals, subs = _iv_values(4), _subsets(3)
    forms = []
    for a in range(3):
        forms += [a, [a], [a, a], {'f': a}]
    forms += [[0, 2], [1, 2], {'f2': [0, 1]}]

    def iv_cols(n):
        for col in itertools.product(vals, repeat=n):
            yield dict(stream='exhaustive', ps='iv', col=list(col), scale=1, num='int', descs='GRID4', bases='ALL',
                       objs='ALL', bin=True)

    def set_cols(n):
        for col in itertools.product(subs, repeat=n):
            yield dict(stream='exhaustive', ps='set', col=[list(v) for v in col], vals='str', form='set', descs='GRID3',
                       bases='ALL', objs='ALL', bin=True)

    # cheap families first (a broken structure is then reported quickly): attribute, small set / interval columns,
    # the input-form variants, and last the 4-row set and interval columns
    for n in range(1, 5):
        for col in itertools.product((0, 1), repeat=n):
            yield dict(stream='exhaustive', ps='attr', col=list(col), raw='bool', descs='GRID2', bases='ALL',
                       objs='ALL', bin=True)
    for n in (1, 2, 3):
        for col in itertools.product((0, 1, 2, -1), repeat=n):
            yield dict(stream='exhaustive-forms', ps='attr', col=list(col), raw='int', descs='GRID2', bases='ALL',
                       objs='ALL', bin=True)
    for n in (1, 2, 3):
        yield from set_cols(n)
        yield from iv_cols(n)
    # all input forms of a cell, <= 2 rows
    for n in (1, 2):
        for col in itertools.product(forms, repeat=n):
            num = 'float' if any(isinstance(x, dict) for x in col) else 'int'
            col = [x.get('f', x.get('f2')) if isinstance(x, dict) else x for x in col]
            yield dict(stream='exhaustive-forms', ps='iv', col=list(col), scale=1, num=num, descs='GRID3',
                       bases='ALL', objs='ALL', bin=True)
    for form in ('list', 'tuple', 'frozenset', 'duplist', 'atom'):
        for n in (1, 2):
            for col in itertools.product(_subsets(2), repeat=n):
                for vals_ in ('str', 'int'):
                    yield dict(stream='exhaustive-forms', ps='set', col=[list(v) for v in col], vals=vals_, form=form,
                               descs='GRID2', bases='ALL', objs='ALL', bin=True)
    yield from set_cols(4)
    yield from iv_cols(4)
    if big:
        for col in itertools.product(_iv_values(3), repeat=5):
            yield dict(stream='exhaustive-large', ps='iv', col=list(col), scale=1, num='int', descs='GRID3',
                       bases='SR', objs='SR', bin=True)
        for col in itertools.product(_subsets(2), repeat=5):
            yield dict(stream='exhaustive-large', ps='set', col=[list(v) for v in col], vals='str', form='set',
                       descs='GRID2', bases='SR', objs='SR', bin=True)


def _rand_lists(rng, n, k, allow_empty=True):
    out = []
    for _ in range(k):
        lo = 0 if allow_empty else 1
        out.append(rng.sample(range(n), rng.randint(lo, n)))
    return out


def _random(tier, seed, boost):
    rng = random.Random(seed * 1000003 + 1313)
    nrand = 400 if tier == 'quick' else 6000
    if boost:
        nrand *= 3
    for _ in range(nrand):
        n = rng.randint(1, 10)
        bases = [None, list(range(n)), list(range(n))[::-1]] + _rand_lists(rng, n, 5)
        objs = [[]] + _rand_lists(rng, n, 7, allow_empty=False)
        # interval
        scale = rng.choice((1, 1, 2, 4, 8))
        span = rng.choice((2, 3, 5, 9, 40))
        off = rng.choice((0, 0, -3, -span * scale, 100))
        col = []
        for _i in range(n):
            a, b = sorted((rng.randint(0, span * scale) + off, rng.randint(0, span * scale) + off))
            r = rng.random()
            col.append(a if r < 0.35 else [a] if r < 0.45 else [a, a] if r < 0.5 else [a, b])
        pts = sorted({x for v in col for x in (v if isinstance(v, list) else [v])})
        cand = pts + [pts[0] - 1, pts[-1] + 1]
        descs = [None] + [rng.choice(cand) for _k in range(2)]
        for _k in range(8):
            a, b = rng.choice(cand), rng.choice(cand)
            if rng.random() < 0.85:
                a, b = min(a, b), max(a, b)
            descs.append([a, b])
        yield dict(stream='random', ps='iv', col=col, scale=scale, num=rng.choice(('int', 'float')) if scale == 1 else 'float',
                   descs=descs, bases=bases, objs=objs, bin=True)
        # set
        k = rng.randint(1, 5)
        dens = rng.choice((0.2, 0.5, 0.8))
        scol = [[v for v in range(k) if rng.random() < dens] for _i in range(n)]
        sd = [None, [], list(range(k))] + [[v for v in range(k + 1) if rng.random() < 0.5] for _k in range(6)]
        yield dict(stream='random', ps='set', col=scol, vals=rng.choice(('str', 'int')),
                   form=rng.choice(('set', 'set', 'list', 'frozenset')), descs=sd, bases=bases, objs=objs, bin=True)
        # attribute
        yield dict(stream='random', ps='attr', col=[int(rng.random() < dens) for _i in range(n)], raw='bool',
                   descs=[0, 1], bases=bases, objs=objs, bin=True)


def _malformed(tier, seed):
    rng = random.Random(seed * 1000003 + 1414)
    # the 0-row column
    yield dict(stream='malformed', ps='iv', col=[], scale=1, num='int', descs=[None, 1, [0, 1]], bases=[None, []],
               objs=[[], [0]], bin=True)
    yield dict(stream='malformed', ps='set', col=[], vals='str', form='set', descs=[None, [], [0]], bases=[None, []],
               objs=[[], [0]], bin=True)
    yield dict(stream='malformed', ps='attr', col=[], raw='bool', descs=[0, 1], bases=[None, []], objs=[[], [0]], bin=True)
    # bad cells
    for bad in ([1, 2, 3], []):
        for pos in (0, 1):
            col = [0, [1, 2]]
            col.insert(pos, bad)
            yield dict(stream='malformed', ps='iv', col=col, scale=1, num='int', descs=[None], bases=[None], objs=[[]],
                       bin=True)
    for _ in range(60 if tier == 'quick' else 600):
        n = rng.randint(1, 5)
        def oob(k):
            out = []
            for _k in range(k):
                xs = rng.sample(range(n), rng.randint(0, n))
                xs.insert(rng.randint(0, len(xs)), n + rng.randint(0, 2))
                out.append(xs)
            return out
        col = [rng.choice(_iv_values(4)) for _i in range(n)]
        yield dict(stream='malformed', ps='iv', col=col, scale=1, num='int',
                   descs=[None, 1, [0, 2], [1], [], [0, 1, 2], [3, 0]], bases=[None] + oob(3) + _rand_lists(rng, n, 1),
                   objs=[[]] + oob(3), bin=False)
        yield dict(stream='malformed', ps='set', col=[rng.choice(_subsets(3)) for _i in range(n)], vals='str', form='set',
                   descs=[None, [0, 1], [0, 1, 2]], bases=[None] + oob(3), objs=[[]] + oob(3), bin=False)
        yield dict(stream='malformed', ps='attr', col=[rng.randint(0, 1) for _i in range(n)], raw='bool', descs=[0, 1],
                   bases=[None] + oob(3), objs=[[]] + oob(3) + [[0] + [n]], bin=False)


def _history(tier, seed, boost):
    """ONE object per engine: build, observe, observe again (a query must not change later answers), then
    `ps.data = <other column of the same length>`, observe, observe again, ...  Judged against the spec for the
    CURRENT column after every step."""
    big = tier == 'thorough' or boost

    def two_step(ps, c0, c1, extra, grid):
        ob = dict(descs=grid, bases='ALL', objs='ALL', bin=True)
        hist = [dict(ob, col=c0, assign=True), dict(ob, col=c0, assign=False),
                dict(ob, col=c1, assign=True), dict(ob, col=c1, assign=False)]
        return dict(extra, stream='history', ps=ps, history=hist)

    # exhaustive: every ordered pair of distinct 2-row columns (interval: 3-point grid; set: subsets of {a,b};
    # attribute: booleans, also 3 rows)
    ivc = [list(c) for c in itertools.product(_iv_values(3), repeat=2)]
    for c0 in ivc:
        for c1 in ivc:
            if c0 != c1:
                yield two_step('iv', c0, c1, dict(scale=1, num='int'), 'GRID3')
    sc = [[list(v) for v in c] for c in itertools.product(_subsets(2), repeat=2)]
    for c0 in sc:
        for c1 in sc:
            if c0 != c1:
                yield two_step('set', c0, c1, dict(vals='str', form='set'), 'GRID2')
    if big:
        sc3 = [[list(v) for v in c] for c in itertools.product(_subsets(2), repeat=3)]
        for c0 in sc3:
            for c1 in sc3[::7]:
                if c0 != c1:
                    yield two_step('set', c0, c1, dict(vals='str', form='set'), 'GRID2')
    for n in (1, 2, 3):
        ac = [list(c) for c in itertools.product((0, 1), repeat=n)]
        for c0 in ac:
            for c1 in ac:
                if c0 != c1:
                    yield two_step('attr', c0, c1, dict(raw='bool'), 'GRID2')
    # seeded random longer histories on larger columns
    rng = random.Random(seed * 1000003 + 1515)
    for _ in range((150 if tier == 'quick' else 2000) * (3 if boost else 1)):
        n = rng.randint(2, 7)
        steps = rng.randint(2, 5)
        bases = [None, list(range(n))[::-1]] + _rand_lists(rng, n, 3)
        objs = [[]] + _rand_lists(rng, n, 4, allow_empty=False) + [rng.sample(range(n), 2)]
        span = rng.choice((2, 3, 6))

        def iv_col():
            col = []
            for _i in range(n):
                a, b = sorted((rng.randint(0, span), rng.randint(0, span)))
                col.append(a if rng.random() < 0.4 else [a, b])
            return col
        k = rng.randint(2, 4)
        dens = rng.choice((0.3, 0.5, 0.7))
        makers = {
            'iv': (iv_col, dict(scale=rng.choice((1, 2)), num='float'),
                   [None, rng.randint(0, span)] + [sorted((rng.randint(0, span), rng.randint(0, span))) for _k in range(5)]),
            'set': (lambda: [[v for v in range(k) if rng.random() < dens] for _i in range(n)],
                    dict(vals=rng.choice(('str', 'int')), form=rng.choice(('set', 'list', 'frozenset'))),
                    [None, [], list(range(k))] + [[v for v in range(k) if rng.random() < 0.5] for _k in range(4)]),
            'attr': (lambda: [int(rng.random() < dens) for _i in range(n)], dict(raw='bool'), [0, 1]),
        }
        for ps, (mk, extra, descs) in makers.items():
            hist, col = [], mk()
            for st in range(steps):
                assign = st == 0 or rng.random() < 0.65
                if assign and st > 0:
                    col = mk()
                hist.append(dict(col=col, assign=assign, descs=descs, bases=bases, objs=objs, bin=rng.random() < 0.5))
            yield dict(extra, stream='history', ps=ps, history=hist)


# value pools whose numbers single precision (or a sloppy cast / string round trip) cannot hold; strictly increasing
POOLS = {
    'decimal': ['0.1', '0.3', '1.1', '19.99'],
    'decimal-neg': ['-19.99', '-0.7', '-0.0', '1e-07', '0.2'],
    'above-2**24': ['16777215', '16777216', '16777217', '16777219'],
    'above-2**24-float': ['-16777217.0', '5.0', '16777216.0', '16777217.0'],
    'above-2**31': ['2147483647', '2147483648', '2147483649', '4294967297', '9007199254740991'],
    'nearly-equal': ['1.0', '1.0000000000000002', '1.0000000001', '1.0000001'],
    'sum-artefact': ['0.1', '0.2', '0.3', '0.30000000000000004'],
    'infinite': ['-inf', '-1e308', '-0.0', '5e-324', '1e308', 'inf'],
    'tiny-huge': ['1e-320', '1e-40', '1e-38', '3.4028235e38', '3.5e38', '1.7976931348623157e308'],
}


for _name, _pool in POOLS.items():
    _vals = [float(t) for t in _pool]
    assert all(a < b for a, b in zip(_vals, _vals[1:])), _name


def _pool_cols(rng, k, n):
    col = []
    for _i in range(n):
        a, b = sorted((rng.randrange(k), rng.randrange(k)))
        r = rng.random()
        col.append(a if (r < 0.4 or a == b) else [a, b] if r < 0.9 else [a, a])
    return col


def _extremes(tier, seed, boost):
    """(H3) values, index lists and sizes at the edges of what the structures accept."""
    rng = random.Random(seed * 1000003 + 1616)
    big = tier == 'thorough' or boost
    # -- hostile value pools: exhaustive over all columns with <= 2 rows on 4 pool numbers (sliding window over the
    #    pool), all descriptions on those numbers, all base / object lists; then random taller columns on the whole pool
    for name, pool in POOLS.items():
        for lo in range(0, len(pool) - 3):
            win = pool[lo:lo + 4]
            for n in (1, 2):
                for col in itertools.product(_iv_values(4), repeat=n):
                    yield dict(stream='extreme-values', ps='iv', pool=win, poolname=name, col=list(col), scale=1, num='float',
                               descs='GRID4', bases='ALL', objs='ALL', bin=True)
        k = len(pool)
        for _ in range(12 if not big else 120):
            n = rng.randint(3, 9)
            descs = [None] + [rng.randrange(k) for _k in range(2)] + \
                [sorted((rng.randrange(k), rng.randrange(k))) for _k in range(7)] + [[k - 1, 0]]
            yield dict(stream='extreme-values', ps='iv', pool=pool, poolname=name, col=_pool_cols(rng, k, n), scale=1, num='float',
                       descs=descs, bases=[None, list(range(n))[::-1]] + _rand_lists(rng, n, 4),
                       objs=[[]] + _rand_lists(rng, n, 6, allow_empty=False), bin=True,
                       idxform=rng.choice(('list', 'list', 'tuple', 'iter')))
    # a history on hostile numbers: the replaced column must be held exactly as well
    for name, pool in POOLS.items():
        k = len(pool)
        for _ in range(4 if not big else 40):
            n = rng.randint(1, 4)
            ob = dict(descs=[None] + [[a, b] for a in range(k) for b in range(a, k)][::2], bases='ALL', objs='ALL', bin=True)
            c0, c1 = _pool_cols(rng, k, n), _pool_cols(rng, k, n)
            yield dict(stream='history', ps='iv', pool=pool, poolname=name, scale=1, num='float',
                       history=[dict(ob, col=c0, assign=True), dict(ob, col=c1, assign=True), dict(ob, col=c1, assign=False),
                                dict(ob, col=c0, assign=True)])
    # set values that sort differently as text and as numbers / by case; values of mixed width
    for vpool in ([2, 9, 10, 100], [-1, 0, 7, 64, 65], ['B', 'a', 'aa', 'b'], ['10', '2', '9'], [0.1, 0.5, 19.99]):
        k = len(vpool)
        kk = min(k, 4)
        for _ in range(6 if not big else 40):
            n = rng.randint(1, 6)
            scol = [[v for v in range(kk) if rng.random() < 0.5] for _i in range(n)]
            sd = [None, [], list(range(k))] + [[v for v in range(k) if rng.random() < 0.5] for _k in range(5)]
            yield dict(stream='extreme-values', ps='set', vpool=vpool, col=scol, vals='pool', form=rng.choice(('set', 'list', 'frozenset')),
                       descs=sd, bases=[None] + _rand_lists(rng, n, 4), objs=[[]] + _rand_lists(rng, n, 5, allow_empty=False),
                       bin=True, idxform=rng.choice(('list', 'tuple', 'iter')))
    # -- index lists with repetitions / unsorted / of length n without being a permutation / longer than the column:
    #    exhaustive over all columns with <= 3 rows on small grids
    for n in (1, 2, 3):
        for col in itertools.product(_iv_values(3), repeat=n):
            yield dict(stream='extreme-index-lists', ps='iv', col=list(col), scale=1, num='int', descs='GRID3', bases='REP',
                       objs='REP', bin=False)
        for col in itertools.product(_subsets(2), repeat=n):
            yield dict(stream='extreme-index-lists', ps='set', col=[list(v) for v in col], vals='str', form='set',
                       descs='GRID2', bases='REP', objs='REP', bin=False)
        for col in itertools.product((0, 1), repeat=n):
            yield dict(stream='extreme-index-lists', ps='attr', col=list(col), raw='bool', descs='GRID2', bases='REP',
                       objs='REP', bin=False)
    # the same as a history (a repeated-index query must not disturb later answers; then replace the data)
    for n in (2, 3):
        for _ in range(25 if not big else 200):
            ob = dict(bases='REP', objs='REP', bin=True)
            for ps, mk, extra, grid in (
                    ('iv', lambda: [rng.choice(_iv_values(3)) for _i in range(n)], dict(scale=1, num='int'), 'GRID3'),
                    ('set', lambda: [rng.choice(_subsets(2)) for _i in range(n)], dict(vals='str', form='set'), 'GRID2'),
                    ('attr', lambda: [rng.randint(0, 1) for _i in range(n)], dict(raw='bool'), 'GRID2')):
                c0, c1 = mk(), mk()
                yield dict(extra, stream='history', ps=ps,
                           history=[dict(ob, descs=grid, col=c0, assign=True), dict(ob, descs=grid, col=c1, assign=True),
                                    dict(ob, descs=grid, col=c1, assign=False)])
    # -- sizes: two-digit indexes (>= 13 rows), more than 64 rows (bit-packed extents / 64-bit masks), random index
    #    lists with repetitions (one of them of length exactly n), tuples and one-shot iterators as index collections
    for _ in range(40 if not big else 400):
        n = rng.choice((13, 14, 16, 17, 31, 32, 33, 63, 64, 65, 66, 100, 129))
        rep = [[rng.randrange(n) for _i in range(n)], [rng.randrange(n) for _i in range(rng.randint(1, 2 * n))],
               sorted(rng.sample(range(n), n // 2), reverse=True), [n - 1] * 3, list(range(n))[::-1]]
        bases = [None, list(range(n))] + rep + _rand_lists(rng, n, 2)
        objs = [[]] + rep + _rand_lists(rng, n, 3, allow_empty=False)
        idxform = rng.choice(('list', 'list', 'tuple', 'iter'))
        span = rng.choice((3, 12))
        col = []
        for _i in range(n):
            a, b = sorted((rng.randint(-span, span), rng.randint(-span, span)))
            col.append(a if rng.random() < 0.4 else [a, b])
        descs = [None, rng.randint(-span, span)] + [sorted((rng.randint(-span, span), rng.randint(-span, span))) for _k in range(5)]
        yield dict(stream='extreme-sizes', ps='iv', col=col, scale=rng.choice((1, 4)), num='float', descs=descs, bases=bases, objs=objs,
                   bin=True, idxform=idxform)
        k = rng.randint(1, 4)
        dens = rng.choice((0.2, 0.5, 0.8))
        yield dict(stream='extreme-sizes', ps='set', col=[[v for v in range(k) if rng.random() < dens] for _i in range(n)],
                   vals=rng.choice(('str', 'int')), form='set',
                   descs=[None, [], list(range(k))] + [[v for v in range(k) if rng.random() < 0.5] for _k in range(4)],
                   bases=bases, objs=objs, bin=True, idxform=idxform)
        yield dict(stream='extreme-sizes', ps='attr', col=[int(rng.random() < dens) for _i in range(n)], raw='bool', descs=[0, 1],
                   bases=bases, objs=objs, bin=True, idxform=idxform)


def gen(tier, seed, boost=False):
    yield from _corpus()
    yield from _history(tier, seed, boost)
    yield from _extremes(tier, seed, boost)
    yield from _exhaustive(tier, boost)
    yield from _random(tier, seed, boost)
    yield from _malformed(tier, seed)


# ------------------------------------------------------------------------------------------------ implementation side

def _err(e):
    return {'err': type(e).__name__}


def _ints(r):
    return [int(x) for x in r]


def _parse_num(t):
    """A pool entry is the text of a Python number: 'inf', '-0.0', '0.1', '1e308' -> float; '16777217' -> int."""
    t = str(t)
    return float(t) if any(ch in t for ch in '.einf') else int(t)


def _numconv(c):
    """(cell value of a code, canonical code of an output number, float shown in attribute names) for an interval
    case.  Without 'pool': code = value * scale (dyadic grid).  With 'pool' (strictly increasing numbers, given as
    text): code = index in the pool, so ANY doubles can be used - decimal fractions, integers above 2**24, nearly
    equal values, +-inf, -0.0 - while the Lean model still sees small integers (only the order matters to it).  An
    output that is not exactly one of the pool's numbers (e.g. a value rounded to float32) has no code."""
    if c.get('pool'):
        vals = [_parse_num(t) for t in c['pool']]
        index = {float(v): i for i, v in enumerate(vals)}

        def canon(x):
            x = float(x)
            return index[x] if x in index else {'not-a-column-value': repr(x)}
        return (lambda i: vals[i]), canon, (lambda i: float(vals[i]))
    scale = c['scale']
    cv = (lambda x: x) if (scale == 1 and c.get('num') == 'int') else (lambda x: x / scale)

    def canon(x):
        v = float(x) * scale
        if v != v or v in (float('inf'), float('-inf')) or not v.is_integer():
            return {'nonint': repr(x)}
        return int(v)
    return cv, canon, (lambda i: float(i / scale))


def _spoil(x):
    """Hostile-but-legal caller: in-place mutation of a value the library handed out or was handed in.  Correct code
    hands out fresh objects and copies what it keeps, so this never changes a later answer."""
    try:
        if isinstance(x, list):
            x.append(10 ** 6)
            x.clear()
        elif isinstance(x, set):
            x.add('spoiled')
            x.clear()
    except Exception:
        pass


def _obtain(state, key, cls, col, assign):
    """The structure object for one phase: built fresh (no history / first phase), re-used untouched
    (assign=False) or re-used after `ps.data = col` (the public setter of AbstractPS).  The column object passed in
    (and its mutable cells) is cleared by the caller afterwards."""
    if state is None or key not in state:
        ps = cls(col, 'x')
        if state is not None:
            state[key] = ps
    else:
        ps = state[key]
        if assign:
            ps.data = col
        else:
            return ps
    for v in col:
        _spoil(v)
    _spoil(col)
    return ps


class _Caller:
    """How index collections are handed over: idxform 'list' (default) re-uses ONE list object per role, refilled in
    place before every call (and checks the callee left it alone); 'tuple' passes tuples; 'iter' passes base sets as
    one-shot iterators (object lists stay lists: intention_i documents a list)."""
    def __init__(self, c):
        self.form = c.get('idxform', 'list')
        self.b, self.a = [], []

    def base(self, b):
        if b is None:
            return None
        if self.form == 'tuple':
            return tuple(b)
        if self.form == 'iter':
            return iter(list(b))
        self.b[:] = b
        return self.b

    def objs(self, A):
        if self.form == 'tuple':
            return tuple(A)
        self.a[:] = A
        return self.a


def _observe(ps, c, mk_desc, canon_int):
    """The full observation of one structure object: extension_i over descs x bases, intention_i over objs,
    to_bin_attr_extents, n_bin_attrs; every returned mutable value is spoiled after it has been recorded."""
    o = {}
    caller = _Caller(c)
    ext = []
    for d in c['descs']:
        row = []
        for b in c['bases']:
            try:
                arg = caller.base(b)
                r = ps.extension_i(mk_desc(d), arg)
                res = _ints(r)
                if isinstance(arg, list) and arg != list(b):
                    res = {'argument-mutated': 'base_objects_i'}
                _spoil(r)
                row.append(res)
            except Exception as e:
                row.append(_err(e))
        ext.append(row)
    o['ext'] = ext
    ints = []
    for A in c['objs']:
        try:
            arg = caller.objs(A)
            r = ps.intention_i(arg)
            res = canon_int(r)
            if isinstance(arg, list) and arg != list(A):
                res = {'argument-mutated': 'object_indexes'}
            _spoil(r)
            ints.append(res)
        except Exception as e:
            ints.append(_err(e))
    o['int'] = ints
    if c.get('bin'):
        try:
            pairs = list(ps.to_bin_attr_extents())
            o['bin'] = {'names': [str(nm) for nm, _ in pairs], 'flags': [[int(x) for x in e.tolist()] for _, e in pairs]}
        except Exception as e:
            o['bin'] = _err(e)
        try:
            o['nbin'] = int(ps.n_bin_attrs)
        except Exception as e:
            o['nbin'] = _err(e)
    return o


def _impl_iv(c, state=None):
    from fcapy.mvcontext.pattern_structure import IntervalPS, IntervalNumpyPS
    cv, canon, _ = _numconv(c)

    def mk_col():
        col = [tuple(cv(y) for y in x) if isinstance(x, list) else cv(x) for x in c['col']]
        return [list(x) if (isinstance(x, tuple) and i % 2) else x for i, x in enumerate(col)]

    def mk_desc(d):
        return None if d is None else tuple(cv(y) for y in d) if isinstance(d, list) else cv(d)

    def canon_int(r):
        return None if r is None else [canon(r[0]), canon(r[1])]
    out = {}
    for eng, cls in (('py', IntervalPS), ('np', IntervalNumpyPS)):
        try:
            ps = _obtain(state, eng, cls, mk_col(), c.get('assign', True))
        except Exception as e:
            out[eng] = {'data': _err(e)}
            continue
        raw = ps._data.tolist() if hasattr(ps._data, 'tolist') else ps._data
        o = {'data': [[canon(v[0]), canon(v[1])] for v in raw]}
        o.update(_observe(ps, c, mk_desc, canon_int))
        out[eng] = o
    return out


def _set_conv(c):
    if c.get('vpool'):
        vp = list(c['vpool'])
        return lambda v: vp[v]
    return (lambda v: LETTERS[v]) if c['vals'] == 'str' else (lambda v: v)


def _set_value(codes, c):
    conv = _set_conv(c)
    xs = [conv(v) for v in codes]
    form = c['form']
    if form == 'set':
        return set(xs)
    if form == 'frozenset':
        return frozenset(xs)
    if form == 'tuple':
        return tuple(xs)
    if form == 'duplist':
        return xs + xs[:1]
    if form == 'atom' and len(xs) == 1:
        return xs[0]
    return list(xs)


def _set_codes(s, c):
    if c.get('vpool'):
        vp = list(c['vpool'])
        if not all(v in vp for v in s):
            return [{'not-a-column-value': sorted(map(repr, s))}]
        return sorted(vp.index(v) for v in s)
    if c['vals'] == 'str':
        return sorted(LETTERS.index(v) for v in s)
    return sorted(int(v) for v in s)


def _impl_set(c, state=None):
    from fcapy.mvcontext.pattern_structure import SetPS
    conv = _set_conv(c)
    try:
        ps = _obtain(state, 'set', SetPS, [_set_value(v, c) for v in c['col']], c.get('assign', True))
    except Exception as e:
        return {'data': _err(e)}
    o = {'data': [_set_codes(s, c) for s in ps._data]}
    o.update(_observe(ps, c, lambda d: None if d is None else {conv(v) for v in d}, lambda r: _set_codes(r, c)))
    return o


def _impl_attr(c, state=None):
    from fcapy.mvcontext.pattern_structure import AttributePS
    col = [bool(v) for v in c['col']] if c['raw'] == 'bool' else list(c['col'])
    try:
        ps = _obtain(state, 'attr', AttributePS, col, c.get('assign', True))
    except Exception as e:
        return {'data': _err(e)}
    o = {'data': [int(bool(v)) for v in ps._data]}

    def canon_int(r):
        return int(r) if isinstance(r, (bool, int)) or type(r).__name__ == 'bool_' else {'nonbool': repr(r)}
    o.update(_observe(ps, c, bool, canon_int))
    return o


def _phases(c):
    """A history case `{.., 'history': [phase, ..]}` walks ONE object per engine through the phases: phase 0 builds
    it from its column, a later phase with assign=True does `ps.data = column` (same length), one with
    assign=False leaves the object alone; every phase then makes the full observation.  Returns one ordinary
    (expanded) case per phase."""
    base = {k: v for k, v in c.items() if k != 'history'}
    return [_expand(dict(base, **ph)) for ph in c['history']]


def impl(c):
    f = {'iv': _impl_iv, 'set': _impl_set, 'attr': _impl_attr}[c['ps']]
    if 'history' in c:
        state = {}
        return {'phases': [f(pc, state) for pc in _phases(c)]}
    return f(_expand(c))


# ------------------------------------------------------------------------------------------------ Lean side

def _lean_col(c):
    if c['ps'] == 'set' and c.get('form') == 'atom':
        return [v[0] if len(v) == 1 else v for v in c['col']]
    if c['ps'] == 'set' and c.get('form') == 'duplist':
        return [v + v[:1] for v in c['col']]
    return c['col']


def requests(c, io):
    if 'history' in c:
        outs = io.get('phases') or []
        return [requests(pc, outs[i] if i < len(outs) else {})[0] for i, pc in enumerate(_phases(c))]
    c = _expand(c)
    r = dict(op='C13.' + c['ps'], col=_lean_col(c), descs=c['descs'], bases=c['bases'], objs=c['objs'])
    if c['ps'] == 'iv':
        if all(isinstance(io.get(e), dict) and 'int' in io[e] for e in ('py', 'np')):
            r['impl_int'] = {'py': io['py']['int'], 'np': io['np']['int']}
    elif 'int' in io:
        r['impl_int'] = io['int']
    return [r]


def _in_range(xs, n):
    return all(0 <= x < n for x in xs)


def _fail(kind, sig, detail):
    return dict(ok=False, kind=kind, sig=sig, detail=detail[:600])


def _iv_name(desc, c):
    if desc is None:
        return 'x: ∅'
    shown = _numconv(c)[2]
    return f'x: ({shown(desc[0])}, {shown(desc[1])})'


def _set_name(comb, c):
    conv = _set_conv(c)
    return 'x: ' + (', '.join(str(conv(v)) for v in comb) if comb else '∅')


def _check_engine(c, tag, o, model, spec_ext, galois, in_scope, name_of, part='all'):
    """Compare one engine's outputs `o` with the model / the spec.  Returns None or a failure verdict.
    part: 'calls' = data/extension/intention only, 'bin' = binarisation only, 'all' = both."""
    n = len(c['col'])
    ps = c['ps']
    if part in ('bin', 'nbin'):
        return _check_bin(c, tag, o, model, in_scope, name_of, only_count=(part == 'nbin'))
    if o.get('data') != model['data']:
        return _fail('correspondence', f'C13:{ps}:{tag}:data', f'{tag}: _transform_data gave {o.get("data")}, model {model["data"]}')
    for i, d in enumerate(c['descs']):
        for k, b in enumerate(c['bases']):
            got = o['ext'][i][k]
            sp = spec_ext[i][k] if in_scope else None
            if sp is not None:
                if got != sp:
                    return _fail('property', f'C13:{ps}:{tag}:ext:{"err:" + got["err"] if isinstance(got, dict) else "wrong"}',
                                 f'{tag}.extension_i({d}, {b}) on column {c["col"]} ({"pool " + str(c["pool"]) if c.get("pool") else "scale " + str(c.get("scale", 1))}) returned {got}; '
                                 f'the objects of the base covered by the description are {sp}')
            elif got != model['ext'][i][k]:
                return _fail('correspondence', f'C13:{ps}:{tag}:ext-outside-scope',
                             f'{tag}.extension_i({d}, {b}) on column {c["col"]} returned {got}, model {model["ext"][i][k]}')
    for i, A in enumerate(c['objs']):
        got, want = o['int'][i], model['int'][i]
        pinned = in_scope and _in_range(A, n)
        if got != want:
            return _fail('property' if pinned else 'correspondence',
                         f'C13:{ps}:{tag}:int:{"err:" + got["err"] if isinstance(got, dict) and "err" in got else "wrong"}'
                         + ('' if pinned else '-outside-scope'),
                         f'{tag}.intention_i({A}) on column {c["col"]} returned {got}; '
                         + ('the most specific description is ' if A else 'the pinned empty-set convention is ') + f'{want}')
        if galois is not None and galois[i] is False:
            return _fail('property', f'C13:{ps}:{tag}:galois',
                         f'{tag}.intention_i({A}) = {got} on column {c["col"]} is not a most specific description of A '
                         f'(Lean checker Spec.PS.galoisOn)')
    if part == 'calls':
        return None
    return _check_bin(c, tag, o, model, in_scope, name_of)


def _check_bin(c, tag, o, model, in_scope, name_of, only_count=False):
    ps = c['ps']
    if c.get('bin'):
        mb = model['bin']
        if isinstance(mb, dict):
            want_bin = mb
        else:
            want_bin = {'names': [name_of(b[0]) for b in mb], 'flags': [b[1] for b in mb]}
        gb, gn = o.get('bin'), o.get('nbin')
        if in_scope and isinstance(gb, dict) and 'flags' in gb and gn != len(gb['flags']):
            return _fail('property', f'C13:{ps}:{tag}:nbin', f'{tag}.n_bin_attrs = {gn} but to_bin_attr_extents yields '
                         f'{len(gb["flags"])} attributes on column {c["col"]}')
        if only_count:
            return None
        if gb != want_bin:
            return _fail('correspondence', f'C13:{ps}:{tag}:bin', f'{tag}.to_bin_attr_extents on column {c["col"]}: {gb}, '
                         f'model {want_bin}')
        if gn != model['nbin']:
            return _fail('correspondence', f'C13:{ps}:{tag}:nbin-model', f'{tag}.n_bin_attrs = {gn}, model {model["nbin"]}')
    return None


def _judge_history(c, io, rep):
    phases = _phases(c)
    for k, pc in enumerate(phases):
        v = _judge(pc, io['phases'][k], [rep[k]])
        if not v['ok']:
            if k == 0:
                return v
            # the same call is right on a freshly built structure (phase 0 style cases cover that); here the
            # object has a past: earlier queries and/or `ps.data = <column>`; the spec is evaluated on the
            # CURRENT column only (the model is a pure function of it)
            past = ' -> '.join(('data=' if ph.get('assign', True) else 'same object, ') + json.dumps(ph['col'])
                               for ph in phases[:k + 1])
            return dict(v, sig=v.get('sig', 'C13') + ':after-history',
                        detail=(f'phase {k} of a history on ONE object ({past}; full observation after each step): '
                                + v['detail'])[:900])
    return dict(ok=True)


def judge(c, io, rep):
    if 'history' in c:
        v = _judge_history(c, io, rep)
        if not v['ok']:
            io.clear()
            io['pruned'] = 'see verdict.detail; replay the case for the full output'
            rep[:] = [{'pruned': True}]
        return v
    c = _expand(c)
    v = _judge(c, io, rep)
    if not v['ok'] and len(c['descs']) * len(c['bases']) + len(c['objs']) > 40:
        # keep failure records small (they travel through the worker pool's result pipe); the verdict's detail names
        # the failing call and both values, and a replay re-evaluates the (shrunk) case in full
        io.clear()
        io['pruned'] = 'see verdict.detail; replay the case for the full output'
        rep[:] = [{'pruned': True}]
    return v


def _judge(c, io, rep):
    r = rep[0]
    ps = c['ps']
    n = len(c['col'])
    in_scope = n >= 1
    if ps == 'iv':
        if isinstance(r['data'], dict):        # constructor rejected in the model (TypeError)
            for e in ('py', 'np'):
                if io[e].get('data') != r['data']:
                    return _fail('correspondence', f'C13:iv:{e}:ctor', f'{e}: constructor gave {io[e].get("data")}, model {r["data"]}')
            return dict(ok=True)
        mpy = dict(r['py'], data=r['data'])
        mnp = mpy if r['np'] == '=' else dict(r['np'], data=r['data'])
        spec = r['spec']
        # self-consistency of the Lean side (what the theorems assert)
        for i in range(len(c['descs'])):
            for k in range(len(c['bases'])):
                sp = spec['ext'][i][k]
                if sp is not None and (mpy['ext'][i][k] != sp or (in_scope and mnp['ext'][i][k] != sp)):
                    return _fail('harness', 'C13:harness', f'model ext != spec on desc {c["descs"][i]} base {c["bases"][k]}: '
                                 f'py {mpy["ext"][i][k]} np {mnp["ext"][i][k]} spec {sp}')
        if in_scope and (r['np'] != '=' or not spec['bin_sem']):
            return _fail('harness', 'C13:harness', 'model numpy != model python on a column with >= 1 row, or a modelled '
                         'binary attribute is not the extension of its description (contradicts a theorem)')
        for e, m in (('py', mpy), ('np', mnp)):
            o = io[e]
            if 'ext' not in o:
                return _fail('correspondence', f'C13:iv:{e}:ctor', f'{e}: constructor raised {o.get("data")} on {c["col"]}')
            gal = r['galois'][e] if in_scope else None
            v = _check_engine(c, e, o, m, spec['ext'], gal, in_scope, lambda d: _iv_name(d, c), part='calls')
            if v is not None:
                return v
        for e, m in (('py', mpy), ('np', mnp)):
            v = _check_engine(c, e, io[e], m, spec['ext'], None, in_scope, lambda d: _iv_name(d, c), part='nbin')
            if v is not None:
                return v
        # the two engines against each other (everything observable, incl. the binary-attribute view and its names):
        # the property itself says they return the same results
        if in_scope and io['py'] != io['np']:
            diff = [k for k in io['py'] if io['py'].get(k) != io['np'].get(k)]
            what = {k: dict(py=io['py'].get(k), np=io['np'].get(k)) for k in diff if k in ('bin', 'nbin')}
            return _fail('property', 'C13:iv:np-vs-py:' + '+'.join(sorted(diff)),
                         f'IntervalNumpyPS and IntervalPS differ on {diff} for column {c["col"]}: {what}')
        for e, m in (('py', mpy), ('np', mnp)):
            v = _check_engine(c, e, io[e], m, spec['ext'], None, in_scope, lambda d: _iv_name(d, c), part='bin')
            if v is not None:
                return v
        return dict(ok=True)
    model = dict(r['model'], data=r['data'])
    spec = r['spec']
    for i in range(len(c['descs'])):
        for k in range(len(c['bases'])):
            sp = spec['ext'][i][k]
            if sp is not None and model['ext'][i][k] != sp:
                return _fail('harness', 'C13:harness', f'model ext {model["ext"][i][k]} != spec {sp}')
    if not spec.get('bin_sem', True) or model['nbin'] != len(model['bin']):
        return _fail('harness', 'C13:harness', 'modelled binary attributes contradict a theorem')
    if 'ext' not in io:
        return _fail('correspondence', f'C13:{ps}:ctor', f'constructor raised {io.get("data")} on {c["col"]}')
    name_of = (lambda comb: _set_name(comb, c)) if ps == 'set' else (lambda d: 'x' if d else '')
    v = _check_engine(c, ps, io, model, spec['ext'], r['galois'], True, name_of)
    return v if v is not None else dict(ok=True)


# ------------------------------------------------------------------------------------------------ bookkeeping

def _distinct_vals(c):
    return len({json.dumps(v) for v in c['col']})


def nontrivial(c):
    if 'history' in c:
        cols = {json.dumps(ph['col']) for ph in c['history']}
        return len(cols) >= 2 and any(nontrivial(pc) for pc in _phases(c))
    c = _expand(c)
    n = len(c['col'])
    if _distinct_vals(c) < 2:
        return False
    return any(b is not None and b != list(range(len(b))) for b in c['bases']) and n >= 2


def key(c):
    return {k: v for k, v in c.items() if k != 'stream'}


def branch(c, io, rep):
    if 'history' in c:
        return [c['stream'], f"{c['ps']}:history:phases={len(c['history'])}",
                f"{c['ps']}:history:assignments={sum(1 for ph in c['history'][1:] if ph.get('assign', True))}"]
    c = _expand(c)
    ks = [c['stream'], f"{c['ps']}:n={len(c['col'])}"]
    if c['ps'] == 'iv' and rep and isinstance(rep[0].get('data'), list):
        if any(v[0] != v[1] for v in rep[0]['data']):
            ks.append('iv:has-proper-interval')
        if c.get('scale', 1) != 1:
            ks.append('iv:scaled-dyadic')
    if any(b is not None and b != sorted(b) for b in c['bases']):
        ks.append('unsorted-base')
    return ks


def signature(c, io, rep, v):
    return v.get('sig') or f"C13:{c['ps']}:{v.get('kind')}"


def _drop_row(c, i):
    def remap(xs):
        return None if xs is None else [x - (x > i) for x in xs if x != i]
    d = dict(c)
    d['col'] = c['col'][:i] + c['col'][i + 1:]
    d['bases'] = [remap(b) for b in c['bases']]
    d['objs'] = [remap(a) for a in c['objs']]
    return d


def _shrink_history(c):
    hist = [dict(ph) for ph in c['history']]
    # fewer phases (dropping phase 0 makes the next column the one the object is built from)
    if len(hist) > 1:
        for i in range(len(hist)):
            h = hist[:i] + hist[i + 1:]
            h[0] = dict(h[0], assign=True)
            yield dict(c, history=h)
    if len(hist) == 1:
        yield {k: v for k, v in dict(c, **hist[0]).items() if k not in ('history', 'assign')}
        return
    # fewer calls inside a phase
    n = len(hist[0]['col'])
    for i, ph in enumerate(hist):
        pe = _expand(dict({k: v for k, v in c.items() if k != 'history'}, **ph))
        for k in ('descs', 'bases', 'objs'):
            xs = pe[k]
            if len(xs) > 1:
                h = len(xs) // 2
                for part in (xs[:h], xs[h:]):
                    yield dict(c, history=hist[:i] + [dict(ph, **{k: part})] + hist[i + 1:])
            elif len(xs) == 1 and i < len(hist) - 1:
                yield dict(c, history=hist[:i] + [dict(ph, **{k: []})] + hist[i + 1:])
        if ph.get('bin'):
            yield dict(c, history=hist[:i] + [dict(ph, bin=False)] + hist[i + 1:])
    # one row less in every column
    if n > 1:
        for r in range(n):
            h = []
            for ph in hist:
                pe = _expand(dict({k: v for k, v in c.items() if k != 'history'}, **ph))
                d = _drop_row(pe, r)
                h.append(dict(ph, col=d['col'], descs=pe['descs'], bases=d['bases'], objs=d['objs']))
            yield dict(c, history=h)


def shrink(c):
    if 'history' in c:
        yield from _shrink_history(c)
        return
    c = _expand(c)
    for k in ('descs', 'bases', 'objs'):
        xs = c[k]
        if len(xs) > 1:
            h = len(xs) // 2
            yield dict(c, **{k: xs[:h]})
            yield dict(c, **{k: xs[h:]})
    if c.get('bin'):
        yield dict(c, bin=False)
    if c['objs'] and (c['descs'] or c['bases']):
        yield dict(c, descs=[], bases=[])
    if c['objs'] and c['descs'] and c['bases']:
        yield dict(c, objs=[])
    n = len(c['col'])
    if n > 1:
        for i in range(n):
            yield _drop_row(c, i)
    for k in ('bases', 'objs'):
        if len(c[k]) == 1 and c[k][0]:
            xs = c[k][0]
            for i in range(len(xs)):
                yield dict(c, **{k: [xs[:i] + xs[i + 1:]]})
    if c['ps'] == 'iv':
        for i, v in enumerate(c['col']):
            col = list(c['col'])
            if isinstance(v, list) and v:
                col[i] = v[0]
                yield dict(c, col=col)
            elif isinstance(v, int) and v != 0:
                col[i] = v - 1 if v > 0 else v + 1
                yield dict(c, col=col)
        if c.get('scale', 1) != 1 and c['scale'] % 2 == 0:
            ok = all(x % 2 == 0 for v in c['col'] for x in (v if isinstance(v, list) else [v])) and \
                all(x % 2 == 0 for d in c['descs'] if d is not None for x in (d if isinstance(d, list) else [d]))
            if ok:
                h = lambda v: [x // 2 for x in v] if isinstance(v, list) else (None if v is None else v // 2)
                yield dict(c, scale=c['scale'] // 2, col=[h(v) for v in c['col']], descs=[h(d) for d in c['descs']])
    elif c['ps'] == 'set':
        for i, v in enumerate(c['col']):
            for j in range(len(v)):
                col = [list(x) for x in c['col']]
                col[i] = v[:j] + v[j + 1:]
                yield dict(c, col=col)
    else:
        for i, v in enumerate(c['col']):
            if v:
                col = list(c['col'])
                col[i] = 0
                yield dict(c, col=col)

"""C04 — the reduced-labelled line diagram is a lossless representation of the context."""
import glob
import json
import os
import random

import gen as G
from implutil import ints, make_context, exc_name

RULE = ('case = (boolean table with named objects/attributes, algorithm in {default=Lindig, CbO}); the REAL lattice\'s '
        'get_concept_new_extent_i/_intent_i, the name versions, ancestors(i) of every concept and the default diagram label '
        'of every node are collected; the Lean checker holdsC04 rebuilds the table from those labels and ancestor sets and '
        'compares it with the original; exhaustive over all tables of the tier scope x 2 algorithms, then seeded '
        'random/structured tables (duplicate rows/columns included) up to 7x7, tall tables with 11-14 objects (two-digit '
        'object indexes in the sort key of the re-sorted Lindig lattice), and HISTORIES: the lattice is built from [top, bottom] '
        'by add() in a seeded order, or from_context followed by remove()/del and add() of inner concepts, with label calls '
        '(index/name getters, the diagram label function) in between; the labels of the final complete lattice are judged; '
        'non-trivial = table neither all-true nor all-false; distinct = distinct (table, algorithm, history)')
EXHAUSTIVE = {'quick': 'all tables n,m<=3 (682) x {Lindig, CbO}, every concept',
              'thorough': 'all tables with n*m<=12, n,m<=4 (9418) x {Lindig, CbO}, every concept'}
EXPLANATION = ('the Lean checker Spec.holdsC04 judges the implementation\'s own labels (index and name versions) and ancestor sets: '
               'every object/attribute labels exactly one node and table[g][a] <-> node(g) <= node(a) (Fca.C04.holdsC04_iff proves the '
               'checker true exactly in that case; model_holdsC04 that it accepts the model); the labels are pinned '
               'uniquely, so they are also compared with the model (Fca.C04.* prove the model\'s labels have these properties '
               'for every concept list enumerating allConcepts t)')
ASSUMPTIONS = ['the concept list is a duplicate-free enumeration of all concepts of the table (C02; re-checked on every case)',
               'object/attribute names pairwise distinct and free of ", " (label parsing)']
TRUSTED = ['Python set comprehension/difference; str.join and sorted() in the label function']
CHUNK = 100
REQUESTS_NEED_IMPL = True
IMPL_TIME_LIMIT_S = float(os.environ.get('VERIF_IMPL_LIMIT_S', '15'))  # per case; a normal case takes milliseconds (get_chains has unbounded loops)
_LIMIT = [IMPL_TIME_LIMIT_S]  # lowered to 3 s in a process once a case has hit the limit

ALGOS = (None, 'CbO')
OBJ = ['g%d' % i for i in range(16)]
ATT = ['m%d' % i for i in range(16)]
HERE = os.path.dirname(os.path.abspath(__file__))
CORPUS = os.path.join(os.path.dirname(os.path.dirname(HERE)), 'corpus', 'C04')


def _corpus():
    for p in sorted(glob.glob(os.path.join(CORPUS, '*.json'))):
        try:
            c = json.load(open(p))
            c['stream'] = 'corpus'
            yield c
        except Exception:
            continue


def _tall_table(rng):
    """11-14 objects; two attribute extents of equal size that differ first in a one-digit vs. a two-digit index."""
    n, m = rng.randint(11, 14), rng.randint(2, 4)
    x, y = rng.randint(2, 9), rng.randint(10, n - 1)
    common = [g for g in (0, 1) if rng.random() < 0.5]
    rows = [[int(rng.random() < 0.3) for _ in range(m)] for _ in range(n)]
    for g in range(n):
        rows[g][0] = int(g in common or g == x)
        rows[g][1] = int(g in common or g == y)
    return rows


def gen(tier, seed, boost=False):
    rng = random.Random(seed * 1000003 + 404)
    yield from _corpus()
    for rows in G.tables_upto(3, 3):
        for algo in ALGOS:
            yield dict(stream='exhaustive', rows=rows, algo=algo)
    if tier == 'thorough' or boost:
        for rows in G.tables_upto(4, 4, cells=12):
            if len(rows) <= 3 and len(rows[0]) <= 3:
                continue
            for algo in ALGOS:
                yield dict(stream='exhaustive-large', rows=rows, algo=algo)
    nrand = 400 if tier == 'quick' else 6000
    if boost:
        nrand *= 3
    for _ in range(nrand):
        rows = G.random_table(rng, 7, 7)
        for algo in ALGOS:
            yield dict(stream='random', rows=rows, algo=algo)
    # tall tables (11-14 objects): sort_concepts breaks ties by the comma-joined decimal STRING of the extent, which
    # differs from numeric order only once an object index has two digits ("10,11" < "2,5"); the Lindig result is
    # re-sorted and all caches re-indexed, so the labels depend on both orders agreeing
    for _ in range((80 if tier == 'quick' else 800) * (3 if boost else 1)):
        rows = _tall_table(rng) if rng.random() < 0.6 else G.random_table(rng, 14, 4, nmin=11)
        for algo in ALGOS:
            yield dict(stream='random-tall', rows=rows, algo=algo)
    # histories: the labels are looked at, the lattice is changed by add/remove/del, and the history ends in the
    # complete concept lattice of the table, whose labels are then judged (state left over from earlier label calls)
    hrng = random.Random(seed * 1000003 + 405)
    for rows in G.tables_upto(3, 3):
        for how in ('build', 'readd'):
            yield dict(stream='history', rows=rows, algo=None if how == 'build' else hrng.choice(ALGOS),
                       hist=[how, hrng.randrange(1 << 30)])
    if tier == 'thorough' or boost:
        for rows in G.tables_upto(4, 4, cells=12):
            if len(rows) <= 3 and len(rows[0]) <= 3:
                continue
            yield dict(stream='history-large', rows=rows, algo=hrng.choice(ALGOS),
                       hist=[hrng.choice(('build', 'readd')), hrng.randrange(1 << 30)])
    for _ in range((150 if tier == 'quick' else 3000) * (3 if boost else 1)):
        rows = G.random_table(hrng, 7, 7)
        for how in ('build', 'readd'):
            yield dict(stream='history-random', rows=rows, algo=hrng.choice(ALGOS), hist=[how, hrng.randrange(1 << 30)])


def _parse_label(label):
    """'<k>: a, b\\n\\n<k>: g0' -> (['a','b'], ['g0'], counts_ok)"""
    parts = label.split('\n\n')
    if len(parts) != 2:
        return None
    out, ok = [], True
    for p in parts:
        if p == '':
            out.append([])
            continue
        if ': ' not in p:
            return None
        k, rest = p.split(': ', 1)
        items = rest.split(', ')
        ok = ok and k == str(len(items)) and items == sorted(items)
        out.append(items)
    return out[0], out[1], ok



class NonTermination(Exception):
    """the implementation did not answer within the per-case time limit (a loop that does not terminate)"""


def _guarded(seconds, f):
    import signal

    def on_alarm(signum, frame):
        raise NonTermination(f'no answer within {seconds}s')
    old = signal.signal(signal.SIGALRM, on_alarm)
    signal.setitimer(signal.ITIMER_REAL, seconds)
    try:
        return f()
    finally:
        signal.setitimer(signal.ITIMER_REAL, 0)
        signal.signal(signal.SIGALRM, old)


def impl(c):
    import fcapy.lattice, fcapy.algorithms.concept_construction, fcapy.visualizer.line_visualizers  # noqa: imports are not timed
    try:
        return _guarded(_LIMIT[0], lambda: _impl(c))
    except NonTermination as e:
        _LIMIT[0] = 3.0
        return {'err': 'NonTermination', 'msg': str(e)}


def _look(L, r, LineVizNx, steps):
    """some label call(s), as a user redrawing / inspecting the diagram would make"""
    kind = r.choice(('draw', 'draw', 'ext_i', 'int_i', 'ext', 'int', 'one-label'))
    steps.append('look:' + kind)
    if kind == 'draw':
        for i in range(len(L)):
            LineVizNx.concept_lattice_label_func(i, L)
    elif kind == 'one-label':
        LineVizNx.concept_lattice_label_func(r.randrange(len(L)), L)
    else:
        f = {'ext_i': L.get_concept_new_extent_i, 'int_i': L.get_concept_new_intent_i,
             'ext': L.get_concept_new_extent, 'int': L.get_concept_new_intent}[kind]
        for i in (range(len(L)) if r.random() < 0.5 else [r.randrange(len(L))]):
            f(i)


def _history(L0, hist, LineVizNx):
    """build the same complete lattice through a history of add/remove/del with label calls in between"""
    from fcapy.lattice import ConceptLattice
    how, seed = hist
    r = random.Random(seed)
    steps = []
    cs = list(L0)
    if how == 'build':
        inner = cs[1:-1]
        r.shuffle(inner)
        L = ConceptLattice([cs[0], cs[-1]])
        _look(L, r, LineVizNx, steps)
        for k, x in enumerate(inner):
            L.add(x)
            steps.append('add')
            if k + 1 < len(inner) and r.random() < 0.6:
                _look(L, r, LineVizNx, steps)
    else:
        L = L0
        _look(L, r, LineVizNx, steps)
        for _ in range(r.randint(1, 2)):
            inner_i = [i for i in range(len(L)) if i not in (L.top, L.bottom)]
            if not inner_i:
                break
            i = r.choice(inner_i)
            x = L[i]
            if r.random() < 0.5:
                del L[i]
                steps.append('del')
            else:
                L.remove(x)
                steps.append('remove')
            if r.random() < 0.5:
                _look(L, r, LineVizNx, steps)
            L.add(x)
            steps.append('add')
            if r.random() < 0.3:
                _look(L, r, LineVizNx, steps)
    return L, steps


def _impl(c):
    from fcapy.lattice import ConceptLattice
    from fcapy.visualizer.line_visualizers import LineVizNx
    rows = c['rows']
    n, m = len(rows), len(rows[0])
    K = make_context(rows, 'BinTableBitarray', OBJ[:n], ATT[:m])
    try:
        L = ConceptLattice.from_context(K, algo=c['algo'])
        hist = c.get('hist')
        steps = []
        if hist and len(L) >= 3:
            L, steps = _history(L, hist, LineVizNx)
        rng_ = range(len(L))
        out = dict(
            cs=[[ints(x.extent_i), ints(x.intent_i)] for x in L],
            names_ok=all([OBJ[g] for g in x.extent_i] == list(x.extent) and [ATT[a] for a in x.intent_i] == list(x.intent)
                         for x in L),
            newExtI=[sorted(ints(L.get_concept_new_extent_i(i))) for i in rng_],
            newIntI=[sorted(ints(L.get_concept_new_intent_i(i))) for i in rng_],
            newExt=[sorted(str(g) for g in L.get_concept_new_extent(i)) for i in rng_],
            newInt=[sorted(str(a) for a in L.get_concept_new_intent(i)) for i in rng_],
            anc=[sorted(ints(L.ancestors(i))) for i in rng_],
            labels=[LineVizNx.concept_lattice_label_func(i, L, True, 1000, True, 1000) for i in rng_],
            steps=steps,
        )
        return out
    except Exception as e:
        return {'err': exc_name(e), 'msg': str(e)[:200]}


def requests(c, io):
    if 'err' in io:
        return []
    rows = c['rows']
    n, m = len(rows), len(rows[0])
    return [dict(op='C04.labels', rows=rows, w=m, objs=OBJ[:n], attrs=ATT[:m], cs=io['cs'],
                 newExtI=io['newExtI'], newIntI=io['newIntI'], newExt=io['newExt'], newInt=io['newInt'], anc=io['anc'])]


def judge(c, io, rep):
    if 'err' in io:
        return dict(ok=False, kind='property', what='raise', detail=f'raised {io["err"]}: {io.get("msg")}')
    r = rep[0]
    P = lambda what, detail: dict(ok=False, kind='property', what=what, detail=detail)
    if not r['hyp']:
        return P('concepts', f'the constructed lattice does not list every concept of the table exactly once: {io["cs"]}')
    if not r['modelHolds']:
        return dict(ok=False, kind='harness', detail='holdsC04 rejects the MODEL\'s labels (contradicts the theorems)')
    if not r['holdsI']:
        return P('index-labels', f'table not reconstructed from new_extent_i {io["newExtI"]} / new_intent_i {io["newIntI"]} / '
                                 f'ancestors {io["anc"]}; concepts {io["cs"]}')
    if not r['holdsN']:
        return P('name-labels', f'table not reconstructed from the name labels {io["newExt"]} / {io["newInt"]}')
    if not io['names_ok']:
        return P('names', 'a concept\'s extent/intent names are not the names of its indexes')
    # the diagram labels show exactly the reduced labels
    for i, lab in enumerate(io['labels']):
        p = _parse_label(lab)
        if p is None or not p[2] or p[0] != io['newInt'][i] or p[1] != io['newExt'][i]:
            return P('diagram-label', f'node {i} label {lab!r} does not show new intent {io["newInt"][i]} / new extent {io["newExt"][i]}')
    # labels are pinned uniquely: also compare with the model
    for f in ('newExtI', 'newIntI', 'newExt', 'newInt', 'anc'):
        if io[f] != r[f]:
            return P('labels-differ', f'{f}: implementation {io[f]} != proved value {r[f]}')
    return dict(ok=True)


def nontrivial(c):
    return G.is_mixed(c['rows'])


def key(c):
    return [c['rows'], c['algo'], c.get('hist')]


def _dups(rows):
    cols = list(zip(*rows))
    return len(set(map(tuple, rows))) < len(rows), len(set(cols)) < len(cols)


def branch(c, io, rep):
    algo = c['algo'] or 'Lindig'
    if 'err' in io:
        return [c['stream'], f'{algo}:err']
    dr, dc = _dups(c['rows'])
    out = [c['stream'], algo]
    if c.get('hist'):
        out.append('history:' + c['hist'][0] + (':with-look-between' if any(a.startswith('look') and 0 < k < len(io.get('steps', [])) - 1 for k, a in enumerate(io.get('steps', []))) else ''))
        out.append('history-steps=%d' % min(len(io.get('steps', [])), 8))
    if len(c['rows']) >= 11:
        out.append('two-digit-object-indexes')
    if dr:
        out.append('duplicate-rows(shared node)')
    if dc:
        out.append('duplicate-cols(shared node)')
    if any(len(x) > 1 for x in io['newExtI']):
        out.append('node-with-several-objects')
    if any(len(x) > 1 for x in io['newIntI']):
        out.append('node-with-several-attrs')
    if any(len(x) > 0 and len(y) > 0 for x, y in zip(io['newExtI'], io['newIntI'])):
        out.append('node-with-object-and-attr')
    return out


def signature(c, io, rep, v):
    return f"C04:{c['algo'] or 'Lindig'}:{'history:' if c.get('hist') else ''}{v.get('kind')}:{v.get('what', '?')}"


def shrink(c):
    yield from G.shrink_table_case(c)

"""C04 — the reduced-labelled line diagram is a lossless representation of the context."""
import glob
import json
import os
import random

import gen as G
from implutil import ints, make_context, exc_name

RULE = ('case = (boolean table with named objects/attributes, algorithm in {default=Lindig, CbO}[, start, program]); the REAL '
        'lattice\'s get_concept_new_extent_i/_intent_i, the name versions, ancestors(i) of every concept, children_dict, '
        'parents_dict and the default diagram label of every node are collected (every getter is asked twice, the sets '
        'returned first are mutated by the caller in between); the Lean checker holdsC04 rebuilds the table from those labels '
        'and (a) the ancestor sets, (b) reachability along the drawn children_dict edges, (c) along parents_dict, and compares it '
        'with the original; static streams: exhaustive over all tables of the tier scope x 2 algorithms, seeded random/structured '
        'tables up to 7x7, tall (11-14 objects) and wide (13-15 and 65-70 attributes) tables, duplicated object/attribute '
        'names, empty/full rows/columns; HISTORIES on one lattice: start in {from_context Lindig/CbO, ConceptLattice(shuffled '
        'concept list), [top,bottom], write_json->read_json} then a PROGRAM of look (label getters / dicts / diagram labels), '
        'remove, del, add(fill_up_cache True/False) of the very concept object or of an equal concept built by the caller '
        '(from_objects(is_extent=True) on permuted names/indexes or a one-shot iterator, from_dict with unsorted Inds, the '
        'constructor, from_objects of a generating subset), re-adding removed concepts and adding concepts that are already present, optional '
        'snapshots in between; every snapshot whose concept set is the complete one is judged by the property, a pruned one only '
        'against the model; exhaustive histories: all tables n,m<=3 x 2 algorithms x looked-before or not x every inner concept '
        'removed and re-added x fill_up_cache x every concept of support>=2 added again with a permuted extent; '
        'non-trivial = table neither all-true nor all-false; distinct = distinct (table, names, algorithm, start, program)')
EXHAUSTIVE = {'quick': 'all tables n,m<=3 (682) x {Lindig, CbO}, every concept; histories: the same tables x {Lindig, CbO} x '
                       '{labels looked at before, not} x (every inner concept removed and re-added x fill_up_cache in {True, False}; '
                       'every concept of support >= 2 added again with a permuted extent)',
              'thorough': 'all tables with n*m<=12, n,m<=4 (9418) x {Lindig, CbO}, every concept; histories as in quick, and on '
                          'the larger tables the same (every inner concept re-added x fill_up_cache, every concept of support >= 2 '
                          'added again permuted) for one seeded choice of (algorithm, looked-before) per table'}
EXPLANATION = ('the Lean checker Spec.holdsC04 judges the implementation\'s own labels (index and name versions) and ancestor sets: '
               'every object/attribute labels exactly one node and table[g][a] <-> node(g) <= node(a) (Fca.C04.holdsC04_iff proves the '
               'checker true exactly in that case; model_holdsC04 that it accepts the model); the same checker is applied with '
               '"<=" read off the drawn edges (reachability along children_dict / parents_dict, Spec.holdsC04Edges); the labels are '
               'pinned uniquely, so they are also compared with the model (Fca.C04.* prove the model\'s labels have these '
               'properties for every concept list enumerating allConcepts t); after a history the expected concept set is '
               'tracked by the harness and the state is judged like a freshly built lattice with that content')
ASSUMPTIONS = ['the concept list is a duplicate-free enumeration of all concepts of the table (C02; re-checked on every case, '
               'by Spec.isConceptList for width <= 12 and by the subset-free Spec.isConceptListFast beyond; both are computed '
               'and compared whenever width <= 12)',
               'object/attribute names free of ", " (label parsing); name labels are judged by the property only when the names '
               'are pairwise distinct (with duplicated names the index labels are judged and the name labels are compared with the model)',
               'a pruned lattice (some concepts removed) is not covered by the property: such states are only compared with '
               'the model (kind correspondence)']
TRUSTED = ['Python set comprehension/difference; str.join and sorted() in the label function',
           'Spec.reachAll (reachability along the drawn edges) and Spec.isConceptListFast are executable checkers without a '
           'theorem of their own; isConceptListFast is cross-checked against Spec.isConceptList on every case of width <= 12']
CHUNK = 100
REQUESTS_NEED_IMPL = True
IMPL_TIME_LIMIT_S = float(os.environ.get('VERIF_IMPL_LIMIT_S', '15'))  # per case; a normal case takes milliseconds (get_chains has unbounded loops)
_LIMIT = [IMPL_TIME_LIMIT_S]  # lowered to 3 s in a process once a case has hit the limit

ALGOS = (None, 'CbO')
OBJ = ['g%d' % i for i in range(80)]
ATT = ['m%d' % i for i in range(80)]
HERE = os.path.dirname(os.path.abspath(__file__))
CORPUS = os.path.join(os.path.dirname(os.path.dirname(HERE)), 'corpus', 'C04')
MAXC = 40          # histories are run on lattices with at most this many concepts
LOOKS = ('draw', 'draw', 'ext_i', 'int_i', 'ext', 'int', 'one-label', 'dicts', 'ch', 'pa')
HOWS = ('same', 'names', 'names', 'idx', 'dict', 'ctor', 'closure', 'iter')
STARTS = ('ctx', 'ctx', 'ctx', 'list', 'tb', 'json')


def _corpus():
    for p in sorted(glob.glob(os.path.join(CORPUS, '*.json'))):
        try:
            c = json.load(open(p))
            c['stream'] = 'corpus'
            yield c
        except Exception:
            continue


# ---------------------------------------------------------------------------------------------------------------
# pure-Python FCA helpers of the generator and of the history bookkeeping (no fcapy involved)
# ---------------------------------------------------------------------------------------------------------------
def _extents(rows):
    """all concept extents of the table: the intersections of attribute extents (and the full object set)"""
    n, m = len(rows), len(rows[0])
    exts = {frozenset(range(n))}
    for a in range(m):
        col = frozenset(g for g in range(n) if rows[g][a])
        exts |= {e & col for e in exts}
    return exts


def _intent(rows, ext):
    return [a for a in range(len(rows[0])) if all(rows[g][a] for g in ext)]


def _closure(rows, objs_):
    it = _intent(rows, objs_)
    return frozenset(g for g in range(len(rows)) if all(rows[g][a] for a in it))


def _names(c):
    rows = c['rows']
    n, m = len(rows), len(rows[0])
    objs = c.get('objs') or OBJ[:n]
    attrs = c.get('attrs') or ATT[:m]
    if len(objs) != n:
        objs = OBJ[:n]
    if len(attrs) != m:
        attrs = ATT[:m]
    return list(objs), list(attrs)


# ---------------------------------------------------------------------------------------------------------------
# tables
# ---------------------------------------------------------------------------------------------------------------
def _tall_table(rng):
    """11-14 objects; two attribute extents of equal size that differ first in a one-digit vs. a two-digit index."""
    n, m = rng.randint(11, 14), rng.randint(2, 4)
    x, y = rng.randint(2, 9), rng.randint(10, n - 1)
    common = [g for g in (0, 1) if rng.random() < 0.5]
    rows = [[int(rng.random() < 0.3) for _ in range(m)] for _ in range(n)]
    for g in range(n):
        rows[g][0] = int(g in common or g == x)
        rows[g][1] = int(g in common or g == y)
    return rows


def _transpose(rows):
    return [list(r) for r in zip(*rows)]


def _extremes(rng, rows):
    """inject shape extremes: empty / full rows and columns, duplicated rows and columns"""
    rows = [list(r) for r in rows]
    n, m = len(rows), len(rows[0])
    for _ in range(rng.choice((1, 1, 2, 3))):
        k = rng.choice(('erow', 'frow', 'ecol', 'fcol', 'drow', 'dcol'))
        if k == 'erow':
            rows[rng.randrange(n)] = [0] * m
        elif k == 'frow':
            rows[rng.randrange(n)] = [1] * m
        elif k in ('ecol', 'fcol'):
            a = rng.randrange(m)
            for r in rows:
                r[a] = int(k == 'fcol')
        elif k == 'drow' and n > 1:
            rows[rng.randrange(n)] = list(rows[rng.randrange(n)])
        elif k == 'dcol' and m > 1:
            a, b = rng.randrange(m), rng.randrange(m)
            for r in rows:
                r[a] = r[b]
    return rows


def _big_table(rng, wide):
    """>= 13 objects (or attributes when ``wide``) and few concepts: a small core, its rows repeated / varied"""
    k, small = rng.randint(13, 15), rng.randint(2, 4)
    core = G.random_table(rng, 4, small, nmin=2, mmin=small)
    rows = [list(rng.choice(core)) for _ in range(k)]
    for _ in range(rng.randint(0, 3)):
        rows[rng.randrange(k)][rng.randrange(small)] ^= 1
    if rng.random() < 0.4:
        rows = _extremes(rng, rows)
    return _transpose(rows) if wide else rows


def _huge_wide(rng):
    """65-70 attributes (more than one 64-bit word of a packed row), 2-3 objects"""
    m, n = rng.randint(65, 70), rng.randint(2, 3)
    pat = [[int(rng.random() < 0.5) for _ in range(n)] for _ in range(rng.randint(2, 4))]
    cols = [list(rng.choice(pat)) for _ in range(m)]
    cols[rng.choice((0, 63, 64, m - 1)) % m] = [1] * n
    cols[rng.choice((1, 62, 65, m - 2)) % m] = [0] * n
    return _transpose(cols)


def _dup_names(rng, names):
    """a name list with repetitions (FormalContext accepts it)"""
    names = list(names)
    if len(names) < 2:
        return names
    for _ in range(rng.randint(1, max(1, len(names) // 2))):
        names[rng.randrange(len(names))] = names[rng.randrange(len(names))]
    if len(set(names)) == len(names):
        names[-1] = names[0]
    return names


def _history_table(rng, kind=None):
    """a table whose lattice has 3..MAXC concepts, from the mix of shapes"""
    for _ in range(50):
        k = kind or rng.choice(('small', 'small', 'small', 'small', 'extreme', 'extreme', 'tall', 'wide', 'tall13', 'wide13'))
        if k == 'small':
            rows = G.random_table(rng, 7, 7)
        elif k == 'extreme':
            rows = _extremes(rng, G.random_table(rng, 7, 7, nmin=2, mmin=2))
        elif k == 'tall':
            rows = _tall_table(rng) if rng.random() < 0.5 else G.random_table(rng, 14, 4, nmin=11)
        elif k == 'wide':
            rows = _transpose(G.random_table(rng, 14, 4, nmin=11))
        else:
            rows = _big_table(rng, k == 'wide13')
        if 3 <= len(_extents(rows)) <= MAXC:
            return rows
    return [[1, 0], [0, 1]]


# ---------------------------------------------------------------------------------------------------------------
# programs
# ---------------------------------------------------------------------------------------------------------------
def _listing(rng, ext):
    """the extent as a caller might list it: ascending, descending, rotated or shuffled"""
    e = sorted(ext)
    k = rng.random()
    if len(e) < 2 or k < 0.2:
        return e
    if k < 0.5:
        return e[::-1]
    if k < 0.7:
        return e[1:] + e[:1]
    p = list(e)
    rng.shuffle(p)
    return p if p != e else e[::-1]


def _generator_of(rng, rows, ext):
    """a (shuffled) subset of the extent whose closure is the extent"""
    s = sorted(ext)
    rng.shuffle(s)
    for g in list(s):
        t = [x for x in s if x != g]
        if _closure(rows, t) == frozenset(ext):
            s = t
    return s


def _add_op(rng, rows, ext, how=None, fill=None):
    how = how or rng.choice(HOWS)
    fill = rng.choice((1, 1, 0)) if fill is None else fill
    return ['add', _listing(rng, ext), how, int(fill), _generator_of(rng, rows, ext) if how == 'closure' else None]


def _look_op(rng, p=1.0):
    return [['look', rng.choice(LOOKS), rng.randrange(1 << 16)]] if rng.random() < p else []


def _program(rng, rows, start, template=None):
    exts = _extents(rows)
    top = frozenset(range(len(rows)))
    bottom = min(exts, key=len)
    inner = sorted(sorted(e) for e in exts if e not in (top, bottom))
    everything = sorted(sorted(e) for e in exts)
    big = [e for e in everything if len(e) >= 2] or everything
    present = {top, bottom} if start == 'tb' else set(exts)
    prog = []
    t = template or rng.choice(('readd', 'readd', 'dupadd', 'dupadd', 'multi', 'multi', 'free', 'free', 'prune'))
    if start == 'tb':
        t = 'build'
    rm = lambda e: [rng.choice(('rm', 'del')), sorted(e)]
    if t == 'readd' and inner:
        prog += _look_op(rng, 0.6)
        e = rng.choice(inner)
        prog.append(rm(e))
        prog += _look_op(rng, 0.4)
        prog.append(_add_op(rng, rows, e, fill=rng.choice((0, 1))))
        prog += _look_op(rng, 0.2)
    elif t == 'dupadd':
        prog += _look_op(rng, 0.5)
        for _ in range(rng.randint(1, 3)):
            e = rng.choice(big if rng.random() < 0.85 else everything)
            prog.append(_add_op(rng, rows, e, how=rng.choice(HOWS[1:]) if rng.random() < 0.9 else 'same'))
            prog += _look_op(rng, 0.2)
    elif t == 'multi' and inner:
        prog += _look_op(rng, 0.6)
        out = rng.sample(inner, rng.randint(1, min(4, len(inner))))
        for e in out:
            prog.append(rm(e))
            prog += _look_op(rng, 0.3)
        if rng.random() < 0.3:
            prog.append(['snap'])
        back = list(out)
        rng.shuffle(back)
        for e in back:
            if rng.random() < 0.3:
                prog.append(_add_op(rng, rows, rng.choice(big)))
            prog.append(_add_op(rng, rows, e))
            prog += _look_op(rng, 0.3)
    elif t == 'build':
        order = list(inner)
        rng.shuffle(order)
        prog += _look_op(rng, 0.5)
        for e in order:
            prog.append(_add_op(rng, rows, e))
            prog += _look_op(rng, 0.3)
        second = rng.sample(everything, rng.randint(0, min(4, len(everything))))
        for e in second:
            prog.append(_add_op(rng, rows, e))
    elif t == 'prune' and inner:
        prog += _look_op(rng, 0.6)
        for e in rng.sample(inner, rng.randint(1, min(3, len(inner)))):
            prog.append(rm(e))
            prog += _look_op(rng, 0.3)
    else:   # free
        for _ in range(rng.randint(3, 10)):
            k = rng.random()
            missing = sorted(sorted(e) for e in exts - present)
            here = sorted(sorted(e) for e in present if e not in (top, bottom))
            if k < 0.25 and here:
                e = rng.choice(here)
                prog.append(rm(e))
                present.discard(frozenset(e))
            elif k < 0.5 and missing:
                e = rng.choice(missing)
                prog.append(_add_op(rng, rows, e))
                present.add(frozenset(e))
            elif k < 0.7:
                e = rng.choice(sorted(sorted(x) for x in present))
                prog.append(_add_op(rng, rows, e))
            elif k < 0.95:
                prog += _look_op(rng)
            else:
                prog.append(['snap'])
        if rng.random() < 0.8:
            missing = sorted(sorted(e) for e in exts - present)
            rng.shuffle(missing)
            for e in missing:
                prog.append(_add_op(rng, rows, e))
    return prog


def _exhaustive_histories(hrng, tables, full=True):
    """every inner concept removed and re-added x fill_up_cache, every concept of support >= 2 added again with
    a permuted extent; x algorithm x labels looked at before or not (``full``; otherwise one seeded choice of
    (algorithm, looked) per table)"""
    for rows in tables:
        exts = _extents(rows)
        if len(exts) < 2:
            continue
        top, bottom = frozenset(range(len(rows))), min(exts, key=len)
        inner = sorted(sorted(e) for e in exts if e not in (top, bottom))
        for algo in (ALGOS if full else (hrng.choice(ALGOS),)):
            for looked in ((0, 1) if full else (hrng.choice((0, 1)),)):
                pre = [['look', hrng.choice(('draw', 'dicts', 'ext_i', 'int')), hrng.randrange(1 << 16)]] if looked else []
                for e in inner:
                    for fill in (1, 0):
                        yield dict(stream='history-exhaustive', rows=rows, algo=algo, start='ctx',
                                   prog=pre + [[hrng.choice(('rm', 'del')), e]] + _look_op(hrng, 0.3)
                                   + [_add_op(hrng, rows, e, fill=fill)])
                for e in sorted(sorted(x) for x in exts if len(x) >= 2):
                    yield dict(stream='history-exhaustive', rows=rows, algo=algo, start='ctx',
                               prog=pre + [_add_op(hrng, rows, e, how=hrng.choice(('names', 'idx', 'dict', 'ctor')))])
                    # the same with a listing that is certainly not ascending
                    yield dict(stream='history-exhaustive', rows=rows, algo=algo, start='ctx',
                               prog=pre + [['add', e[::-1], hrng.choice(('names', 'idx', 'dict', 'ctor')), hrng.choice((0, 1)), None]])


def gen(tier, seed, boost=False):
    rng = random.Random(seed * 1000003 + 404)
    yield from _corpus()
    for rows in G.tables_upto(3, 3):
        for algo in ALGOS:
            yield dict(stream='exhaustive', rows=rows, algo=algo)
    if tier == 'thorough' or boost:
        for rows in G.tables_upto(4, 4, cells=12):
            if len(rows) <= 3 and len(rows[0]) <= 3:
                continue
            for algo in ALGOS:
                yield dict(stream='exhaustive-large', rows=rows, algo=algo)
    nrand = 400 if tier == 'quick' else 6000
    if boost:
        nrand *= 3
    for _ in range(nrand):
        rows = G.random_table(rng, 7, 7)
        for algo in ALGOS:
            yield dict(stream='random', rows=rows, algo=algo)
    # tall tables (11-14 objects): sort_concepts breaks ties by the comma-joined decimal STRING of the extent, which
    # differs from numeric order only once an object index has two digits ("10,11" < "2,5"); the Lindig result is
    # re-sorted and all caches re-indexed, so the labels depend on both orders agreeing
    for _ in range((80 if tier == 'quick' else 800) * (3 if boost else 1)):
        rows = _tall_table(rng) if rng.random() < 0.6 else G.random_table(rng, 14, 4, nmin=11)
        for algo in ALGOS:
            yield dict(stream='random-tall', rows=rows, algo=algo)
    # shape extremes (own random source: the streams above keep their cases)
    xrng = random.Random(seed * 1000003 + 406)
    mult = (1 if tier == 'quick' else 8) * (3 if boost else 1)
    for _ in range(60 * mult):      # >= 13 attributes / objects, few concepts
        rows = _big_table(xrng, wide=xrng.random() < 0.6)
        for algo in ALGOS:
            yield dict(stream='shape-13plus', rows=rows, algo=algo)
    for _ in range(25 * mult):      # > 64 attributes, and the same transposed (> 64 objects)
        rows = _huge_wide(xrng)
        for algo in ALGOS:
            yield dict(stream='shape-65plus', rows=rows, algo=algo)
        if xrng.random() < 0.3:
            yield dict(stream='shape-65plus', rows=_transpose(rows), algo=xrng.choice(ALGOS))
    for _ in range(120 * mult):     # empty / full rows and columns, duplicated rows and columns
        rows = _extremes(xrng, G.random_table(xrng, 7, 7, nmin=2, mmin=2))
        for algo in ALGOS:
            yield dict(stream='shape-extremes', rows=rows, algo=algo)
    for _ in range(120 * mult):     # duplicated object / attribute names
        rows = G.random_table(xrng, 6, 6, nmin=2, mmin=2)
        n, m = len(rows), len(rows[0])
        k = xrng.choice(('o', 'a', 'oa'))
        objs = _dup_names(xrng, OBJ[:n]) if 'o' in k else None
        attrs = _dup_names(xrng, ATT[:m]) if 'a' in k else None
        for algo in ALGOS:
            yield dict(stream='shape-dupnames', rows=rows, algo=algo, objs=objs, attrs=attrs)
    # histories: the labels are looked at, the lattice is changed by add/remove/del, and the history ends in the
    # complete concept lattice of the table, whose labels are then judged (state left over from earlier label calls)
    hrng = random.Random(seed * 1000003 + 405)
    for rows in G.tables_upto(3, 3):
        for how in ('build', 'readd'):
            yield dict(stream='history', rows=rows, algo=None if how == 'build' else hrng.choice(ALGOS),
                       hist=[how, hrng.randrange(1 << 30)])
    if tier == 'thorough' or boost:
        for rows in G.tables_upto(4, 4, cells=12):
            if len(rows) <= 3 and len(rows[0]) <= 3:
                continue
            yield dict(stream='history-large', rows=rows, algo=hrng.choice(ALGOS),
                       hist=[hrng.choice(('build', 'readd')), hrng.randrange(1 << 30)])
    for _ in range((150 if tier == 'quick' else 3000) * (3 if boost else 1)):
        rows = G.random_table(hrng, 7, 7)
        for how in ('build', 'readd'):
            yield dict(stream='history-random', rows=rows, algo=hrng.choice(ALGOS), hist=[how, hrng.randrange(1 << 30)])
    # explicit programs (remove / del / add with fill_up_cache True and False, caller-built equal concepts, looks)
    prng = random.Random(seed * 1000003 + 407)
    yield from _exhaustive_histories(prng, G.tables_upto(3, 3))
    if tier == 'thorough' or boost:
        yield from _exhaustive_histories(prng, (r for r in G.tables_upto(4, 4, cells=12) if len(r) > 3 or len(r[0]) > 3), full=False)
    for _ in range((6000 if tier == 'quick' else 30000) * (3 if boost else 1)):
        rows = _history_table(prng)
        start = prng.choice(STARTS)
        c = dict(stream='history-program', rows=rows, algo=prng.choice(ALGOS), start=start, prog=_program(prng, rows, start))
        if start == 'list':
            c['sseed'] = prng.randrange(1 << 16)
        n, m = len(rows), len(rows[0])
        if prng.random() < 0.12:
            c['objs'] = _dup_names(prng, OBJ[:n])
        if prng.random() < 0.12:
            c['attrs'] = _dup_names(prng, ATT[:m])
        yield c


def _parse_label(label):
    """'<k>: a, b\\n\\n<k>: g0' -> (['a','b'], ['g0'], counts_ok)"""
    parts = label.split('\n\n')
    if len(parts) != 2:
        return None
    out, ok = [], True
    for p in parts:
        if p == '':
            out.append([])
            continue
        if ': ' not in p:
            return None
        k, rest = p.split(': ', 1)
        items = rest.split(', ')
        ok = ok and k == str(len(items)) and items == sorted(items)
        out.append(items)
    return out[0], out[1], ok


class NonTermination(BaseException):   # not an Exception: per-call handlers must not swallow the alarm
    """the implementation did not answer within the per-case time limit (a loop that does not terminate)"""


def _guarded(seconds, f):
    import signal

    def on_alarm(signum, frame):
        raise NonTermination(f'no answer within {seconds}s')
    old = signal.signal(signal.SIGALRM, on_alarm)
    signal.setitimer(signal.ITIMER_REAL, seconds)
    try:
        return f()
    finally:
        signal.setitimer(signal.ITIMER_REAL, 0)
        signal.signal(signal.SIGALRM, old)


def impl(c):
    import fcapy.lattice, fcapy.algorithms.concept_construction, fcapy.visualizer.line_visualizers  # noqa: imports are not timed
    try:
        return _guarded(_LIMIT[0], lambda: _impl(c))
    except NonTermination as e:
        _LIMIT[0] = 3.0
        return {'err': 'NonTermination', 'msg': str(e), 'complete': True}


def _look(L, r, LineVizNx, steps):
    """some label call(s), as a user redrawing / inspecting the diagram would make"""
    kind = r.choice(('draw', 'draw', 'ext_i', 'int_i', 'ext', 'int', 'one-label'))
    steps.append('look:' + kind)
    _do_look(L, kind, r, LineVizNx)


def _do_look(L, kind, r, LineVizNx):
    if kind == 'draw':
        for i in range(len(L)):
            LineVizNx.concept_lattice_label_func(i, L)
    elif kind == 'one-label':
        LineVizNx.concept_lattice_label_func(r.randrange(len(L)), L)
    elif kind == 'dicts':
        L.children_dict, L.parents_dict
    elif kind == 'ch':
        L.children_dict
    elif kind == 'pa':
        L.parents_dict
    else:
        f = {'ext_i': L.get_concept_new_extent_i, 'int_i': L.get_concept_new_intent_i,
             'ext': L.get_concept_new_extent, 'int': L.get_concept_new_intent}[kind]
        for i in (range(len(L)) if r.random() < 0.5 else [r.randrange(len(L))]):
            f(i)


def _history(L0, hist, LineVizNx):
    """build the same complete lattice through a history of add/remove/del with label calls in between"""
    from fcapy.lattice import ConceptLattice
    how, seed = hist
    r = random.Random(seed)
    steps = []
    cs = list(L0)
    if how == 'build':
        inner = cs[1:-1]
        r.shuffle(inner)
        L = ConceptLattice([cs[0], cs[-1]])
        _look(L, r, LineVizNx, steps)
        for k, x in enumerate(inner):
            L.add(x)
            steps.append('add')
            if k + 1 < len(inner) and r.random() < 0.6:
                _look(L, r, LineVizNx, steps)
    else:
        L = L0
        _look(L, r, LineVizNx, steps)
        for _ in range(r.randint(1, 2)):
            inner_i = [i for i in range(len(L)) if i not in (L.top, L.bottom)]
            if not inner_i:
                break
            i = r.choice(inner_i)
            x = L[i]
            if r.random() < 0.5:
                del L[i]
                steps.append('del')
            else:
                L.remove(x)
                steps.append('remove')
            if r.random() < 0.5:
                _look(L, r, LineVizNx, steps)
            L.add(x)
            steps.append('add')
            if r.random() < 0.3:
                _look(L, r, LineVizNx, steps)
    return L, steps


def _poke(s):
    """the caller changes a set it was handed (a returned label set must be the caller's own copy)"""
    try:
        if isinstance(s, (set, dict, list)):
            s.clear()
    except Exception:
        pass


def _snapshot(L, objs, attrs, LineVizNx, cur, complete):
    """everything a reader of the diagram sees, asked twice; the first answers are mutated by the caller in between"""
    rng_ = range(len(L))
    sset = lambda xs: sorted(ints(xs))
    sstr = lambda xs: sorted(str(g) for g in xs)
    getters = (('newExtI', L.get_concept_new_extent_i, sset), ('newIntI', L.get_concept_new_intent_i, sset),
               ('newExt', L.get_concept_new_extent, sstr), ('newInt', L.get_concept_new_intent, sstr))
    first, raw = {}, []
    for name, f, canon in getters:
        got = [f(i) for i in rng_]
        first[name] = [canon(x) for x in got]
        raw.extend(got)
    d1, d2 = L.children_dict, L.parents_dict
    first['ch'] = [sset(d1[i]) for i in rng_]
    first['pa'] = [sset(d2[i]) for i in rng_]
    for s in raw + list(d1.values()) + list(d2.values()) + [d1, d2]:
        _poke(s)
    out = dict(
        cs=[[sset(x.extent_i), sset(x.intent_i)] for x in L],
        unsorted=any(list(x.extent_i) != sorted(x.extent_i) for x in L),
        names_ok=all([objs[g] for g in x.extent_i] == list(x.extent) and [attrs[a] for a in x.intent_i] == list(x.intent)
                     for x in L),
        anc=[sset(L.ancestors(i)) for i in rng_],
        labels=[LineVizNx.concept_lattice_label_func(i, L, True, 1000, True, 1000) for i in rng_],
        top=int(L.top), bottom=int(L.bottom),
        exp=sorted(sorted(e) for e in cur), complete=bool(complete),
    )
    for name, f, canon in getters:
        out[name] = [canon(f(i)) for i in rng_]
    d1, d2 = L.children_dict, L.parents_dict
    out['ch'] = [sset(d1[i]) for i in rng_]
    out['pa'] = [sset(d2[i]) for i in rng_]
    out['stable'] = all(first[k] == out[k] for k in first)
    return out


def _make_concept(K, rows, objs, attrs, op, pool, dup_obj):
    """the concept with the extent listed in ``op``, as a caller would build it"""
    from fcapy.lattice.formal_concept import FormalConcept
    _, listing, how, fill, gen_ = (op + [None])[:5]
    key = frozenset(listing)
    if how == 'same' and key in pool:
        return pool[key]
    if how == 'closure' and gen_ is not None:
        return FormalConcept.from_objects(list(gen_) if dup_obj else [objs[g] for g in gen_], K)
    if how == 'iter':       # a one-shot iterable where an Iterable is accepted
        return FormalConcept.from_objects(iter(list(listing)) if dup_obj else (objs[g] for g in listing), K, is_extent=True)
    if how in ('names', 'same', 'closure') and not dup_obj:
        return FormalConcept.from_objects([objs[g] for g in listing], K, is_extent=True)
    if how in ('idx', 'names', 'same', 'closure'):
        return FormalConcept.from_objects(list(listing), K, is_extent=True)
    it = _intent(rows, listing)
    if how == 'dict':
        return FormalConcept.from_dict({'Ext': {'Inds': list(listing), 'Names': [objs[g] for g in listing], 'Count': len(listing)},
                                        'Int': {'Inds': list(it), 'Names': [attrs[a] for a in it], 'Count': len(it)},
                                        'Supp': len(listing), 'Context_Hash': K.hash_fixed(), 'Monotone': False})
    return FormalConcept(tuple(listing), tuple(objs[g] for g in listing), tuple(it), tuple(attrs[a] for a in it),
                         context_hash=K.hash_fixed())


def _run_program(c, K, L0, objs, attrs, LineVizNx):
    from fcapy.lattice import ConceptLattice
    rows = c['rows']
    all_exts = _extents(rows)
    top, bottom = frozenset(range(len(rows))), min(all_exts, key=len)
    pool = {frozenset(ints(x.extent_i)): x for x in L0}
    dup_obj = len(set(objs)) < len(objs)
    start = c.get('start') or 'ctx'
    steps, snaps = [], []
    cur = set(pool)
    L = L0
    if start == 'list':
        xs = list(L0)
        random.Random(c.get('sseed', 0)).shuffle(xs)
        L = ConceptLattice(xs)
    elif start == 'tb' and len(L0) >= 2:
        L = ConceptLattice([L0[L0.top], L0[L0.bottom]])
        cur = {top, bottom}
    elif start == 'json' and len(L0) >= 3 and not dup_obj and len(set(attrs)) == len(attrs):
        L = ConceptLattice.read_json(json_data=L0.write_json(list(objs), list(attrs)))
    else:
        start = 'ctx'
    steps.append('start:' + start)
    for op in c.get('prog') or []:
        k = op[0]
        if k == 'look':
            steps.append('look:' + op[1])
            _do_look(L, op[1], random.Random(op[2]), LineVizNx)
        elif k in ('rm', 'del'):
            e = frozenset(op[1])
            i = next((i for i, x in enumerate(L) if frozenset(ints(x.extent_i)) == e), None)
            if e not in cur or e in (top, bottom) or i is None:
                steps.append('skip')
                continue
            if k == 'del':
                del L[i]
            else:
                L.remove(L[i])
            cur.discard(e)
            steps.append(k)
        elif k == 'add':
            e = frozenset(op[1])
            if e not in all_exts or (op[2] == 'closure' and op[4] is not None and _closure(rows, op[4]) != e):
                steps.append('skip')       # not a concept of this table (can only happen in a shrunk case)
                continue
            x = _make_concept(K, rows, objs, attrs, op, pool, dup_obj)
            L.add(x, fill_up_cache=bool(op[3]))
            steps.append(('add-present:' if e in cur else 'add:') + op[2] + ('' if op[3] else ':nofill')
                         + (':unsorted' if list(x.extent_i) != sorted(x.extent_i) else ''))
            cur.add(e)
        elif k == 'snap':
            steps.append('snap')
            snaps.append(_snapshot(L, objs, attrs, LineVizNx, cur, cur == all_exts))
    snaps.append(_snapshot(L, objs, attrs, LineVizNx, cur, cur == all_exts))
    return snaps, steps


def _final_complete(c):
    """does the history of the case end in the complete concept set?  (decides how an exception is classified)"""
    if not c.get('prog'):
        return True
    rows = c['rows']
    all_exts = _extents(rows)
    top, bottom = frozenset(range(len(rows))), min(all_exts, key=len)
    cur = {top, bottom} if c.get('start') == 'tb' and len(all_exts) >= 2 else set(all_exts)
    for op in c['prog']:
        if op[0] in ('rm', 'del') and frozenset(op[1]) not in (top, bottom):
            cur.discard(frozenset(op[1]))
        elif op[0] == 'add' and frozenset(op[1]) in all_exts:
            cur.add(frozenset(op[1]))
    return cur == all_exts


def _impl(c):
    from fcapy.lattice import ConceptLattice
    from fcapy.visualizer.line_visualizers import LineVizNx
    rows = c['rows']
    objs, attrs = _names(c)
    K = make_context(rows, 'BinTableBitarray', objs, attrs)
    try:
        L = ConceptLattice.from_context(K, algo=c['algo'])
        hist = c.get('hist')
        steps = []
        if c.get('prog') is not None:
            snaps, steps = _run_program(c, K, L, objs, attrs, LineVizNx)
        else:
            if hist and len(L) >= 3:
                L, steps = _history(L, hist, LineVizNx)
            snaps = [_snapshot(L, objs, attrs, LineVizNx, _extents(rows), True)]
        return dict(snaps=snaps, steps=steps)
    except Exception as e:
        return {'err': exc_name(e), 'msg': str(e)[:200], 'complete': _final_complete(c)}


def requests(c, io):
    if 'err' in io:
        return []
    rows = c['rows']
    objs, attrs = _names(c)
    return [dict(op='C04.state', rows=rows, w=len(rows[0]), objs=objs, attrs=attrs, cs=s['cs'],
                 newExtI=s['newExtI'], newIntI=s['newIntI'], newExt=s['newExt'], newInt=s['newInt'], anc=s['anc'],
                 ch=s['ch'], pa=s['pa']) for s in io['snaps']]


def _judge_snap(c, s, r, where):
    objs, attrs = _names(c)
    dup = len(set(objs)) < len(objs) or len(set(attrs)) < len(attrs)
    complete = s['complete']
    # a pruned lattice is outside the property: every disagreement there is a correspondence failure
    P = lambda what, detail: dict(ok=False, kind='property' if complete else 'correspondence', what=what, detail=where + detail)
    C = lambda what, detail: dict(ok=False, kind='correspondence', what=what, detail=where + detail)
    if r['hypSlow'] is not None and r['hypSlow'] != r['hypFast']:
        return dict(ok=False, kind='harness', detail=f'isConceptList {r["hypSlow"]} != isConceptListFast {r["hypFast"]} on {s["cs"]}')
    if complete:
        if not r['hyp']:
            return P('concepts', f'the lattice does not list every concept of the table exactly once: {s["cs"]}')
        if not r['modelHolds'] or not r['modelEdgesHold']:
            return dict(ok=False, kind='harness', detail='holdsC04 rejects the MODEL\'s labels / edges (contradicts the theorems)')
    else:
        if sorted(x[0] for x in s['cs']) != s['exp'] or not r['sub']:
            return C('content', f'after the history the lattice should consist of the concepts with extents {s["exp"]}, it lists {s["cs"]}')
    if not s['stable']:
        return P('unstable', 'asking again after the caller changed the returned sets gives other labels / edges')
    if complete:
        if not r['holdsI']:
            return P('index-labels', f'table not reconstructed from new_extent_i {s["newExtI"]} / new_intent_i {s["newIntI"]} / '
                                     f'ancestors {s["anc"]}; concepts {s["cs"]}')
        if not dup and not r['holdsN']:
            return P('name-labels', f'table not reconstructed from the name labels {s["newExt"]} / {s["newInt"]}')
    if not s['names_ok']:
        return P('names', 'a concept\'s extent/intent names are not the names of its indexes')
    if not r['edgesAgree']:
        return P('diagram-edges', f'children_dict {s["ch"]} is not the transpose of parents_dict {s["pa"]}')
    if complete:
        if not r['holdsCh']:
            return P('diagram-children', f'table not reconstructed from the labels with "below" read off the drawn edges '
                                         f'children_dict {s["ch"]}; new_extent_i {s["newExtI"]} / new_intent_i {s["newIntI"]}; concepts {s["cs"]}')
        if not r['holdsPa']:
            return P('diagram-parents', f'table not reconstructed from the labels with "below" read off parents_dict {s["pa"]}')
    # the diagram labels show exactly the reduced labels
    for i, lab in enumerate(s['labels']):
        p = _parse_label(lab)
        if p is None or not p[2] or p[0] != s['newInt'][i] or p[1] != s['newExt'][i]:
            return P('diagram-label', f'node {i} label {lab!r} does not show new intent {s["newInt"][i]} / new extent {s["newExt"][i]}')
    # labels are pinned uniquely: also compare with the model (name labels only when the names are distinct)
    for f in ('newExtI', 'newIntI', 'anc') + (() if dup else ('newExt', 'newInt')):
        if s[f] != r[f]:
            return P('labels-differ', f'{f}: implementation {s[f]} != proved value {r[f]}')
    for f in ('ch', 'pa') + (('newExt', 'newInt') if dup else ()):
        mv = [sorted(set(x)) for x in r[f]]      # the model keeps a repeated name repeated, a Python set does not
        if s[f] != mv:
            return C('model-differs', f'{f}: implementation {s[f]} != model {mv}')
    n = len(c['rows'])
    if s['cs'][s['top']][0] != list(range(n)) or any(len(x[0]) < len(s['cs'][s['bottom']][0]) for x in s['cs']):
        return C('top-bottom', f'top={s["top"]} / bottom={s["bottom"]} are not the largest / smallest concept of {s["cs"]}')
    return dict(ok=True)


def judge(c, io, rep):
    if 'err' in io:
        return dict(ok=False, kind='property' if io.get('complete', True) else 'correspondence', what='raise',
                    detail=f'raised {io["err"]}: {io.get("msg")}')
    k = len(io['snaps'])
    for j, (s, r) in enumerate(zip(io['snaps'], rep)):
        where = '' if k == 1 else (f'[snapshot {j + 1} of {k}] ' if j + 1 < k else '[final state] ')
        v = _judge_snap(c, s, r, where)
        if not v['ok']:
            return v
    return dict(ok=True)


def nontrivial(c):
    return G.is_mixed(c['rows'])


def key(c):
    return [c['rows'], c['algo'], c.get('hist'), c.get('start'), c.get('sseed'), c.get('prog'), c.get('objs'), c.get('attrs')]


def _dups(rows):
    cols = list(zip(*rows))
    return len(set(map(tuple, rows))) < len(rows), len(set(cols)) < len(cols)


def branch(c, io, rep):
    algo = c['algo'] or 'Lindig'
    if 'err' in io:
        return [c['stream'], f'{algo}:err']
    rows = c['rows']
    n, m = len(rows), len(rows[0])
    dr, dc = _dups(rows)
    out = [c['stream'], algo]
    steps = io.get('steps', [])
    if c.get('hist'):
        out.append('history:' + c['hist'][0] + (':with-look-between' if any(a.startswith('look') and 0 < k < len(steps) - 1 for k, a in enumerate(steps)) else ''))
        out.append('history-steps=%d' % min(len(steps), 8))
    if c.get('prog') is not None:
        out.append('program:' + steps[0])
        out.append('program-steps=%d' % min(len(steps) - 1, 12))
        for a in sorted(set(a for a in steps[1:] if not a.startswith('look'))):
            out.append('op:' + a)
        looked = False
        for a in steps[1:]:
            if a.startswith('look') or a == 'snap':
                looked = True
            elif a.startswith('add') and a.endswith(':nofill') or ':nofill:' in a:
                out.append(f'{algo}:nofill-add-after-look' if looked else f'{algo}:nofill-add-unlooked')
                break
        out.append('final:complete' if io['snaps'][-1]['complete'] else 'final:pruned')
        if any(s['unsorted'] for s in io['snaps']):
            out.append('lattice-holds-concept-with-unsorted-extent')
        if len(io['snaps']) > 1:
            out.append('snapshots>1')
    s = io['snaps'][-1]
    if c.get('objs') and len(set(c['objs'])) < n:
        out.append('duplicate-object-names')
    if c.get('attrs') and len(set(c['attrs'])) < m:
        out.append('duplicate-attribute-names')
    if n >= 11:
        out.append('two-digit-object-indexes')
    if m >= 11:
        out.append('two-digit-attribute-indexes')
    if n > 64 or m > 64:
        out.append('more-than-64-objects-or-attributes')
    if any(not any(r) for r in rows):
        out.append('empty-row')
    if any(all(r) for r in rows):
        out.append('full-row')
    if any(not any(col) for col in zip(*rows)):
        out.append('empty-column')
    if any(all(col) for col in zip(*rows)):
        out.append('full-column')
    if dr:
        out.append('duplicate-rows(shared node)')
    if dc:
        out.append('duplicate-cols(shared node)')
    if any(len(x) > 1 for x in s['newExtI']):
        out.append('node-with-several-objects')
    if any(len(x) > 1 for x in s['newIntI']):
        out.append('node-with-several-attrs')
    if any(len(x) > 0 and len(y) > 0 for x, y in zip(s['newExtI'], s['newIntI'])):
        out.append('node-with-object-and-attr')
    return out


def signature(c, io, rep, v):
    h = 'history:' if (c.get('hist') or c.get('prog') is not None) else ''
    return f"C04:{c['algo'] or 'Lindig'}:{h}{v.get('kind')}:{v.get('what', '?')}"


def _remap_prog(prog, i):
    """object ``i`` is taken out of the table: the listings follow (ops whose extent is no extent of the smaller
    table are skipped by the implementation side)"""
    out = []
    for op in prog:
        op = list(op)
        if op[0] in ('rm', 'del', 'add'):
            op[1] = [g - (g > i) for g in op[1] if g != i]
            if op[0] == 'add' and len(op) > 4 and op[4] is not None:
                op[4] = [g - (g > i) for g in op[4] if g != i]
        out.append(op)
    return out


def shrink(c):
    prog = c.get('prog')
    if prog is None:
        yield from G.shrink_table_case(c)
        return
    # drop operations, then simplify them, then the start / names, then the table
    for i in range(len(prog)):
        yield dict(c, prog=prog[:i] + prog[i + 1:])
    for i, op in enumerate(prog):
        if op[0] == 'add':
            for simpler in (['add', sorted(op[1]), op[2], op[3], op[4] if len(op) > 4 else None],
                            ['add', op[1], 'names', op[3], None], ['add', op[1], 'same', op[3], None],
                            ['add', op[1], op[2], 1, op[4] if len(op) > 4 else None]):
                if simpler != list(op):
                    yield dict(c, prog=prog[:i] + [simpler] + prog[i + 1:])
        elif op[0] == 'look' and op[1] != 'draw':
            yield dict(c, prog=prog[:i] + [['look', 'draw', 0]] + prog[i + 1:])
        elif op[0] == 'del':
            yield dict(c, prog=prog[:i] + [['rm', op[1]]] + prog[i + 1:])
    if (c.get('start') or 'ctx') != 'ctx':
        yield dict(c, start='ctx')
    if c.get('objs'):
        yield dict(c, objs=None)
    if c.get('attrs'):
        yield dict(c, attrs=None)
    rows = c['rows']
    n, m = len(rows), len(rows[0])
    if n > 1:
        for i in range(n):
            d = dict(c, rows=rows[:i] + rows[i + 1:], prog=_remap_prog(prog, i))
            if c.get('objs'):
                d['objs'] = c['objs'][:i] + c['objs'][i + 1:]
            yield d
    if m > 1:
        for j in range(m):
            d = dict(c, rows=[r[:j] + r[j + 1:] for r in rows])
            if c.get('attrs'):
                d['attrs'] = c['attrs'][:j] + c['attrs'][j + 1:]
            yield d
    for i in range(n):
        for j in range(m):
            if rows[i][j]:
                d = dict(c)
                d['rows'] = [list(r) for r in rows]
                d['rows'][i][j] = 0
                yield d

"""C01 — derivation operators return exactly the prime sets of the incidence relation."""
import random

import gen as G
from implutil import BACKENDS, ints, make_context, exc_name

RULE = ('case = (table, backend, operator in {ext,int,extm,intm}, ordered duplicate-free selection, base list or None) '
        'or the by-name call; exhaustive over all tables up to the tier scope x all ordered selections x all ordered '
        'base lists x 3 backends, then seeded random larger tables; non-trivial = table neither all-true nor all-false '
        'and non-empty selection; distinct = distinct (table, backend, operator, selection, base)')
EXHAUSTIVE = {'quick': 'all tables n,m<=3 (682) x 4 operators x ordered selections x (None + ordered base lists) x 3 backends; '
                       'by-name: all tables n,m<=2',
              'thorough': 'all tables with n*m<=12, n,m<=4, sorted+reversed selections; plus the quick scope'}
EXPLANATION = ('output is pinned uniquely by the property, so implementation != Spec is a property failure; the Lean '
               'theorems Fca.C01.* prove model = Spec for all inputs')
ASSUMPTIONS = ['index arguments are duplicate-free lists of valid non-negative indexes (documented API range)',
               'object/attribute names pairwise distinct']
CHUNK = 4000

OBJ = ['g0', 'g1', 'g2', 'g3', 'g4', 'g5', 'g6', 'g7', 'g8', 'g9', 'g10', 'g11', 'g12', 'g13']
ATT = ['a', 'b', 'c', 'd', 'e', 'f', 'g', 'h', 'i', 'j', 'k', 'l', 'm', 'n']


def _index_cases(rows, stream, sels_fn, bases_fn):
    n, m = len(rows), len(rows[0])
    for be in BACKENDS:
        for kind in ('ext', 'int', 'extm', 'intm'):
            dom_sel, dom_base = (m, n) if kind in ('ext', 'extm') else (n, m)
            for sel in sels_fn(dom_sel):
                for base in bases_fn(dom_base):
                    yield dict(stream=stream, be=be, rows=rows, kind=kind, sel=sel, base=base)


def _name_cases(rows, stream, rng=None):
    n, m = len(rows), len(rows[0])
    objs, attrs = OBJ[:n], ATT[:m]
    for be in BACKENDS:
        for mono in (False, True):
            sels = G.ordered_sublists(range(m)) if rng is None else [rng.sample(range(m), rng.randint(0, m)) for _ in range(2)]
            for sel in sels:
                bases = ([None] + list(G.ordered_sublists(range(n)))) if rng is None else \
                    [None, rng.sample(range(n), rng.randint(0, n))]
                for base in bases:
                    yield dict(stream=stream, be=be, rows=rows, names=True, kind='ext', mono=mono, objs=objs, attrs=attrs,
                               sel=[attrs[j] for j in sel], base=None if base is None else [objs[i] for i in base])
            sels = G.ordered_sublists(range(n)) if rng is None else [rng.sample(range(n), rng.randint(0, n)) for _ in range(2)]
            for sel in sels:
                yield dict(stream=stream, be=be, rows=rows, names=True, kind='int', mono=mono, objs=objs, attrs=attrs,
                           sel=[objs[i] for i in sel], base=None)


def _malformed_names(rows, rng):
    n, m = len(rows), len(rows[0])
    objs, attrs = OBJ[:n], ATT[:m]
    for be in BACKENDS:
        for mono in (False, True):
            sel = [attrs[j] for j in rng.sample(range(m), rng.randint(0, m))]
            bad = list(sel)
            bad.insert(rng.randint(0, len(bad)), rng.choice(['zz', '', 'A', 'g0']))
            yield dict(stream='malformed', be=be, rows=rows, names=True, kind='ext', mono=mono, objs=objs, attrs=attrs,
                       sel=bad, base=None)
            base = [objs[i] for i in rng.sample(range(n), rng.randint(0, n))]
            base.insert(rng.randint(0, len(base)), rng.choice(['zz', '', 'a']))
            yield dict(stream='malformed', be=be, rows=rows, names=True, kind='ext', mono=mono, objs=objs, attrs=attrs,
                       sel=sel, base=base)
            so = [objs[i] for i in rng.sample(range(n), rng.randint(0, n))]
            so.insert(rng.randint(0, len(so)), rng.choice(['zz', '', 'a']))
            yield dict(stream='malformed', be=be, rows=rows, names=True, kind='int', mono=mono, objs=objs, attrs=attrs,
                       sel=so, base=None)


def gen(tier, seed, boost=False):
    rng = random.Random(seed * 1000003 + 101)
    full = lambda k: G.ordered_sublists(range(k))
    fullbase = lambda k: [None] + list(G.ordered_sublists(range(k)))
    # exhaustive small scope
    for rows in G.tables_upto(3, 3):
        yield from _index_cases(rows, 'exhaustive', full, fullbase)
    for rows in G.tables_upto(2, 2):
        yield from _name_cases(rows, 'exhaustive-names')
    # histories: by-name call, rename through the setters (permuted and fresh names), by-name call again
    rh = random.Random(seed * 7919 + 11)
    for rows in list(G.tables_upto(2, 2)) + [G.random_table(rh, 4, 4, nmin=2, mmin=2) for _ in range(40 if tier == 'quick' else 400)]:
        n, m = len(rows), len(rows[0])
        for names0 in ((OBJ[:n][::-1], ATT[:m][::-1]), (['x%d' % i for i in range(n)], ['y%d' % j for j in range(m)])):
            for c in _name_cases(rows, 'history-names', rh):
                c['names0'] = [list(names0[0]), list(names0[1])]
                yield c
    if tier == 'thorough' or boost:
        def srt(k):
            out = []
            for s in G.sorted_sublists(range(k)):
                out.append(s)
                if len(s) > 1:
                    out.append(s[::-1])
            return out
        for k_t, rows in enumerate(G.tables_upto(4, 4, cells=12)):
            if len(rows) <= 3 and len(rows[0]) <= 3:
                continue
            if tier != 'thorough' and k_t % 12:
                continue        # a boosted quick run (drifted source / failed proof) samples the larger scope
            yield from _index_cases(rows, 'exhaustive-large', srt, lambda k: [None] + srt(k))
    # seeded random larger cases
    nrand = 300 if tier == 'quick' else 6000
    if boost:
        nrand *= 3
    big = 8 if tier == 'quick' else 14
    for _ in range(nrand):
        rows = G.random_table(rng, big, big)
        n, m = len(rows), len(rows[0])
        for be in BACKENDS:
            for kind in ('ext', 'int', 'extm', 'intm'):
                ds, db = (m, n) if kind in ('ext', 'extm') else (n, m)
                for _k in range(2):
                    yield dict(stream='random', be=be, rows=rows, kind=kind, sel=G.random_sel(rng, ds),
                               base=G.random_sel(rng, db, allow_none=True))
        if _ % 5 == 0:
            yield from _name_cases(rows, 'random-names', rng)
            yield from _malformed_names(rows, rng)


def impl(c):
    if c.get('names0'):
        # history stream: the context is first used by name under other names, then renamed through the public setters
        from fcapy.context import FormalContext
        o0, a0 = c['names0']
        K = FormalContext(data=[[bool(v) for v in r] for r in c['rows']], object_names=list(o0), attribute_names=list(a0),
                          backend=c['be'])
        try:
            K.extension(list(a0[:1]))
            K.intention(list(o0[:1]))
        except Exception:
            pass
        K.object_names = list(c['objs'])
        K.attribute_names = list(c['attrs'])
    else:
        K = make_context(c['rows'], c['be'], c.get('objs'), c.get('attrs'))
    try:
        if c.get('names'):
            if c['kind'] == 'ext':
                r = K.extension(list(c['sel']), None if c['base'] is None else list(c['base']), is_monotone=c['mono'])
            else:
                r = K.intention(list(c['sel']), is_monotone=c['mono'])
            return {'ok': [str(x) for x in r]}
        f = {'ext': K.extension_i, 'int': K.intention_i, 'extm': K.extension_monotone_i,
             'intm': K.intention_monotone_i}[c['kind']]
        base = None if c['base'] is None else list(c['base'])
        return {'ok': ints(f(list(c['sel']), base))}
    except Exception as e:
        return {'err': exc_name(e)}


def requests(c):
    from implutil import SHORT
    base = dict(be=SHORT[c['be']], rows=c['rows'], w=len(c['rows'][0]), kind=c['kind'], sel=c['sel'], base=c['base'])
    if c.get('names'):
        base.update(op='C01.n', objs=c['objs'], attrs=c['attrs'], mono=c['mono'])
    else:
        base.update(op='C01.i')
    return [base]


def judge(c, io, rep):
    r = rep[0]
    if c.get('names'):
        want = {'ok': r['ok']} if 'ok' in r else {'err': r['err']}
        if io == want:
            return dict(ok=True)
        return dict(ok=False, kind='property', detail=f'by-name result {io} differs from the proved value {want}')
    if r['model'] != r['spec']:
        return dict(ok=False, kind='harness', detail=f'model {r["model"]} != spec {r["spec"]} (contradicts theorem: input out of scope?)')
    if io == {'ok': r['spec']}:
        return dict(ok=True)
    return dict(ok=False, kind='property', detail=f'{c["kind"]} returned {io}, prime set is {r["spec"]}')


def nontrivial(c):
    return G.is_mixed(c['rows']) and len(c['sel']) > 0


def key(c):
    return [c['rows'], c['be'], c['kind'], c['sel'], c['base'], c.get('mono'), bool(c.get('names')), c.get('names0')]


def branch(c, io, rep):
    return [c['stream'], f"{c['be']}:{c['kind']}" + (':name' if c.get('names') else '')
            + (':base' if c['base'] is not None else ''), 'err' if 'err' in io else 'ok']


def signature(c, io, rep, v):
    return f"C01:{c['be']}:{c['kind']}:{'name' if c.get('names') else 'index'}:{'err:' + io['err'] if 'err' in io else 'wrong'}"


def shrink(c):
    if c.get('names'):
        return
    if c['kind'] in ('ext', 'extm'):
        yield from G.shrink_table_case(c, row_keys=('base',), col_keys=('sel',))
    else:
        yield from G.shrink_table_case(c, row_keys=('sel',), col_keys=('base',))

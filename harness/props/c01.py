"""C01 — derivation operators return exactly the prime sets of the incidence relation."""
import random

import gen as G
from implutil import BACKENDS, ints, make_context, exc_name

RULE = ('case = (table, backend, operator in {ext,int,extm,intm}, ordered duplicate-free selection, base list or None) '
        'or the by-name call; exhaustive over all tables up to the tier scope x all ordered selections x all ordered '
        'base lists x 3 backends, then seeded random larger tables; non-trivial = table neither all-true nor all-false '
        'and non-empty selection; distinct = distinct (table, backend, operator, selection, base).  '
        'History cases (hist=1) = ONE fresh context object + a list of steps: calls of the eight operators whose arguments '
        'are literals handed over through a feed (list/tuple/set/frozenset/dict view/deque/ndarray/numpy ints/generator/'
        'iter/map/filter) or named caller-owned slots (list or ndarray objects that later steps mutate IN PLACE and pass '
        'again), renames through the object_names/attribute_names setters, replacement of the table through the public '
        'data setter, in-place scribbling on returned values; every call is judged against the Lean model/spec for the '
        'content current AT THAT CALL')
EXHAUSTIVE = {'quick': 'all tables n,m<=3 (682) x 4 operators x ordered selections x (None + ordered base lists) x 3 backends; '
                       'by-name: all tables n,m<=2; histories: all tables n,m<=2 x 8 operators x every ordered pair (old content, '
                       'new content) of an in-place mutated argument list; all tables n,m<=2 x by-name operators x every '
                       'ordered selection x 4 one-shot feeds',
              'thorough': 'all tables with n*m<=12, n,m<=4, sorted+reversed selections; plus the quick scope'}
EXPLANATION = ('output is pinned uniquely by the property, so implementation != Spec is a property failure; the Lean '
               'theorems Fca.C01.* prove model = Spec for all inputs')
ASSUMPTIONS = ['index arguments hold valid non-negative indexes (documented API range); repetitions and any order are explored, '
               'except for the monotone operators when the NUMBER of given indexes equals the dimension although an index is '
               'repeated (the len()-based "everything given" shortcut of the code, hypotheses hnotfull / Nodup of the theorems)',
               'object/attribute names pairwise distinct',
               'container types of index arguments are limited to those the unchanged tree answers on every backend '
               '(sets / dict views / tuples as base sets are rejected by the numpy or bitarray backend and are not explored); '
               'one-shot iterators are explored for the by-name operators (declared Iterable and iterated once) and, for the '
               'by-index operators (which call len()), only with the verdict "raise or answer right"']
CHUNK = 4000

OBJ = ['g0', 'g1', 'g2', 'g3', 'g4', 'g5', 'g6', 'g7', 'g8', 'g9', 'g10', 'g11', 'g12', 'g13']
ATT = ['a', 'b', 'c', 'd', 'e', 'f', 'g', 'h', 'i', 'j', 'k', 'l', 'm', 'n']


def _index_cases(rows, stream, sels_fn, bases_fn):
    n, m = len(rows), len(rows[0])
    for be in BACKENDS:
        for kind in ('ext', 'int', 'extm', 'intm'):
            dom_sel, dom_base = (m, n) if kind in ('ext', 'extm') else (n, m)
            for sel in sels_fn(dom_sel):
                for base in bases_fn(dom_base):
                    yield dict(stream=stream, be=be, rows=rows, kind=kind, sel=sel, base=base)


def _name_cases(rows, stream, rng=None):
    n, m = len(rows), len(rows[0])
    objs, attrs = OBJ[:n], ATT[:m]
    for be in BACKENDS:
        for mono in (False, True):
            sels = G.ordered_sublists(range(m)) if rng is None else [rng.sample(range(m), rng.randint(0, m)) for _ in range(2)]
            for sel in sels:
                bases = ([None] + list(G.ordered_sublists(range(n)))) if rng is None else \
                    [None, rng.sample(range(n), rng.randint(0, n))]
                for base in bases:
                    yield dict(stream=stream, be=be, rows=rows, names=True, kind='ext', mono=mono, objs=objs, attrs=attrs,
                               sel=[attrs[j] for j in sel], base=None if base is None else [objs[i] for i in base])
            sels = G.ordered_sublists(range(n)) if rng is None else [rng.sample(range(n), rng.randint(0, n)) for _ in range(2)]
            for sel in sels:
                yield dict(stream=stream, be=be, rows=rows, names=True, kind='int', mono=mono, objs=objs, attrs=attrs,
                           sel=[objs[i] for i in sel], base=None)


def _malformed_names(rows, rng):
    n, m = len(rows), len(rows[0])
    objs, attrs = OBJ[:n], ATT[:m]
    for be in BACKENDS:
        for mono in (False, True):
            sel = [attrs[j] for j in rng.sample(range(m), rng.randint(0, m))]
            bad = list(sel)
            bad.insert(rng.randint(0, len(bad)), rng.choice(['zz', '', 'A', 'g0']))
            yield dict(stream='malformed', be=be, rows=rows, names=True, kind='ext', mono=mono, objs=objs, attrs=attrs,
                       sel=bad, base=None)
            base = [objs[i] for i in rng.sample(range(n), rng.randint(0, n))]
            base.insert(rng.randint(0, len(base)), rng.choice(['zz', '', 'a']))
            yield dict(stream='malformed', be=be, rows=rows, names=True, kind='ext', mono=mono, objs=objs, attrs=attrs,
                       sel=sel, base=base)
            so = [objs[i] for i in rng.sample(range(n), rng.randint(0, n))]
            so.insert(rng.randint(0, len(so)), rng.choice(['zz', '', 'a']))
            yield dict(stream='malformed', be=be, rows=rows, names=True, kind='int', mono=mono, objs=objs, attrs=attrs,
                       sel=so, base=None)


def gen(tier, seed, boost=False):
    rng = random.Random(seed * 1000003 + 101)
    full = lambda k: G.ordered_sublists(range(k))
    fullbase = lambda k: [None] + list(G.ordered_sublists(range(k)))
    # exhaustive small scope
    for rows in G.tables_upto(3, 3):
        yield from _index_cases(rows, 'exhaustive', full, fullbase)
    for rows in G.tables_upto(2, 2):
        yield from _name_cases(rows, 'exhaustive-names')
    # histories: by-name call, rename through the setters (permuted and fresh names), by-name call again
    rh = random.Random(seed * 7919 + 11)
    for rows in list(G.tables_upto(2, 2)) + [G.random_table(rh, 4, 4, nmin=2, mmin=2) for _ in range(40 if tier == 'quick' else 400)]:
        n, m = len(rows), len(rows[0])
        for names0 in ((OBJ[:n][::-1], ATT[:m][::-1]), (['x%d' % i for i in range(n)], ['y%d' % j for j in range(m)])):
            for c in _name_cases(rows, 'history-names', rh):
                c['names0'] = [list(names0[0]), list(names0[1])]
                yield c
    yield from _hist_streams(tier, seed, boost)
    if tier == 'thorough' or boost:
        def srt(k):
            out = []
            for s in G.sorted_sublists(range(k)):
                out.append(s)
                if len(s) > 1:
                    out.append(s[::-1])
            return out
        for k_t, rows in enumerate(G.tables_upto(4, 4, cells=12)):
            if len(rows) <= 3 and len(rows[0]) <= 3:
                continue
            if tier != 'thorough' and k_t % 12:
                continue        # a boosted quick run (drifted source / failed proof) samples the larger scope
            yield from _index_cases(rows, 'exhaustive-large', srt, lambda k: [None] + srt(k))
    # seeded random larger cases
    nrand = 300 if tier == 'quick' else 6000
    if boost:
        nrand *= 3
    big = 8 if tier == 'quick' else 14
    for _ in range(nrand):
        rows = G.random_table(rng, big, big)
        n, m = len(rows), len(rows[0])
        for be in BACKENDS:
            for kind in ('ext', 'int', 'extm', 'intm'):
                ds, db = (m, n) if kind in ('ext', 'extm') else (n, m)
                for _k in range(2):
                    yield dict(stream='random', be=be, rows=rows, kind=kind, sel=G.random_sel(rng, ds),
                               base=G.random_sel(rng, db, allow_none=True))
        if _ % 5 == 0:
            yield from _name_cases(rows, 'random-names', rng)
            yield from _malformed_names(rows, rng)


def impl(c):
    if c.get('hist'):
        return _hist_impl(c)
    if c.get('names0'):
        # history stream: the context is first used by name under other names, then renamed through the public setters
        from fcapy.context import FormalContext
        o0, a0 = c['names0']
        K = FormalContext(data=[[bool(v) for v in r] for r in c['rows']], object_names=list(o0), attribute_names=list(a0),
                          backend=c['be'])
        try:
            K.extension(list(a0[:1]))
            K.intention(list(o0[:1]))
        except Exception:
            pass
        K.object_names = list(c['objs'])
        K.attribute_names = list(c['attrs'])
    else:
        K = make_context(c['rows'], c['be'], c.get('objs'), c.get('attrs'))
    try:
        if c.get('names'):
            if c['kind'] == 'ext':
                r = K.extension(list(c['sel']), None if c['base'] is None else list(c['base']), is_monotone=c['mono'])
            else:
                r = K.intention(list(c['sel']), is_monotone=c['mono'])
            return {'ok': [str(x) for x in r]}
        f = {'ext': K.extension_i, 'int': K.intention_i, 'extm': K.extension_monotone_i,
             'intm': K.intention_monotone_i}[c['kind']]
        base = None if c['base'] is None else list(c['base'])
        return {'ok': ints(f(list(c['sel']), base))}
    except Exception as e:
        return {'err': exc_name(e)}


def requests(c):
    from implutil import SHORT
    if c.get('hist'):
        return [rq for _k, rq, _u in _hist_replay(c)]
    base = dict(be=SHORT[c['be']], rows=c['rows'], w=len(c['rows'][0]), kind=c['kind'], sel=c['sel'], base=c['base'])
    if c.get('names'):
        base.update(op='C01.n', objs=c['objs'], attrs=c['attrs'], mono=c['mono'])
    else:
        base.update(op='C01.i')
    return [base]


def judge(c, io, rep):
    if c.get('hist'):
        return _hist_judge(c, io, rep)
    r = rep[0]
    if c.get('names'):
        want = {'ok': r['ok']} if 'ok' in r else {'err': r['err']}
        if io == want:
            return dict(ok=True)
        return dict(ok=False, kind='property', detail=f'by-name result {io} differs from the proved value {want}')
    if r['model'] != r['spec']:
        return dict(ok=False, kind='harness', detail=f'model {r["model"]} != spec {r["spec"]} (contradicts theorem: input out of scope?)')
    if io == {'ok': r['spec']}:
        return dict(ok=True)
    return dict(ok=False, kind='property', detail=f'{c["kind"]} returned {io}, prime set is {r["spec"]}')


def nontrivial(c):
    if c.get('hist'):
        return G.is_mixed(c['rows']) and sum(1 for st in c['steps'] if st['op'] in ('i', 'n')) > 0
    return G.is_mixed(c['rows']) and len(c['sel']) > 0


def key(c):
    if c.get('hist'):
        return ['hist', c['rows'], c['be'], c.get('objs'), c.get('attrs'), c['slots'], c['steps']]
    return [c['rows'], c['be'], c['kind'], c['sel'], c['base'], c.get('mono'), bool(c.get('names')), c.get('names0')]


def branch(c, io, rep):
    if c.get('hist'):
        return _hist_branch(c, io, rep)
    return [c['stream'], f"{c['be']}:{c['kind']}" + (':name' if c.get('names') else '')
            + (':base' if c['base'] is not None else ''), 'err' if 'err' in io else 'ok']


def signature(c, io, rep, v):
    if c.get('hist'):
        return f"C01:{c['be']}:hist:{v.get('where', '?')}"
    return f"C01:{c['be']}:{c['kind']}:{'name' if c.get('names') else 'index'}:{'err:' + io['err'] if 'err' in io else 'wrong'}"


def shrink(c):
    if c.get('hist'):
        yield from _hist_shrink(c)
        return
    if c.get('names'):
        return
    if c['kind'] in ('ext', 'extm'):
        yield from G.shrink_table_case(c, row_keys=('base',), col_keys=('sel',))
    else:
        yield from G.shrink_table_case(c, row_keys=('sel',), col_keys=('base',))


# =====================================================================================================================
# History cases: ONE context object, a list of steps (see RULE).  Everything is judged against the Lean model / spec
# evaluated on the content that is current at the moment of each call (never against a remembered earlier answer).
# =====================================================================================================================
ONESHOT = ('gen', 'iter', 'map', 'filter')
# feeds that the unchanged tree answers on every backend for the by-index operators (probed; see ASSUMPTIONS)
SEL_FEEDS_I = ('list', 'tuple', 'set', 'frozenset', 'dictkeys', 'dictvals', 'deque', 'nd', 'nd32', 'npint')
BASE_FEEDS_I = ('list', 'list', 'deque', 'nd', 'nd32', 'npint', 'tuple')
SEL_FEEDS_N = ('list', 'tuple', 'set', 'frozenset', 'dictkeys', 'dictvals', 'deque') + ONESHOT + ONESHOT
BASE_FEEDS_N = ('list', 'tuple', 'dictkeys', 'dictvals', 'deque') + ONESHOT + ONESHOT
UNORDERED = ('set', 'frozenset')
DEDUP = ('set', 'frozenset', 'dictkeys')


def _sel_feeds_i(kind, be):
    if kind == 'extm' and be == 'BinTableNumpy':     # any_i hands the raw collection to numpy fancy indexing
        return ('list', 'tuple', 'nd', 'nd32', 'npint', 'deque')
    return SEL_FEEDS_I


def _base_feeds_i(kind, be):
    if be == 'BinTableNumpy' and kind in ('ext', 'extm'):   # data[(i, j)] is a 2-d index for numpy
        return tuple(f for f in BASE_FEEDS_I if f != 'tuple')
    return BASE_FEEDS_I


def _mk(arg, slots, names):
    """Build the actual Python argument of a call step."""
    if 's' in arg:
        return slots[arg['s']]
    import collections
    import numpy as np
    v, f = arg['v'], arg.get('f', 'list')
    if f == 'list':
        return list(v)
    if f == 'tuple':
        return tuple(v)
    if f == 'set':
        return set(v)
    if f == 'frozenset':
        return frozenset(v)
    if f == 'dictkeys':
        return dict.fromkeys(v).keys()
    if f == 'dictvals':
        return dict(enumerate(v)).values()
    if f == 'deque':
        return collections.deque(v)
    if f == 'nd':
        return np.array(v, dtype=np.int64)
    if f == 'nd32':
        return np.array(v, dtype=np.int32)
    if f == 'npint':
        return [np.int64(x) for x in v]
    if f == 'gen':
        return (x for x in v)
    if f == 'iter':
        return iter(list(v))
    if f == 'map':
        return map(str if names else int, v)
    if f == 'filter':
        return filter(lambda x: True, v)
    raise ValueError('unknown feed ' + f)


def _eff(arg, slots):
    """The content the callee sees (as a list) for an argument of a call step."""
    if arg is None:
        return None
    if 's' in arg:
        return list(slots[arg['s']])
    v, f = arg['v'], arg.get('f', 'list')
    return list(dict.fromkeys(v)) if f in DEDUP else list(v)


def _snap(x):
    return x.tolist() if hasattr(x, 'tolist') else list(x)


def _hist_impl(c):
    import numpy as np
    from fcapy.context import FormalContext
    K = FormalContext(data=[[bool(v) for v in r] for r in c['rows']],
                      object_names=None if c.get('objs') is None else list(c['objs']),
                      attribute_names=None if c.get('attrs') is None else list(c['attrs']), backend=c['be'])
    K = _ctor(K, c.get('ctor', 'plain'), c)
    slots = {k: (np.array(d['v'], dtype=np.int64) if d['t'] == 'nd' else list(d['v'])) for k, d in c['slots'].items()}
    calls, argmut, last = [], [], None
    for k, st in enumerate(c['steps']):
        op = st['op']
        if op in ('i', 'n'):
            names = op == 'n'
            a = _mk(st['sel'], slots, names)
            b = None if st.get('base') is None else _mk(st['base'], slots, names)
            before = {s: _snap(v) for s, v in slots.items()}
            try:
                if names:
                    if st['kind'] == 'ext':
                        r = K.extension(a, b, is_monotone=bool(st['mono']))
                    else:
                        r = K.intention(a, is_monotone=bool(st['mono']))
                    out = {'ok': [str(x) for x in r]}
                else:
                    f = {'ext': K.extension_i, 'int': K.intention_i, 'extm': K.extension_monotone_i,
                         'intm': K.intention_monotone_i}[st['kind']]
                    r = f(a, b)
                    out = {'ok': ints(r)}
                last = r
            except Exception as e:
                last = None
                out = {'err': exc_name(e)}
            calls.append(out)
            for s, v in slots.items():
                if _snap(v) != before[s]:
                    argmut.append([k, s])
        elif op == 'mut':
            cur = slots[st['slot']]
            if isinstance(cur, list):
                cur[:] = list(st['v'])
            elif len(cur) == len(st['v']):
                cur[:] = st['v']
            else:       # an ndarray cannot change its length in place
                slots[st['slot']] = np.array(st['v'], dtype=np.int64)
        elif op == 'rename':
            if 'objs' in st:
                K.object_names = None if st['objs'] is None else list(st['objs'])
            if 'attrs' in st:
                K.attribute_names = None if st['attrs'] is None else list(st['attrs'])
        elif op == 'data':
            K.data.data = [[bool(v) for v in r] for r in st['rows']]
            if 'objs' in st:
                K.object_names = None if st['objs'] is None else list(st['objs'])
            if 'attrs' in st:
                K.attribute_names = None if st['attrs'] is None else list(st['attrs'])
        elif op == 'read':
            _read(K, st.get('what', 0))
        elif op == 'scribble':
            # the caller writes into the value returned by the previous call (unless it IS one of the caller's own slots)
            if last is not None and not any(last is v for v in slots.values()):
                if isinstance(last, list):
                    last.clear()
                    last.append(10 ** 6)
                elif isinstance(last, np.ndarray) and last.flags.writeable:
                    last[...] = 0
            last = None
    return {'calls': calls, 'argmut': argmut}


CTORS = ('plain', 'TT', 'inv', 'slice', 'slice2', 'nd', 'bt', 'json', 'cxt')


def _ctor(K, how, c):
    """The same context reached through a non-default construction path (same table, names and backend)."""
    import numpy as np
    from fcapy.context import FormalContext
    if how == 'TT':
        return K.T.T
    if how == 'inv':
        return ~~K
    if how == 'slice':
        return K[:, :]
    if how == 'slice2':
        return K[list(range(K.n_objects)), list(range(K.n_attributes))]
    if how == 'nd':
        return FormalContext(data=np.array(c['rows'], dtype=bool).reshape(len(c['rows']), len(c['rows'][0])),
                             object_names=list(K.object_names), attribute_names=list(K.attribute_names), backend=c['be'])
    if how == 'bt':
        return FormalContext(data=K.data, object_names=list(K.object_names), attribute_names=list(K.attribute_names),
                             backend=c['be'])
    if how == 'json' and c['be'] == 'BinTableBitarray':      # the readers build the default backend
        return FormalContext.read_json(data=K.write_json())
    if how == 'cxt' and c['be'] == 'BinTableBitarray':
        return FormalContext.read_cxt(data=K.write_cxt())
    return K


def _read(K, what):
    """Read-only public API touched between two uses (a place where lazily built memos are born)."""
    reads = (lambda: K.T, lambda: hash(K), lambda: K.hash_fixed(), lambda: (K.size, len(K), K.n_bin_attrs),
             lambda: repr(K), lambda: K.data.T, lambda: K.data.to_list(), lambda: list(K.to_bin_attr_extents()),
             lambda: K.to_numeric(), lambda: K == K, lambda: ~K, lambda: K[:, :], lambda: K.write_json(),
             lambda: (K.object_names, K.attribute_names), lambda: hash(K.data), lambda: K.data.to_tuple(),
             lambda: (K.data.sum(0), K.data.sum(1), K.data.all(), K.data.any()))
    try:
        reads[what % len(reads)]()
    except Exception:
        pass


def _dflt(names, k):
    return [str(i) for i in range(k)] if names is None else list(names)


def _hist_replay(c):
    """(step index, driver request, order-free?) for every call step, for the state current at that step."""
    from implutil import SHORT
    rows = c['rows']
    objs, attrs = _dflt(c.get('objs'), len(rows)), _dflt(c.get('attrs'), len(rows[0]))
    slots = {k: list(d['v']) for k, d in c['slots'].items()}
    for k, st in enumerate(c['steps']):
        op = st['op']
        if op == 'mut':
            slots[st['slot']] = list(st['v'])
        elif op in ('rename', 'data'):
            if op == 'data':
                rows = st['rows']
            if 'objs' in st:
                objs = _dflt(st['objs'], len(rows))
            if 'attrs' in st:
                attrs = _dflt(st['attrs'], len(rows[0]))
        elif op in ('i', 'n'):
            rq = dict(be=SHORT[c['be']], rows=rows, w=len(rows[0]), kind=st['kind'], sel=_eff(st['sel'], slots),
                      base=_eff(st.get('base'), slots))
            if op == 'n':
                rq.update(op='C01.n', objs=objs, attrs=attrs, mono=bool(st['mono']))
            else:
                rq.update(op='C01.i')
            yield k, rq, False


def _call_txt(st):
    def a(x):
        if x is None:
            return 'None'
        return f"<slot {x['s']}>" if 's' in x else f"{x.get('f', 'list')}({x['v']})"
    if st['op'] == 'n':
        fn = 'extension' if st['kind'] == 'ext' else 'intention'
        return f"{fn}({a(st['sel'])}" + (f", base_objects={a(st['base'])}" if st.get('base') is not None else '') \
            + (', is_monotone=True' if st['mono'] else '') + ')'
    fn = {'ext': 'extension_i', 'int': 'intention_i', 'extm': 'extension_monotone_i', 'intm': 'intention_monotone_i'}[st['kind']]
    return f"{fn}({a(st['sel'])}, {a(st.get('base'))})"


def _hist_judge(c, io, rep):
    calls = io.get('calls', [])
    reqs = list(_hist_replay(c))
    if len(calls) != len(reqs) or len(rep) != len(reqs):
        return dict(ok=False, kind='harness', detail=f'history bookkeeping: {len(calls)} results, {len(reqs)} requests, {len(rep)} replies')
    for n_call, ((k, rq, _u), r, got) in enumerate(zip(reqs, rep, calls)):
        st = c['steps'][k]
        if st['op'] == 'n':
            want = {'ok': r['ok']} if 'ok' in r else {'err': r['err']}
        else:
            if r['model'] != r['spec']:
                return dict(ok=False, kind='harness', detail=f'step {k}: model {r["model"]} != spec {r["spec"]} '
                                                             f'(contradicts theorem: input out of scope?) request {rq}')
            want = {'ok': r['spec']}
        if got == want or (st.get('soft') and 'err' in got):
            continue
        where = f"{st['kind']}{'m' if st.get('mono') else ''}:{'name' if st['op'] == 'n' else 'index'}:" \
                + ('err:' + got['err'] if 'err' in got else 'wrong')
        return dict(ok=False, kind='property', where=where,
                    detail=f'step {k} (call #{n_call}) of the history on one {c["be"]} context: {_call_txt(st)} with current '
                           f'selection {rq["sel"]}, base {rq["base"]}, table {rq["rows"]}'
                           + (f', names {rq["objs"]}/{rq["attrs"]}' if st['op'] == 'n' else '')
                           + f' returned {got}, the prime set is {want}')
    if io.get('argmut'):
        k, s = io['argmut'][0]
        return dict(ok=False, kind='property', where='argmut',
                    detail=f'step {k}: {_call_txt(c["steps"][k])} modified the caller\'s argument object (slot {s})')
    return dict(ok=True)


def _hist_branch(c, io, rep):
    out = [c['stream']]
    calls = io.get('calls', [])
    k = 0
    for st in c['steps']:
        if st['op'] in ('i', 'n'):
            tag = f"{st['kind']}{'m' if st.get('mono') else ''}" + (':name' if st['op'] == 'n' else '')
            for arg, what in ((st['sel'], 'sel'), (st.get('base'), 'base')):
                if arg is not None:
                    out.append(f"hist:{tag}:{what}={'slot' if 's' in arg else arg.get('f', 'list')}")
            if k < len(calls):
                out.append('hist:' + ('err' if 'err' in calls[k] else 'ok'))
            k += 1
        else:
            out.append('hist:step:' + st['op'])
    return sorted(set(out))


def _hist_shrink(c):
    steps = c['steps']
    # shortest failing prefix first
    for k in range(1, len(steps)):
        if steps[k - 1]['op'] in ('i', 'n'):
            yield dict(c, steps=steps[:k])
    for k in range(len(steps)):
        yield dict(c, steps=steps[:k] + steps[k + 1:])
    # plain lists instead of exotic re-iterable feeds (one-shot feeds are kept: they are the point of such a case)
    for k, st in enumerate(steps):
        if st['op'] in ('i', 'n'):
            for key in ('sel', 'base'):
                arg = st.get(key)
                if arg is not None and 'v' in arg and arg.get('f', 'list') not in ('list',) + ONESHOT + DEDUP:
                    st2 = dict(st)
                    st2[key] = dict(v=arg['v'], f='list')
                    yield dict(c, steps=steps[:k] + [st2] + steps[k + 1:])
                if arg is not None and 'v' in arg and len(arg['v']) > 0 and not st.get('mono') and st['kind'] in ('ext', 'int'):
                    for i in range(len(arg['v'])):
                        st2 = dict(st)
                        st2[key] = dict(arg, v=arg['v'][:i] + arg['v'][i + 1:])
                        yield dict(c, steps=steps[:k] + [st2] + steps[k + 1:])
    # unused slots
    used = {a['s'] for st in steps if st['op'] in ('i', 'n') for a in (st['sel'], st.get('base')) if a is not None and 's' in a}
    if set(c['slots']) - used:
        yield dict(c, slots={k: v for k, v in c['slots'].items() if k in used},
                   steps=[st for st in steps if not (st['op'] == 'mut' and st['slot'] not in used)])
    if not any(st['op'] == 'data' for st in steps):
        rows = c['rows']
        for i in range(len(rows)):
            for j in range(len(rows[0])):
                if rows[i][j]:
                    r2 = [list(r) for r in rows]
                    r2[i][j] = 0
                    yield dict(c, rows=r2)


# ---- generators -----------------------------------------------------------------------------------------------------
def _debruijn_pairs(k):
    """A cyclic walk over range(k) in which every ordered pair (x, y), x == y included, is consecutive exactly once."""
    if k == 1:
        return [0, 0]
    edges = {x: list(range(k)) for x in range(k)}
    stack, walk = [0], []
    while stack:
        x = stack[-1]
        if edges[x]:
            stack.append(edges[x].pop())
        else:
            walk.append(stack.pop())
    return walk[::-1]


def _lit(v, f='list'):
    return dict(v=list(v), f=f)


def _len_trap(kind, mono, sel, n, m):
    """Monotone operators take the len()-based shortcut 'everything is given': excluded when an index is repeated."""
    if kind == 'extm' or (kind == 'ext' and mono):
        return len(sel) == m and len(set(sel)) < m
    if kind == 'intm' or (kind == 'int' and mono):
        return len(sel) == n and len(set(sel)) < n
    return False


OPS8 = (('i', 'ext', None), ('i', 'extm', None), ('i', 'int', None), ('i', 'intm', None),
        ('n', 'ext', False), ('n', 'ext', True), ('n', 'int', False), ('n', 'int', True))


def _step(op, kind, mono, sel, base):
    st = dict(op=op, kind=kind, sel=sel, base=base)
    if op == 'n':
        st['mono'] = bool(mono)
    return st


def _exh_alias(rows, be):
    """Small scope, complete: one argument is a caller-owned list walked IN PLACE through every ordered pair of contents
    (de Bruijn walk), the other argument fixed; all eight operators."""
    n, m = len(rows), len(rows[0])
    objs, attrs = OBJ[:n], ATT[:m]
    for op, kind, mono in OPS8:
        ds, db = (m, n) if kind in ('ext', 'extm') else (n, m)
        nm_s, nm_b = (attrs, objs) if kind in ('ext', 'extm') else (objs, attrs)
        conv_s = (lambda v: [nm_s[i] for i in v]) if op == 'n' else (lambda v: list(v))
        conv_b = (lambda v: [nm_b[i] for i in v]) if op == 'n' else (lambda v: list(v))
        has_base = not (op == 'n' and kind == 'int')
        sels = list(G.ordered_sublists(range(ds)))
        bases = list(G.ordered_sublists(range(db)))
        common = dict(stream='history-alias-exhaustive', hist=1, be=be, rows=rows, objs=objs, attrs=attrs)
        if has_base:        # the base set is the walked list
            walk = _debruijn_pairs(len(bases))
            for sel in sels:
                steps = []
                for x in walk[1:]:
                    steps.append(_step(op, kind, mono, _lit(conv_s(sel)), dict(s='B')))
                    steps.append(dict(op='mut', slot='B', v=conv_b(bases[x])))
                steps.append(_step(op, kind, mono, _lit(conv_s(sel)), dict(s='B')))
                yield dict(common, slots={'B': dict(t='list', v=conv_b(bases[walk[0]]))}, steps=steps)
        walk = _debruijn_pairs(len(sels))
        for base in ([None] + bases) if has_base else [None]:     # the selection is the walked list
            steps = []
            b = None if base is None else _lit(conv_b(base))
            for x in walk[1:]:
                steps.append(_step(op, kind, mono, dict(s='A'), b))
                steps.append(dict(op='mut', slot='A', v=conv_s(sels[x])))
            steps.append(_step(op, kind, mono, dict(s='A'), b))
            yield dict(common, slots={'A': dict(t='list', v=conv_s(sels[walk[0]]))}, steps=steps)
        if op == 'i':       # ndarray arguments updated in place (same length): both at once
            for ln_s in range(1, ds + 1):
                for ln_b in range(1, db + 1):
                    ss = [list(p) for p in __import__('itertools').permutations(range(ds), ln_s)]
                    bs = [list(p) for p in __import__('itertools').permutations(range(db), ln_b)]
                    steps = []
                    for s1 in ss:
                        for b1 in bs:
                            steps.append(dict(op='mut', slot='A', v=s1))
                            steps.append(dict(op='mut', slot='B', v=b1))
                            steps.append(_step(op, kind, mono, dict(s='A'), dict(s='B')))
                    yield dict(common, slots={'A': dict(t='nd', v=ss[-1]), 'B': dict(t='nd', v=bs[-1])}, steps=steps)


def _exh_oneshot(rows, be):
    """Small scope, complete: the by-name operators fed with one-shot iterators (every ordered selection x 4 feeds)."""
    n, m = len(rows), len(rows[0])
    objs, attrs = OBJ[:n], ATT[:m]
    common = dict(stream='oneshot-names-exhaustive', hist=1, be=be, rows=rows, objs=objs, attrs=attrs, slots={})
    for mono in (False, True):
        sels = [[attrs[j] for j in s] for s in G.ordered_sublists(range(m))]
        bases = [[objs[i] for i in s] for s in G.ordered_sublists(range(n))]
        yield dict(common, steps=[_step('n', 'ext', mono, _lit(s, f), None) for s in sels for f in ONESHOT])
        for s in sels:
            yield dict(common, steps=[_step('n', 'ext', mono, _lit(s), _lit(b, f)) for b in bases for f in ONESHOT]
                       + [_step('n', 'ext', mono, _lit(s, f), _lit(b, f2)) for b in bases
                          for f, f2 in (('gen', 'iter'), ('map', 'gen'), ('iter', 'filter'), ('filter', 'map'))])
        osels = [[objs[i] for i in s] for s in G.ordered_sublists(range(n))]
        yield dict(common, steps=[_step('n', 'int', mono, _lit(s, f), None) for s in osels for f in ONESHOT])
        # unknown names handed over by a one-shot iterator are rejected all the same
        yield dict(common, steps=[_step('n', 'ext', mono, _lit(s + ['zz'], f), None) for s in sels[:3] for f in ONESHOT]
                   + [_step('n', 'ext', mono, _lit(sels[-1]), _lit(['zz'] + b, f)) for b in bases[:3] for f in ONESHOT]
                   + [_step('n', 'int', mono, _lit(['zz'] + s, f), None) for s in osels[:3] for f in ONESHOT])


NAME_POOLS = ('gm', 'default', 'revdigits', 'same', 'OBJATT')


def _pool(rng, n, m, which=None):
    which = which or rng.choice(NAME_POOLS)
    if which == 'default':
        return None, None
    if which == 'revdigits':        # names that look like (other) indexes
        return [str(n - 1 - i) for i in range(n)], [str(m - 1 - j) for j in range(m)]
    if which == 'same':             # the same strings name objects and attributes
        return ['x%d' % i for i in range(n)], ['x%d' % j for j in range(m)]
    if which == 'OBJATT' and n <= len(OBJ) and m <= len(ATT):
        return OBJ[:n], ATT[:m]
    return ['g%d' % i for i in range(n)], ['m%d' % j for j in range(m)]


def _rsel(rng, dim, dup=True, lmax=None, lmin=0):
    lmax = min(dim, 5) + 1 if lmax is None else lmax
    k = rng.randint(lmin, max(lmin, lmax))
    if dup and rng.random() < 0.4:
        return [rng.randrange(dim) for _ in range(k)]
    return rng.sample(range(dim), min(k, dim))


class _Hist:
    """Random history on one context; keeps the symbolic state so that every generated call is inside the explored scope."""

    def __init__(self, rng, rows, be, stream, weights):
        self.rng, self.be, self.stream, self.w = rng, be, stream, weights
        self.rows0 = self.rows = rows
        n, m = self.dims()
        self.objs0, self.attrs0 = _pool(rng, n, m)
        self.objs, self.attrs = _dflt(self.objs0, n), _dflt(self.attrs0, m)
        self.old_names = ['zz', '', 'A']
        self.slots = {}
        self.slot_dom = {'ia': 'a', 'io': 'o', 'xa': 'a', 'xo': 'o', 'na': 'a', 'no': 'o'}
        for s in self.slot_dom:
            self.slots[s] = self.fresh(s, first=True)
        self.slots0 = {s: dict(t='nd' if s[0] == 'x' else 'list', v=list(v)) for s, v in self.slots.items()}
        self.steps = []
        self.ctor = 'plain'
        if rng.random() < weights.get('ctor', 0.0):
            self.ctor = rng.choice(CTORS[1:])
            if self.ctor == 'inv' and any(x.startswith('not ') for x in self.attrs):
                self.ctor = 'plain'

    def dims(self):
        return len(self.rows), len(self.rows[0])

    def dim(self, dom):
        return self.dims()[0 if dom == 'o' else 1]

    def fresh(self, s, first=False):
        dom = self.slot_dom[s]
        d = self.dim(dom)
        if s[0] == 'x':
            ln = self.rng.randint(1, min(d, 4) + 1) if first else len(self.slots[s])
            return [self.rng.randrange(d) for _ in range(ln)] if self.rng.random() < 0.5 or ln > d else self.rng.sample(range(d), ln)
        v = _rsel(self.rng, d)
        if s[0] == 'n':
            nm = self.objs if dom == 'o' else self.attrs
            v = [nm[i] for i in v]
        return v

    def mutate(self, s):
        cur = self.slots[s]
        r = self.rng.random()
        if s[0] != 'x' and cur and r < 0.5:
            # typical working-set updates: reverse / rotate / drop / replace one / append
            how = self.rng.choice(('rev', 'rot', 'drop', 'sort', 'append', 'replace'))
            new = list(cur)
            dom = self.slot_dom[s]
            pool = list(range(self.dim(dom))) if s[0] == 'i' else (self.objs if dom == 'o' else self.attrs)
            if how == 'rev':
                new.reverse()
            elif how == 'rot':
                new = new[1:] + new[:1]
            elif how == 'drop':
                del new[self.rng.randrange(len(new))]
            elif how == 'sort':
                new.sort()
            elif how == 'append':
                new.append(self.rng.choice(pool))
            else:
                new[self.rng.randrange(len(new))] = self.rng.choice(pool)
            if s[0] == 'n' and any(x not in pool for x in new):
                new = self.fresh(s)
        else:
            new = self.fresh(s)
        self.slots[s] = new
        self.steps.append(dict(op='mut', slot=s, v=list(new)))

    # -- arguments --------------------------------------------------------------------------------------------------
    def idx_of(self, names, dom):
        nm = self.objs if dom == 'o' else self.attrs
        return [nm.index(x) if x in nm else -1 for x in names]

    def arg(self, op, kind, mono, role, want_slot, oneshot=False):
        """-> (ARG, effective content as indexes (-1 = unknown name))"""
        rng = self.rng
        dom = ('a' if role == 'sel' else 'o') if kind in ('ext', 'extm') else ('o' if role == 'sel' else 'a')
        d = self.dim(dom)
        n, m = self.dims()
        for _try in range(20):
            if want_slot:
                cands = [s for s, dm in self.slot_dom.items() if dm == dom and (s[0] == 'n') == (op == 'n')]
                s = rng.choice(cands)
                arg, eff = dict(s=s), list(self.slots[s])
            else:
                v = _rsel(rng, d)
                if op == 'n':
                    nm = self.objs if dom == 'o' else self.attrs
                    v = [nm[i] for i in v]
                    if rng.random() < self.w.get('unknown', 0.08):
                        v.insert(rng.randint(0, len(v)), rng.choice(self.old_names))
                    feeds = ONESHOT if oneshot else (SEL_FEEDS_N if role == 'sel' else BASE_FEEDS_N)
                else:
                    feeds = ONESHOT if oneshot else (_sel_feeds_i(kind, self.be) if role == 'sel' else _base_feeds_i(kind, self.be))
                arg = _lit(v, rng.choice(feeds))
                eff = _eff(arg, {})
            effi = self.idx_of(eff, dom) if op == 'n' else eff
            if role == 'sel' and -1 not in effi and _len_trap(kind, mono, effi, n, m):
                if want_slot:
                    self.mutate(arg['s'])
                continue
            return arg
        return _lit([])

    def call(self, op=None, kind=None, mono=None, slot_p=0.0, oneshot=False):
        rng = self.rng
        if op is None:
            op, kind, mono = rng.choice(OPS8)
        sel = self.arg(op, kind, mono, 'sel', rng.random() < slot_p, oneshot and op == 'n')
        base = None
        if not (op == 'n' and kind == 'int') and rng.random() < 0.75:
            base = self.arg(op, kind, mono, 'base', rng.random() < slot_p, oneshot and op == 'n' and rng.random() < 0.7)
        self.steps.append(_step(op, kind, mono, sel, base))
        return self.steps[-1]

    def burst(self):
        """call with caller-owned lists; update them in place; call again (same or sibling operator), nothing in between"""
        rng = self.rng
        op, kind, mono = rng.choice(OPS8)
        st = self.call(op, kind, mono, slot_p=0.85)
        for _ in range(rng.randint(1, 3)):
            used = [a['s'] for a in (st['sel'], st.get('base')) if a is not None and 's' in a]
            for s in used:
                if rng.random() < 0.7:
                    self.mutate(s)
            if rng.random() < 0.3:     # sibling operator with the same argument domains
                if op == 'i':
                    kind = {'ext': 'extm', 'extm': 'ext', 'int': 'intm', 'intm': 'int'}[kind]
                else:
                    mono = not mono
            n, m = self.dims()
            sel, base = st['sel'], st.get('base')
            if 's' in sel:
                effi = self.idx_of(self.slots[sel['s']], self.slot_dom[sel['s']]) if op == 'n' else self.slots[sel['s']]
                if -1 not in effi and _len_trap(kind, mono, effi, n, m):
                    sel = self.arg(op, kind, mono, 'sel', False)
            elif sel.get('f') in ONESHOT or (op == 'i' and sel.get('f') not in _sel_feeds_i(kind, self.be)) \
                    or _len_trap(kind, mono, [0 if op == 'n' else x for x in _eff(sel, {})], n, m):
                sel = self.arg(op, kind, mono, 'sel', False)
            if base is not None and 'v' in base and (base.get('f') in ONESHOT or (op == 'i' and base.get('f') not in _base_feeds_i(kind, self.be))):
                base = self.arg(op, kind, mono, 'base', False)
            st = _step(op, kind, mono, sel, base)
            self.steps.append(st)

    def rename(self):
        rng = self.rng
        n, m = self.dims()
        st = dict(op='rename')
        how = rng.choice(('perm', 'perm', 'pool', 'swap', 'one'))
        new_o, new_a = list(self.objs), list(self.attrs)
        if how == 'perm':
            rng.shuffle(new_o)
            rng.shuffle(new_a)
        elif how == 'pool':
            o, a = _pool(rng, n, m)
            new_o, new_a = _dflt(o, n), _dflt(a, m)
            if o is None and rng.random() < 0.7:
                st['objs'], st['attrs'] = None, None
        elif how == 'swap' and n == m:
            new_o, new_a = list(self.attrs), list(self.objs)
        else:
            new_o[rng.randrange(n)] = 'new%d' % len(self.steps)
            new_a[rng.randrange(m)] = 'new%d' % len(self.steps)
        which = rng.choice(('oa', 'oa', 'o', 'a'))
        if 'objs' in st:
            which = 'oa'
        self.old_names = list(dict.fromkeys(self.old_names + self.objs[:2] + self.attrs[:2]))[-8:]
        if 'o' in which:
            st.setdefault('objs', new_o)
            self.objs = new_o
        if 'a' in which:
            st.setdefault('attrs', new_a)
            self.attrs = new_a
        self.steps.append(st)

    def newdata(self, reshape=True):
        rng = self.rng
        n, m = self.dims()
        how = rng.choice(('random', 'compl', 'rotrows', 'rotcols', 'onecell') + (('reshape',) if reshape else ()))
        if how == 'compl':
            rows = [[1 - v for v in r] for r in self.rows]
        elif how == 'rotrows':
            rows = [list(r) for r in self.rows[1:] + self.rows[:1]]
        elif how == 'rotcols':
            rows = [r[1:] + r[:1] for r in self.rows]
        elif how == 'onecell':
            rows = [list(r) for r in self.rows]
            i, j = rng.randrange(n), rng.randrange(m)
            rows[i][j] = 1 - rows[i][j]
        elif how == 'reshape':
            n2, m2 = max(1, n + rng.choice((-1, 0, 1, 2))), max(1, m + rng.choice((-1, 0, 1, 2)))
            rows = [[int(rng.random() < 0.5) for _ in range(m2)] for _ in range(n2)]
        else:
            rows = [[int(rng.random() < 0.5) for _ in range(m)] for _ in range(n)]
        st = dict(op='data', rows=rows)
        self.rows = rows
        if (len(rows), len(rows[0])) != (n, m):
            o, a = _pool(rng, len(rows), len(rows[0]))
            st['objs'], st['attrs'] = o, a
            self.objs, self.attrs = _dflt(o, len(rows)), _dflt(a, len(rows[0]))
            self.steps.append(st)
            for s in self.slots:        # index lists of the caller must stay inside the new table
                if s[0] == 'x':
                    d = self.dim(self.slot_dom[s])
                    self.slots[s] = [x % d for x in self.slots[s]]
                    self.steps.append(dict(op='mut', slot=s, v=list(self.slots[s])))
                else:
                    self.slots[s] = self.fresh(s)
                    self.steps.append(dict(op='mut', slot=s, v=list(self.slots[s])))
        else:
            self.steps.append(st)

    def run(self, nsteps):
        rng, w = self.rng, self.w
        acts = [a for a in ('burst', 'call', 'oneshot', 'rename', 'data', 'scribble', 'sandwich', 'read')
                for _ in range(w.get(a, 0))]
        while len(self.steps) < nsteps:
            a = rng.choice(acts)
            if a == 'burst':
                self.burst()
            elif a == 'call':
                self.call(slot_p=0.3)
            elif a == 'oneshot':
                op, kind, mono = rng.choice(OPS8[4:])
                self.call(op, kind, mono, slot_p=0.0, oneshot=True)
            elif a == 'rename':
                self.rename()
                if rng.random() < 0.7:
                    op, kind, mono = rng.choice(OPS8[4:])
                    self.call(op, kind, mono, slot_p=0.4)
            elif a == 'data':
                self.newdata()
                if rng.random() < 0.7:
                    self.call(slot_p=0.4)
            elif a == 'sandwich':
                # ask; change the context through a public setter or merely read it; ask exactly the same again
                # (literal arguments are rebuilt from their values, one-shot feeds included)
                st = self.call(slot_p=0.3) if rng.random() < 0.5 else self.call(*rng.choice(OPS8[4:]), slot_p=0.3)
                for _ in range(rng.randint(1, 2)):
                    r = rng.random()
                    if r < 0.35:
                        self.rename()
                    elif r < 0.7:
                        self.newdata(reshape=False)
                    else:
                        self.steps.append(dict(op='read', what=rng.randrange(64)))
                n, m = self.dims()
                sel = st['sel']
                effs = self.slots[sel['s']] if 's' in sel else _eff(sel, {})
                effi = self.idx_of(effs, 'a' if st['kind'] in ('ext', 'extm') else 'o') if st['op'] == 'n' else effs
                if -1 in effi or not _len_trap(st['kind'], st.get('mono'), effi, n, m):
                    self.steps.append(dict(st))
            elif a == 'read':
                self.steps.append(dict(op='read', what=rng.randrange(64)))
            elif self.steps and self.steps[-1]['op'] in ('i', 'n'):
                self.steps.append(dict(op='scribble'))
                self.steps.append(dict(self.steps[-2]))      # ask the same thing again
        out = dict(stream=self.stream, hist=1, be=self.be, rows=self.rows0, objs=self.objs0, attrs=self.attrs0,
                   slots=self.slots0, steps=self.steps)
        if self.ctor != 'plain':
            out['ctor'] = self.ctor
        return out


PROFILES = {
    'history-alias': dict(burst=6, call=1, scribble=1),
    'history-oneshot': dict(call=1, oneshot=6, rename=1, unknown=0.12),
    'history-rename': dict(burst=1, call=1, oneshot=1, rename=3, data=2, sandwich=5, scribble=1, read=1, unknown=0.2),
    'history-mixed': dict(burst=3, call=3, oneshot=2, rename=1, data=1, sandwich=2, scribble=1, read=1, ctor=0.5),
}

WIDE = (13, 14, 17, 33, 64, 65, 66, 70)
HUGE = (129, 257, 300)


def _soft_oneshot_index(rng, rows, be):
    """By-index operators given a one-shot iterator: they call len() (TypeError) - whatever they do, a value that is
    returned must be the prime set.  Combinations in which the unchanged tree silently returns a wrong value (reported as
    a finding, not explored): one-shot base on BinTableLists.extension*_i and on BinTableBitarray.intention*_i."""
    n, m = len(rows), len(rows[0])
    steps = []
    for kind in ('ext', 'extm', 'int', 'intm'):
        ds, db = (m, n) if kind in ('ext', 'extm') else (n, m)
        for f in ONESHOT:
            sel = _rsel(rng, ds, dup=False)
            if kind == 'extm' and len(sel) == m:
                sel = sel[:-1]
            steps.append(dict(_step('i', kind, None, _lit(sel, f), None if rng.random() < 0.5 else _lit(_rsel(rng, db))), soft=1))
            bad = (be == 'BinTableLists' and kind in ('ext', 'extm')) or (be == 'BinTableBitarray' and kind in ('int', 'intm'))
            if not bad:
                steps.append(dict(_step('i', kind, None, _lit(sel), _lit(_rsel(rng, db), f)), soft=1))
    return dict(stream='oneshot-index', hist=1, be=be, rows=rows, objs=None, attrs=None, slots={}, steps=steps)


def _wide_table(rng, big_objs, big_attrs):
    n = rng.choice(WIDE) if big_objs else rng.randint(1, 6)
    m = rng.choice(WIDE) if big_attrs else rng.randint(1, 6)
    if big_objs != big_attrs and rng.random() < 0.35:      # beyond one byte of index
        n, m = (rng.choice(HUGE), m) if big_objs else (n, rng.choice(HUGE))
    d = rng.choice((0.1, 0.5, 0.9))
    rows = [[int(rng.random() < d) for _ in range(m)] for _ in range(n)]
    if rng.random() < 0.3:      # everything true except in the last positions (beyond one machine word / two digits)
        rows = [[1] * m for _ in range(n)]
        rows[n - 1][m - 1] = 0
        rows[rng.randrange(n)][rng.randrange(m)] = 0
    return rows


def _wide_calls(rng, rows, be):
    """single calls on wide / tall tables: selections and base sets that reach the last rows / columns"""
    n, m = len(rows), len(rows[0])
    objs, attrs = _pool(rng, n, m, rng.choice(('gm', 'default', 'revdigits')))
    steps = []
    for op, kind, mono in OPS8:
        ds, db = (m, n) if kind in ('ext', 'extm') else (n, m)
        for _ in range(2):
            k = rng.choice((1, 2, ds // 2, ds - 1, ds))
            sel = rng.sample(range(ds), max(0, min(ds, k)))
            if rng.random() < 0.3 and len(sel) + 1 < ds:
                sel.append(sel[0])                   # a repeated index
            if kind == 'extm' and len(sel) == m and op == 'i' and rng.random() < 0.5:
                sel = sel[:-1]
            base = None
            if not (op == 'n' and kind == 'int') and rng.random() < 0.7:
                base = rng.sample(range(db), rng.randint(0, db))
                if rng.random() < 0.3 and base:
                    base.append(base[0])
            if op == 'n':
                ns, nb = (_dflt(attrs, m), _dflt(objs, n)) if kind == 'ext' else (_dflt(objs, n), _dflt(attrs, m))
                steps.append(_step(op, kind, mono, _lit([ns[i] for i in sel], rng.choice(SEL_FEEDS_N)),
                                   None if base is None else _lit([nb[i] for i in base], rng.choice(BASE_FEEDS_N))))
            else:
                steps.append(_step(op, kind, mono, _lit(sel, rng.choice(_sel_feeds_i(kind, be))),
                                   None if base is None else _lit(base, rng.choice(_base_feeds_i(kind, be)))))
    return dict(stream='wide', hist=1, be=be, rows=rows, objs=objs, attrs=attrs, slots={}, steps=steps)


def _containers(rng, rows, be):
    """every admissible feed for the selection and for the base set of every by-index operator, repeated / unsorted indexes"""
    n, m = len(rows), len(rows[0])
    steps = []
    for kind in ('ext', 'extm', 'int', 'intm'):
        ds, db = (m, n) if kind in ('ext', 'extm') else (n, m)
        for f in sorted(set(_sel_feeds_i(kind, be))):
            for _t in range(10):
                sel = _rsel(rng, ds)
                if not _len_trap(kind, None, _eff(_lit(sel, f), {}), n, m):
                    break
            else:
                sel = []
            steps.append(_step('i', kind, None, _lit(sel, f), None if rng.random() < 0.4 else _lit(_rsel(rng, db))))
        for f in sorted(set(_base_feeds_i(kind, be))):
            for _t in range(10):
                sel = _rsel(rng, ds)
                if not _len_trap(kind, None, sel, n, m):
                    break
            else:
                sel = []
            steps.append(_step('i', kind, None, _lit(sel), _lit(_rsel(rng, db), f)))
    return dict(stream='containers', hist=1, be=be, rows=rows, objs=None, attrs=None, slots={}, steps=steps)


def _hist_streams(tier, seed, boost):
    rng = random.Random(seed * 15485863 + 77)
    quick = tier == 'quick'
    mult = (1 if quick else 8) * (3 if boost else 1)
    # complete small scope
    for rows in G.tables_upto(2, 2):
        for be in BACKENDS:
            yield from _exh_alias(rows, be)
            yield from _exh_oneshot(rows, be)
    # seeded random histories
    for stream, count, nmax, nsteps in (('history-alias', 700, 6, 14), ('history-oneshot', 300, 5, 12),
                                        ('history-rename', 500, 5, 14), ('history-mixed', 300, 7, 18)):
        for _ in range(count * mult):
            rows = G.random_table(rng, nmax, nmax)
            for be in BACKENDS:
                yield _Hist(rng, rows, be, stream, PROFILES[stream]).run(nsteps)
    for _ in range(150 * mult):
        rows = G.random_table(rng, 8, 8)
        for be in BACKENDS:
            yield _containers(rng, rows, be)
            yield _soft_oneshot_index(rng, rows, be)
    # shape extremes: >= 13 and > 64 objects / attributes
    for k in range(90 * mult):
        rows = _wide_table(rng, k % 3 != 0, k % 3 != 1)
        for be in BACKENDS:
            yield _wide_calls(rng, rows, be)
            yield _containers(rng, rows, be)
            if k % 2 == 0:
                yield _Hist(rng, rows, be, 'history-wide', PROFILES['history-mixed']).run(14)

"""C02 — exact lattice construction returns precisely the set of all formal concepts."""
import itertools
import json
import os
import random

import gen as G
from implutil import BACKENDS, SHORT, ints, make_context, exc_name

RULE = ('case = (table, backend); every case runs all exact miners (from_context default / CbO / Lindig / Sofia with '
        'L_max = #concepts, lindig_algorithm with iterate_extents True/False, close_by_one, close_by_one_objectwise, '
        'close_by_one_objectwise_fbarray, sofia with L_max = #concepts); exhaustive over all tables of the tier scope x 3 '
        'backends, then seeded random larger tables incl. the structured families of gen.py (nominal/ordinal/'
        'contranominal scales, duplicate rows/columns, all-true/all-false, empty row, full column); non-trivial = table '
        'neither all-true nor all-false with at least 3 concepts; distinct = distinct (table, backend)')
EXHAUSTIVE = {'quick': 'all tables n,m<=3 (682) x 3 backends x 10 miner options',
              'thorough': 'all tables with n*m<=12, n,m<=4 (9 386) x 3 backends x 10 miner options'}
EXPLANATION = ('the implementation\'s concept lists are judged by the Lean oracle (Spec.isConcept / Spec.allConcepts: every '
               'pair a concept, none twice, none missing); the models\' own outputs are compared with the oracle too '
               '(kind harness) and, where Python\'s enumeration order is deterministic, with the implementation\'s order '
               '(kind correspondence). Theorems Fca.C02.* prove every miner model exact for all tables, all backends and '
               'all iteration orders (CbO both variants + dispatch, Lindig both directions, non-binding Sofia, from_context).')
ASSUMPTIONS = ['the Lindig-based options (default, Lindig, lindig_algorithm) are run only on tables with at most 130 concepts: '
               'the implementation is super-linear there (512 concepts take 2 minutes per call)',
               'tables have n>=1 rows and m>=1 columns; object/attribute names pairwise distinct',
               'Sofia is exact only when L_max >= number of concepts (the harness passes L_max = that number) and min_supp=0',
               "algo='LCM' is outside the property (skmine is unusable in this environment)",
               'enumeration order of the concepts is not part of the property']
TRUSTED = ['BinTable.T / FormalContext.T and to_bin_attr_extents are modelled generically (not per backend)',
           'POSet/ConceptLattice constructor keeps the concept list it is given (observed through list(lattice))']
CHUNK = 60
REQUESTS_NEED_IMPL = True

OBJ = ['g%d' % i for i in range(16)]
ATT = list('abcdefghijklmnop')

# options whose enumeration order is deterministic in Python (emission order / sort_concepts order)
ORDERED = ('fba', 'obj', 'cbo', 'CbO', 'default', 'Lindig', 'Sofia')
UNORDERED = ('lindigT', 'lindigF', 'sofia')
OPTIONS = ORDERED + UNORDERED
# the implementation's lindig_algorithm / ConceptLattice(children_dict=...) is super-linear in the number of concepts
# (measured: 128 concepts 0.2 s, 256: 2.5 s, 512: 124 s), so the Lindig-based options are run up to this many concepts
LINDIG_OPTS = ('default', 'Lindig', 'lindigT', 'lindigF')
LINDIG_CAP = 130


def n_concepts(rows):
    """number of closed attribute sets (brute force over the smaller side); only used to choose L_max."""
    n, m = len(rows), len(rows[0])
    if m > n:
        rows = [[rows[i][j] for i in range(n)] for j in range(m)]
        n, m = m, n
    cols = [sum(1 << g for g in range(n) if rows[g][a]) for a in range(m)]
    full = (1 << n) - 1
    exts = {full}
    for c in cols:
        exts |= {e & c for e in exts}
    return len(exts)


def _case(rows, be, stream, codes):
    return dict(stream=stream, be=be, rows=rows, codes=codes)


def _corpus():
    d = os.path.join(os.path.dirname(os.path.dirname(os.path.dirname(os.path.abspath(__file__)))), 'corpus', 'C02')
    if os.path.isdir(d):
        for f in sorted(os.listdir(d)):
            if f.endswith('.json'):
                c = json.load(open(os.path.join(d, f)))
                c = c.get('case', c)
                c['stream'] = 'corpus'
                yield c


def gen(tier, seed, boost=False):
    rng = random.Random(seed * 1000003 + 202)
    yield from _corpus()
    for rows in G.tables_upto(3, 3):
        for be in BACKENDS:
            yield _case(rows, be, 'exhaustive', [0, 1, rng.randrange(2, 40)])
    if tier == 'thorough' or boost:
        for rows in G.tables_upto(4, 4, cells=12):
            if len(rows) <= 3 and len(rows[0]) <= 3:
                continue
            for be in BACKENDS:
                yield _case(rows, be, 'exhaustive-large', [0, rng.randrange(1, 40)])
    nrand = 160 if tier == 'quick' else 1500
    if boost:
        nrand *= 3
    big = 7 if tier == 'quick' else 10
    for k in range(nrand):
        rows = G.random_table(rng, big, big)
        for be in BACKENDS:
            yield _case(rows, be, 'random', [0, rng.randrange(1, 60), rng.randrange(1, 60)])
        if k % 8 == 0:
            yield dict(stream='malformed', be=rng.choice(BACKENDS), rows=rows, codes=[0], bad_algo=rng.choice(['cbo', 'FCbO', '']))


def _rec(c):
    return [ints(c.extent_i), ints(c.intent_i), [str(x) for x in c.extent], [str(x) for x in c.intent]]


def impl(c):
    from fcapy.lattice import ConceptLattice
    from fcapy.algorithms import concept_construction as cca
    rows = c['rows']
    n, m = len(rows), len(rows[0])
    K = make_context(rows, c['be'], OBJ[:n], ATT[:m])
    if 'bad_algo' in c:
        try:
            return {'bad': {'ok': [_rec(x) for x in ConceptLattice.from_context(K, algo=c['bad_algo'])]}}
        except Exception as e:
            return {'bad': {'err': exc_name(e)}}
    lmax = n_concepts(rows)
    opts = {
        'default': lambda: ConceptLattice.from_context(K),
        'CbO': lambda: ConceptLattice.from_context(K, algo='CbO'),
        'Lindig': lambda: ConceptLattice.from_context(K, algo='Lindig'),
        'Sofia': lambda: ConceptLattice.from_context(K, algo='Sofia', L_max=lmax),
        'lindigT': lambda: cca.lindig_algorithm(K, iterate_extents=True),
        'lindigF': lambda: cca.lindig_algorithm(K, iterate_extents=False),
        'cbo': lambda: cca.close_by_one(K),
        'obj': lambda: cca.close_by_one_objectwise(K),
        'fba': lambda: cca.close_by_one_objectwise_fbarray(K),
        'sofia': lambda: cca.sofia(K, L_max=lmax),
    }
    out = {'lmax': lmax}
    for name in OPTIONS:
        if lmax > LINDIG_CAP and name in LINDIG_OPTS:
            out[name] = {'skipped': True}
            continue
        try:
            out[name] = {'ok': [_rec(x) for x in opts[name]()]}
        except Exception as e:
            out[name] = {'err': exc_name(e), 'msg': str(e)[:200]}
    return out


def requests(c, io):
    rows = c['rows']
    n, m = len(rows), len(rows[0])
    base = dict(be=SHORT[c['be']], rows=rows, w=m, objs=OBJ[:n], attrs=ATT[:m])
    lmax = io.get('lmax', n_concepts(rows))
    run = dict(base, op='C02.run', lmax=lmax, codes=c.get('codes', [0]), nolindig=lmax > LINDIG_CAP)
    lists = []
    for name in OPTIONS:
        r = io.get(name, {})
        lists.append([[x[0], x[1]] for x in r['ok']] if 'ok' in r else [])
    return [run, dict(op='C02.judge', rows=rows, w=m, lists=lists)]


def _keys(cs):
    return sorted((sorted(x[0]), sorted(x[1])) for x in cs)


def judge(c, io, rep):
    run, jd = rep
    rows = c['rows']
    n, m = len(rows), len(rows[0])
    if 'bad_algo' in c:
        if io['bad'] == run['other']:
            return dict(ok=True)
        return dict(ok=False, kind='correspondence', detail=f'unsupported algo: impl {io["bad"]} model {run["other"]}')
    want = [(a, b) for a, b in run['all']]
    if io['lmax'] != len(want) or jd['n'] != len(want):
        return dict(ok=False, kind='harness', detail=f'L_max chosen {io["lmax"]} but the oracle has {len(want)} concepts')
    # 1. the models against the oracle (the theorems say they agree)
    model = dict(fba=run['fba'], obj=run['obj'], cbo=run['cbo'], CbO=run['CbO'])
    per_code = run['orders']
    capped = io['lmax'] > LINDIG_CAP
    for o in per_code:
        for k in ('lindigT', 'lindigF', 'sofia', 'default', 'Lindig', 'Sofia'):
            r = o[k]
            if capped and k in LINDIG_OPTS:
                continue
            if 'ok' not in r or _keys(r['ok']) != [(a, b) for a, b in want]:
                return dict(ok=False, kind='harness', detail=f'model {k} (order code {o["code"]}) differs from the oracle: {str(r)[:200]}')
            model.setdefault(k, r)
    for k in ('fba', 'obj', 'cbo', 'CbO'):
        r = model[k]
        if 'ok' not in r or _keys(r['ok']) != [(a, b) for a, b in want]:
            return dict(ok=False, kind='harness', detail=f'model {k} differs from the oracle: {str(r)[:200]}')
    # 2. the implementation against the oracle (verdicts computed in Lean) and the name views
    for name, (sound, nodup, complete) in zip(OPTIONS, jd['verdicts']):
        r = io[name]
        if 'skipped' in r:
            continue
        if 'err' in r:
            return dict(ok=False, kind='property', opt=name, what='err:' + r['err'],
                        detail=f'{name} raised {r["err"]}: {r.get("msg", "")}')
        if not (sound and nodup and complete):
            what = 'unsound' if not sound else ('duplicate' if not nodup else 'incomplete')
            return dict(ok=False, kind='property', opt=name, what=what,
                        detail=f'{name}: {what}; returned {_keys(r["ok"])[:12]} expected {want[:12]}')
        for x in r['ok']:
            en, inn = [OBJ[i] for i in x[0]], [ATT[j] for j in x[1]]
            if sorted(en) != sorted(x[2]) or sorted(inn) != sorted(x[3]) or len(set(x[0])) != len(x[0]) \
                    or len(set(x[1])) != len(x[1]):
                return dict(ok=False, kind='property', opt=name, what='views',
                            detail=f'{name}: name view {x[2]}/{x[3]} does not denote the index view {x[0]}/{x[1]}')
    # 3. order-level correspondence where Python's order is deterministic
    for name in ORDERED:
        if 'skipped' in io[name]:
            continue
        if io[name]['ok'] != model[name]['ok']:
            return dict(ok=False, kind='correspondence', opt=name, what='order',
                        detail=f'{name}: same concept set, different enumeration: impl {io[name]["ok"][:6]} model {model[name]["ok"][:6]}')
    return dict(ok=True)


def nontrivial(c):
    return 'bad_algo' not in c and G.is_mixed(c['rows']) and n_concepts(c['rows']) >= 3


def key(c):
    return [c['rows'], c['be'], c.get('bad_algo')]


def branch(c, io, rep):
    n, m = len(c['rows']), len(c['rows'][0])
    shape = 'wide' if n < m else ('tall' if n > m else 'square')
    k = io.get('lmax', 0)
    return [c['stream'], c['be'], 'shape:' + shape, 'lindig:' + ('skipped' if k > LINDIG_CAP else 'run'), 'concepts:' + ('1' if k <= 1 else '2-4' if k <= 4 else '5-16' if k <= 16 else '17+')]


def signature(c, io, rep, v):
    return f"C02:{v.get('opt', '?')}:{c['be']}:{v.get('what', v.get('kind'))}"


def shrink(c):
    rows = c['rows']
    n, m = len(rows), len(rows[0])
    if n > 1:
        for i in range(n):
            yield dict(c, rows=rows[:i] + rows[i + 1:])
    if m > 1:
        for j in range(m):
            yield dict(c, rows=[r[:j] + r[j + 1:] for r in rows])
    for i in range(n):
        for j in range(m):
            if rows[i][j]:
                r2 = [list(r) for r in rows]
                r2[i][j] = 0
                yield dict(c, rows=r2)

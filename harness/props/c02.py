"""C02 — exact lattice construction returns precisely the set of all formal concepts."""
import itertools
import json
import os
import random

import gen as G
from implutil import BACKENDS, SHORT, ints, make_context, exc_name

RULE = ('case = (table, backend); every case runs all exact miners (from_context default / CbO / Lindig / Sofia with '
        'L_max = #concepts, lindig_algorithm with iterate_extents True/False, close_by_one, close_by_one_objectwise, '
        'close_by_one_objectwise_fbarray, sofia with L_max = #concepts); exhaustive over all tables of the tier scope x 3 '
        'backends, then seeded random larger tables incl. the structured families of gen.py (nominal/ordinal/'
        'contranominal scales, duplicate rows/columns, all-true/all-false, empty row, full column); non-trivial = table '
        'neither all-true nor all-false with at least 3 concepts; distinct = distinct (table, backend, history). '
        'Streams: two-digit = directed tables with 13..16 objects and/or attributes (all-pairs scales, nominal/ordinal '
        'scales, sparse and dense random tables, both orientations, every Lindig direction); history = ONE context object '
        'used by every miner, renamed through the public setters object_names/attribute_names (fresh names, rotation of the '
        'old names, swap, caller-side mutation of the list that was assigned), touched by .T / hash_fixed, and used by every '
        'miner again; each build is judged by the oracle and by the names the context carries at that moment')
EXHAUSTIVE = {'quick': 'all tables n,m<=3 (682) x 3 backends x 12 miner options, once on a fresh context and once as the '
                       '3-phase history build-all / rename objects+attributes / build-all / rotate names / build-all',
              'thorough': 'all tables with n*m<=12, n,m<=4 (9 386) x 3 backends x 12 miner options; histories as in quick'}
EXPLANATION = ('the implementation\'s concept lists are judged by the Lean oracle (Spec.isConcept / Spec.allConceptsFast = brute force over the '
               'smaller side, proved equal to Spec.allConcepts by Fca.C02.oracle_fast_exact: every '
               'pair a concept, none twice, none missing); the models\' own outputs are compared with the oracle too '
               '(kind harness) and, where Python\'s enumeration order is deterministic, with the implementation\'s order '
               '(kind correspondence). Theorems Fca.C02.* prove every miner model exact for all tables, all backends and '
               'all iteration orders (CbO both variants + dispatch, Lindig both directions, non-binding Sofia, from_context).')
ASSUMPTIONS = ['histories change a context only through its public name setters (the relation of a FormalContext has no setter); '
               'each build is judged against the names read back from the context at that moment',
               'the Lindig-based options (default, Lindig, lindig_algorithm) are run only on tables with at most 140 concepts: '
               'the implementation is super-linear there (512 concepts take 2 minutes per call)',
               'tables have n>=1 rows and m>=1 columns; object/attribute names pairwise distinct',
               'Sofia is exact only when L_max >= number of concepts (the harness passes L_max = that number) and min_supp=0',
               "algo='LCM' is outside the property (skmine is unusable in this environment)",
               'enumeration order of the concepts is not part of the property']
TRUSTED = ['BinTable.T / FormalContext.T and to_bin_attr_extents are modelled generically (not per backend)',
           'POSet/ConceptLattice constructor keeps the concept list it is given (observed through list(lattice))']
CHUNK = 60
REQUESTS_NEED_IMPL = True

OBJ = ['g%d' % i for i in range(16)] + ['g%d' % i for i in range(16, 400)]
ATT = list('abcdefghijklmnop') + ['a%d' % j for j in range(16, 400)]

# options whose enumeration order is deterministic in Python (emission order / sort_concepts order)
ORDERED = ('fba', 'obj', 'cbo', 'CbO', 'default', 'Lindig', 'LindigT', 'LindigF', 'Sofia')
UNORDERED = ('lindigT', 'lindigF', 'sofia')
OPTIONS = ORDERED + UNORDERED
# the implementation's lindig_algorithm / ConceptLattice(children_dict=...) is super-linear in the number of concepts
# (measured: 128 concepts 0.2 s, 256: 2.5 s, 512: 124 s), so the Lindig-based options are run up to this many concepts
LINDIG_OPTS = ('default', 'Lindig', 'LindigT', 'LindigF', 'lindigT', 'lindigF')
LINDIG_CAP = 140


def n_concepts(rows):
    """number of closed attribute sets (brute force over the smaller side); only used to choose L_max."""
    n, m = len(rows), len(rows[0])
    if m > n:
        rows = [[rows[i][j] for i in range(n)] for j in range(m)]
        n, m = m, n
    cols = [sum(1 << g for g in range(n) if rows[g][a]) for a in range(m)]
    full = (1 << n) - 1
    exts = {full}
    for c in cols:
        exts |= {e & c for e in exts}
    return len(exts)


def _case(rows, be, stream, codes):
    return dict(stream=stream, be=be, rows=rows, codes=codes)


def _corpus():
    d = os.path.join(os.path.dirname(os.path.dirname(os.path.dirname(os.path.abspath(__file__)))), 'corpus', 'C02')
    if os.path.isdir(d):
        for f in sorted(os.listdir(d)):
            if f.endswith('.json'):
                c = json.load(open(os.path.join(d, f)))
                c = c.get('case', c)
                c['stream'] = 'corpus'
                yield c


# ---- (H3) tables with two-digit indexes ---------------------------------------------------------------------------

def _transpose(rows):
    return [[rows[i][j] for i in range(len(rows))] for j in range(len(rows[0]))]


def pairs_scale(k, subsets):
    """k objects; one attribute per object and one per listed subset: every singleton and every listed subset
    (pairs, triples) is an extent, so many small extents with one- and two-digit members exist side by side."""
    cols = [[int(g == i) for g in range(k)] for i in range(k)] + [[int(g in sub) for g in range(k)] for sub in subsets]
    return _transpose(cols)


def two_digit_tables(rng, tier):
    """directed tables whose iterated side has 13..16 elements; every table is also used transposed."""
    ks = (13, 14) if tier == 'quick' else (13, 14, 15, 16)
    for k in ks:
        yield 'allpairs', pairs_scale(k, list(itertools.combinations(range(k), 2)))
    for k in (13, 14, 15, 16):
        # pairs and triples over a random half of the objects (always some low and some high indexes)
        low = rng.sample(range(0, 10), 4)
        high = rng.sample(range(10, k), min(3, k - 10))
        pool = sorted(low + high)
        subs = [c for r in (2, 3) for c in itertools.combinations(pool, r) if rng.random() < 0.6]
        yield 'subsets', pairs_scale(k, subs)
        yield 'ordinal', [[int(j <= i) for j in range(k)] for i in range(k)]
        yield 'nominal+', [[int(j == i or (j == k and i % 3 == 0) or (j == k + 1 and i in (1, 2, 12))) for j in range(k + 2)]
                           for i in range(k)]
    nrand = 6 if tier == 'quick' else 40
    made = 0
    while made < nrand:
        n = rng.randint(13, 16)
        m = rng.randint(13, 16) if made % 3 == 2 else rng.randint(2, 6)
        d = rng.choice((0.1, 0.2, 0.85, 0.93)) if m >= 13 else rng.choice((0.2, 0.5, 0.8))
        t = [[int(rng.random() < d) for _ in range(m)] for _ in range(n)]
        if n_concepts(t) <= LINDIG_CAP:
            made += 1
            yield 'random', t


# ---- (H1/H2) histories on one context object ------------------------------------------------------------------------

TOUCH = (['T'], ['hash'], ['TT'])


def full_history():
    """every miner, rename both, every miner, rotate the object names / swap attribute names, every miner"""
    ops = [['T'], ['hash']]
    ops += [['build', o] for o in OPTIONS]
    ops += [['rename', 'both', 'fresh:x']]
    ops += [['build', o] for o in OPTIONS]
    ops += [['rename', 'obj', 'rot'], ['rename', 'att', 'swap']]
    ops += [['build', o] for o in OPTIONS]
    return ops


def random_history(rng, length):
    ops = []
    k = 0
    for _ in range(length):
        r = rng.random()
        if r < 0.45:
            ops.append(['build', rng.choice(OPTIONS)])
        elif r < 0.6:
            ops.append(list(rng.choice(TOUCH)))
        else:
            k += 1
            ops.append(['rename', rng.choice(('obj', 'att', 'both')),
                        rng.choice(('fresh:%d' % k, 'rot', 'swap', 'alias:%d' % k, 'none'))])
    # always end with a rename followed by every miner
    k += 1
    ops.append(['rename', 'both', rng.choice(('fresh:%d' % k, 'rot', 'alias:%d' % k))])
    tail = list(OPTIONS)
    rng.shuffle(tail)
    return ops + [['build', o] for o in tail]


def gen(tier, seed, boost=False):
    rng = random.Random(seed * 1000003 + 202)
    yield from _corpus()
    # two-digit indexes (directed; at most LINDIG_CAP concepts each).  They are the costly cases, so they are
    # interleaved with the cheap history cases (one per ~45) to spread them over the workers' chunks
    td = []
    for i, (fam, rows) in enumerate(two_digit_tables(rng, tier)):
        for orient, r in (('', rows), ('T', _transpose(rows))):
            bes = BACKENDS if tier == 'thorough' else (BACKENDS[(i + (orient == 'T')) % 3],)
            for be in bes:
                codes = [rng.randrange(0, 60)] if fam == 'allpairs' else [0, rng.randrange(1, 60)]
                td.append(dict(_case(r, be, 'two-digit', codes), fam=fam + orient))
    td.reverse()
    # histories: exhaustive small scope
    k = 0
    for rows in G.tables_upto(3, 3):
        for be in BACKENDS:
            if td and k % 45 == 0:
                yield td.pop()
            k += 1
            yield dict(stream='history', be=be, rows=rows, ops=full_history())
    while td:
        yield td.pop()
    for rows in G.tables_upto(3, 3):
        for be in BACKENDS:
            yield _case(rows, be, 'exhaustive', [0, 1, rng.randrange(2, 40)])
    if tier == 'thorough' or boost:
        for k, rows in enumerate(G.tables_upto(4, 4, cells=12)):
            if len(rows) <= 3 and len(rows[0]) <= 3:
                continue
            # a boosted quick run (drifted source) visits every table once, cycling through the backends
            for be in (BACKENDS if tier == 'thorough' else (BACKENDS[k % 3],)):
                yield _case(rows, be, 'exhaustive-large', [0, rng.randrange(1, 40)])
    nrand = 160 if tier == 'quick' else 1500
    if boost:
        nrand *= 2
    big = 7 if tier == 'quick' else 10
    for k in range(nrand):
        rows = G.random_table(rng, big, big)
        for be in BACKENDS:
            yield _case(rows, be, 'random', [0, rng.randrange(1, 60), rng.randrange(1, 60)])
        if k % 8 == 0:
            yield dict(stream='malformed', be=rng.choice(BACKENDS), rows=rows, codes=[0], bad_algo=rng.choice(['cbo', 'FCbO', '']))
        if k % 2 == 0:
            hr = G.random_table(rng, big, big)
            if k % 16 == 0:   # a history on a table with two-digit indexes on one side
                hw = rng.randint(2, 4)
                hr = [[int(rng.random() < 0.5) for _ in range(hw)] for _ in range(rng.randint(13, 16))]
                if k % 32 == 0:
                    hr = _transpose(hr)
            yield dict(stream='history-random', be=rng.choice(BACKENDS), rows=hr, ops=random_history(rng, rng.randint(3, 9)))


def _rec(c):
    return [ints(c.extent_i), ints(c.intent_i), [str(x) for x in c.extent], [str(x) for x in c.intent]]


def _miners(K, lmax):
    from fcapy.lattice import ConceptLattice
    from fcapy.algorithms import concept_construction as cca
    return {
        'default': lambda: ConceptLattice.from_context(K),
        'CbO': lambda: ConceptLattice.from_context(K, algo='CbO'),
        'Lindig': lambda: ConceptLattice.from_context(K, algo='Lindig'),
        'LindigT': lambda: ConceptLattice.from_context(K, algo='Lindig', iterate_extents=True),
        'LindigF': lambda: ConceptLattice.from_context(K, algo='Lindig', iterate_extents=False),
        'Sofia': lambda: ConceptLattice.from_context(K, algo='Sofia', L_max=lmax),
        'lindigT': lambda: cca.lindig_algorithm(K, iterate_extents=True),
        'lindigF': lambda: cca.lindig_algorithm(K, iterate_extents=False),
        'cbo': lambda: cca.close_by_one(K),
        'obj': lambda: cca.close_by_one_objectwise(K),
        'fba': lambda: cca.close_by_one_objectwise_fbarray(K),
        'sofia': lambda: cca.sofia(K, L_max=lmax),
    }


def _run_opt(opts, name, lmax):
    if lmax > LINDIG_CAP and name in LINDIG_OPTS:
        return {'skipped': True}
    try:
        return {'ok': [_rec(x) for x in opts[name]()]}
    except Exception as e:
        return {'err': exc_name(e), 'msg': str(e)[:200]}


def _new_names(cur, tag, prefix):
    cur = list(cur)
    if tag.startswith('fresh:') or tag.startswith('alias:'):
        return ['%s%s_%d' % (prefix, tag.split(':')[1], i) for i in range(len(cur))]
    if tag == 'rot':
        return cur[1:] + cur[:1]
    if tag == 'swap':
        return cur[1:2] + cur[:1] + cur[2:]
    return cur      # 'none': re-assign the same names


def _impl_history(c):
    """one context object; every build is recorded together with the names the context carries at that moment"""
    from fcapy.context import FormalContext
    rows = c['rows']
    n, m = len(rows), len(rows[0])
    K = FormalContext(data=[[bool(v) for v in r] for r in rows], object_names=OBJ[:n], attribute_names=ATT[:m],
                      backend=c['be'])
    lmax = n_concepts(rows)
    opts = _miners(K, lmax)
    hist = []
    for op in c['ops']:
        if op[0] == 'build':
            r = _run_opt(opts, op[1], lmax)
            r.update(opt=op[1], objs=[str(x) for x in K.object_names], attrs=[str(x) for x in K.attribute_names])
            hist.append(r)
        elif op[0] == 'T':
            K.T
        elif op[0] == 'TT':
            K.T.T
        elif op[0] == 'hash':
            K.hash_fixed()
        elif op[0] == 'rename':
            for which, attr, prefix in (('obj', 'object_names', 'o'), ('att', 'attribute_names', 'm')):
                if op[1] in (which, 'both'):
                    new = _new_names(getattr(K, attr), op[2], prefix)
                    setattr(K, attr, new)
                    if op[2].startswith('alias:'):
                        # the caller keeps and mutates the list object it passed to the setter
                        new.reverse()
                        new.append('zz')
    return {'lmax': lmax, 'hist': hist}


def impl(c):
    if 'ops' in c:
        return _impl_history(c)
    from fcapy.lattice import ConceptLattice
    rows = c['rows']
    n, m = len(rows), len(rows[0])
    K = make_context(rows, c['be'], OBJ[:n], ATT[:m])
    if 'bad_algo' in c:
        try:
            return {'bad': {'ok': [_rec(x) for x in ConceptLattice.from_context(K, algo=c['bad_algo'])]}}
        except Exception as e:
            return {'bad': {'err': exc_name(e)}}
    lmax = n_concepts(rows)
    opts = _miners(K, lmax)
    out = {'lmax': lmax}
    for name in OPTIONS:
        # a shrunk case may be restricted to the miners listed in 'only'
        out[name] = _run_opt(opts, name, lmax) if name in c.get('only', OPTIONS) else {'skipped': True}
    return out


def _pairs(r):
    return [[x[0], x[1]] for x in r['ok']] if 'ok' in r else []


def requests(c, io):
    rows = c['rows']
    n, m = len(rows), len(rows[0])
    if 'ops' in c:
        return [dict(op='C02.judge', rows=rows, w=m, lists=[_pairs(r) for r in io.get('hist', [])])]
    if c.get('lite'):      # shrunk cases: the implementation's lists against the oracle only (no model runs)
        return [dict(op='C02.judge', rows=rows, w=m, lists=[_pairs(io.get(name, {})) for name in OPTIONS])]
    base = dict(be=SHORT[c['be']], rows=rows, w=m, objs=OBJ[:n], attrs=ATT[:m])
    lmax = io.get('lmax', n_concepts(rows))
    run = dict(base, op='C02.run', lmax=lmax, codes=c.get('codes', [0]), nolindig=lmax > LINDIG_CAP)
    return [run, dict(op='C02.judge', rows=rows, w=m, lists=[_pairs(io.get(name, {})) for name in OPTIONS])]


def _keys(cs):
    return sorted((sorted(x[0]), sorted(x[1])) for x in cs)


def _judge_list(name, r, verdict, objs, attrs, nwant, where=''):
    """one returned concept list against the oracle's verdict and the names the context carries"""
    if 'skipped' in r:
        return None
    if 'err' in r:
        return dict(ok=False, kind='property', opt=name, what='err:' + r['err'],
                    detail=f'{where}{name} raised {r["err"]}: {r.get("msg", "")}')
    sound, nodup, complete = verdict
    if not (sound and nodup and complete):
        what = 'unsound' if not sound else ('duplicate' if not nodup else 'incomplete')
        return dict(ok=False, kind='property', opt=name, what=what,
                    detail=f'{where}{name}: {what}; returned {len(r["ok"])} concepts {_keys(r["ok"])[:12]}, {nwant} exist')
    for x in r['ok']:
        if any(i >= len(objs) for i in x[0]) or any(j >= len(attrs) for j in x[1]):
            return dict(ok=False, kind='property', opt=name, what='views', detail=f'{where}{name}: index out of range in {x[:2]}')
        en, inn = [objs[i] for i in x[0]], [attrs[j] for j in x[1]]
        if sorted(en) != sorted(x[2]) or sorted(inn) != sorted(x[3]) or len(set(x[0])) != len(x[0]) \
                or len(set(x[1])) != len(x[1]):
            return dict(ok=False, kind='property', opt=name, what='views',
                        detail=f'{where}{name}: name view {x[2]}/{x[3]} does not denote the index view {x[0]}/{x[1]} '
                               f'(the context\'s names are {objs} / {attrs})')
    return None


def judge(c, io, rep):
    rows = c['rows']
    n, m = len(rows), len(rows[0])
    if 'ops' in c:
        jd = rep[0]
        if io['lmax'] != jd['n']:
            return dict(ok=False, kind='harness', detail=f'harness counted {io["lmax"]} concepts, the oracle {jd["n"]}')
        for k, (r, v) in enumerate(zip(io['hist'], jd['verdicts'])):
            bad = _judge_list(r['opt'], r, v, r['objs'], r['attrs'], jd['n'], where=f'build #{k} of the history: ')
            if bad:
                return bad
        return dict(ok=True)
    if c.get('lite'):
        jd = rep[0]
        if io['lmax'] != jd['n']:
            return dict(ok=False, kind='harness', detail=f'harness counted {io["lmax"]} concepts, the oracle {jd["n"]}')
        for name, v in zip(OPTIONS, jd['verdicts']):
            bad = _judge_list(name, io[name], v, OBJ[:n], ATT[:m], jd['n'])
            if bad:
                return bad
        return dict(ok=True)
    run, jd = rep
    if 'bad_algo' in c:
        if io['bad'] == run['other']:
            return dict(ok=True)
        return dict(ok=False, kind='correspondence', detail=f'unsupported algo: impl {io["bad"]} model {run["other"]}')
    want = [(a, b) for a, b in run['all']]
    if io['lmax'] != len(want) or jd['n'] != len(want):
        return dict(ok=False, kind='harness', detail=f'L_max chosen {io["lmax"]} but the oracle has {len(want)} concepts')
    # 1. the models against the oracle (the theorems say they agree)
    model = dict(fba=run['fba'], obj=run['obj'], cbo=run['cbo'], CbO=run['CbO'])
    per_code = run['orders']
    capped = io['lmax'] > LINDIG_CAP
    for o in per_code:
        for k in ('lindigT', 'lindigF', 'sofia', 'default', 'Lindig', 'LindigT', 'LindigF', 'Sofia'):
            r = o[k]
            if capped and k in LINDIG_OPTS:
                continue
            if 'ok' not in r or _keys(r['ok']) != [(a, b) for a, b in want]:
                return dict(ok=False, kind='harness', detail=f'model {k} (order code {o["code"]}) differs from the oracle: {str(r)[:200]}')
            model.setdefault(k, r)
    for k in ('fba', 'obj', 'cbo', 'CbO'):
        r = model[k]
        if 'ok' not in r or _keys(r['ok']) != [(a, b) for a, b in want]:
            return dict(ok=False, kind='harness', detail=f'model {k} differs from the oracle: {str(r)[:200]}')
    # 2. the implementation against the oracle (verdicts computed in Lean) and the name views
    for name, v in zip(OPTIONS, jd['verdicts']):
        bad = _judge_list(name, io[name], v, OBJ[:n], ATT[:m], len(want))
        if bad:
            return bad
    # 3. order-level correspondence where Python's order is deterministic
    for name in ORDERED:
        if 'skipped' in io[name]:
            continue
        if io[name]['ok'] != model[name]['ok']:
            return dict(ok=False, kind='correspondence', opt=name, what='order',
                        detail=f'{name}: same concept set, different enumeration: impl {io[name]["ok"][:6]} model {model[name]["ok"][:6]}')
    return dict(ok=True)


def nontrivial(c):
    return 'bad_algo' not in c and G.is_mixed(c['rows']) and n_concepts(c['rows']) >= 3


def key(c):
    return [c['rows'], c['be'], c.get('bad_algo'), c.get('ops')]


def branch(c, io, rep):
    n, m = len(c['rows']), len(c['rows'][0])
    shape = 'wide' if n < m else ('tall' if n > m else 'square')
    k = io.get('lmax', 0)
    out = [c['stream'], c['be'], 'shape:' + shape, 'lindig:' + ('skipped' if k > LINDIG_CAP else 'run'),
           'concepts:' + ('1' if k <= 1 else '2-4' if k <= 4 else '5-16' if k <= 16 else '17+'),
           'maxdim:' + ('<=9' if max(n, m) <= 9 else '10-12' if max(n, m) <= 12 else '13+'),
           'mindim:' + ('13+' if min(n, m) >= 13 else '<13')]
    if 'fam' in c:
        out.append('two-digit:' + c['fam'])
    if 'ops' in c:
        out.append('history:renames=%d' % min(3, sum(1 for o in c['ops'] if o[0] == 'rename')))
    return out


def signature(c, io, rep, v):
    return f"C02:{v.get('opt', '?')}:{c['be']}:{v.get('what', v.get('kind'))}"


def _chunks(k):
    """index blocks to delete: halves, quarters, ... then (for short axes) single indexes"""
    out, size = [], k // 2
    while size >= 2:
        out += [list(range(a, min(k, a + size))) for a in range(0, k, size)]
        size //= 2
    if k <= 24:
        out += [[i] for i in range(k)]
    else:
        out += [[i] for i in range(0, k, max(1, k // 12))]
    return out


def shrink(c):
    """best-first and short candidate lists: the runner evaluates whole batches, and big tables are costly"""
    rows = c['rows']
    n, m = len(rows), len(rows[0])
    if 'bad_algo' in c:
        return
    if 'ops' in c:
        ops = c['ops']
        for blk in _chunks(len(ops)):
            yield dict(c, ops=[o for i, o in enumerate(ops) if i not in blk])
    elif 'only' not in c:
        # first find the miner that fails; from then on only that miner and only the oracle are run
        for o in OPTIONS:
            yield dict(c, lite=True, only=[o])
        return
    if n > 1:
        for blk in _chunks(n):
            if len(blk) < n:
                yield dict(c, rows=[r for i, r in enumerate(rows) if i not in blk])
    if m > 1:
        for blk in _chunks(m):
            if len(blk) < m:
                yield dict(c, rows=[[v for j, v in enumerate(r) if j not in blk] for r in rows])
    if n * m <= 40:
        for i in range(n):
            for j in range(m):
                if rows[i][j]:
                    r2 = [list(r) for r in rows]
                    r2[i][j] = 0
                    yield dict(c, rows=r2)

/-
  fcadriver — line protocol: one JSON request per line on stdin, one JSON reply per line.
  `{"op": "<Cxx.name>", ...}`; unknown op or malformed request → `{"bad": "<why>"}`.
-/
import Fca.Drv.Util
import Fca.Drv.C01
import Fca.Drv.C20
import Fca.Drv.C06
import Fca.Drv.C16
import Fca.Drv.C08
import Fca.Drv.C13
import Fca.Drv.C07
import Fca.Drv.C14
import Fca.Drv.C18
import Fca.Drv.C15
import Fca.Drv.C03
import Fca.Drv.C04
import Fca.Drv.C02
import Fca.Drv.C19
import Fca.Drv.C05
import Fca.Drv.C09
import Fca.Drv.C17
import Fca.Drv.C12
import Fca.Drv.C11
import Fca.Drv.C10
import Fca.Drv.Casp
open Lean Fca.Drv

def allHandlers : List (String × Handler) :=
  Fca.Drv.C01.handlers ++
  Fca.Drv.C20.handlers ++
  Fca.Drv.C06.handlers ++
  Fca.Drv.C16.handlers ++
  Fca.Drv.C08.handlers ++
  Fca.Drv.C13.handlers ++
  Fca.Drv.C07.handlers ++
  Fca.Drv.C14.handlers ++
  Fca.Drv.C18.handlers ++
  Fca.Drv.C18.handlersMV ++
  Fca.Drv.C15.handlers ++
  Fca.Drv.C03.handlers ++
  Fca.Drv.C04.handlers ++
  Fca.Drv.C02.handlers ++
  Fca.Drv.C19.handlers ++
  Fca.Drv.C05.handlers ++
  Fca.Drv.C09.handlers ++
  Fca.Drv.C17.handlers ++
  Fca.Drv.C12.handlers ++
  Fca.Drv.C11.handlers ++
  Fca.Drv.C10.handlers ++
  Fca.Drv.Casp.handlers

def dispatch (line : String) : String :=
  match Json.parse line with
  | .error e => (Json.mkObj [("bad", Json.str s!"parse: {e}")]).compress
  | .ok j =>
    match getStr j "op" with
    | .error e => (Json.mkObj [("bad", Json.str e)]).compress
    | .ok op =>
      match allHandlers.lookup op with
      | none => (Json.mkObj [("bad", Json.str s!"unknown op {op}")]).compress
      | some h =>
        match h j with
        | .ok r => r.compress
        | .error e => (Json.mkObj [("bad", Json.str e)]).compress

partial def loop (stdin : IO.FS.Stream) (stdout : IO.FS.Stream) : IO Unit := do
  let line ← stdin.getLine
  if line.isEmpty then return ()
  stdout.putStrLn (dispatch line)
  loop stdin stdout

def main : IO Unit := do
  let stdin ← IO.getStdin
  let stdout ← IO.getStdout
  loop stdin stdout

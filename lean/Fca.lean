import Fca.Model.Basic
import Fca.Model.BinTable
import Fca.Model.Context
import Fca.Spec.Galois
import Fca.Lemmas.BinTable
import Fca.Lemmas.AllI
import Fca.Lemmas.Names
import Fca.Props.C01

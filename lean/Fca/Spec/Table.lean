/-
  Fca.Spec.Table — what each operation of a boolean table *means*, said once, in terms of the
  cells `t.get i j` only (no backend, no loop shape, no mask).  Property C05 says every backend
  computes exactly these values.
-/
import Fca.Model.BinTableOps
namespace Fca.Spec.Table
open Fca

/-- the cells at `rows × cols`, in the order of the two selections -/
def cells (t : Fca.Table) (rows cols : List Nat) : List Row :=
  rows.map fun i => cols.map fun j => t.get i j

def allRows (t : Fca.Table) : List Nat := List.range t.height
def allCols (t : Fca.Table) : List Nat := List.range t.width

/-- a table built from a list of rows: 0×0 when there is no row, else width of the first row -/
def sub (t : Fca.Table) (rows cols : List Nat) : Fca.Table := Fca.Table.ofRows (cells t rows cols)

def rowSel (t : Fca.Table) (i : Nat) (cols : List Nat) : Row := cols.map fun j => t.get i j
def colSel (t : Fca.Table) (rows : List Nat) (j : Nat) : Row := rows.map fun i => t.get i j

def all (t : Fca.Table) (rows cols : List Nat) : Bool := rows.all fun i => cols.all fun j => t.get i j
def any (t : Fca.Table) (rows cols : List Nat) : Bool := rows.any fun i => cols.any fun j => t.get i j
def allPerRow (t : Fca.Table) (rows cols : List Nat) : List Bool := rows.map fun i => cols.all fun j => t.get i j
def anyPerRow (t : Fca.Table) (rows cols : List Nat) : List Bool := rows.map fun i => cols.any fun j => t.get i j
def allPerColumn (t : Fca.Table) (rows cols : List Nat) : List Bool := cols.map fun j => rows.all fun i => t.get i j
def anyPerColumn (t : Fca.Table) (rows cols : List Nat) : List Bool := cols.map fun j => rows.any fun i => t.get i j
/-- number of true cells of row `i` among `cols` -/
def sumPerRow (t : Fca.Table) (rows cols : List Nat) : List Nat :=
  rows.map fun i => (cols.filter fun j => t.get i j).length
def sumPerColumn (t : Fca.Table) (rows cols : List Nat) : List Nat :=
  cols.map fun j => (rows.filter fun i => t.get i j).length
def sum (t : Fca.Table) (rows cols : List Nat) : Nat := (sumPerRow t rows cols).sum

/-- rows (axis 1) / columns (axis 0) of the selection all of whose selected cells are true,
    in the order of the selection -/
def allI1 (t : Fca.Table) (rows cols : List Nat) : List Nat := rows.filter fun i => cols.all fun j => t.get i j
def allI0 (t : Fca.Table) (rows cols : List Nat) : List Nat := cols.filter fun j => rows.all fun i => t.get i j
def anyI1 (t : Fca.Table) (rows cols : List Nat) : List Nat := rows.filter fun i => cols.any fun j => t.get i j
def anyI0 (t : Fca.Table) (rows cols : List Nat) : List Nat := cols.filter fun j => rows.any fun i => t.get i j

def toList (t : Fca.Table) : List Row := cells t (allRows t) (allCols t)

def transpose (t : Fca.Table) : Fca.Table :=
  Fca.Table.ofRows ((allCols t).map fun j => (allRows t).map fun i => t.get i j)

def pointwise (f : Bool → Bool → Bool) (t o : Fca.Table) : Fca.Table :=
  Fca.Table.ofRows ((allRows t).map fun i => (allCols t).map fun j => f (t.get i j) (o.get i j))

def invert (t : Fca.Table) : Fca.Table :=
  Fca.Table.ofRows ((allRows t).map fun i => (allCols t).map fun j => !(t.get i j))

/-- same shape and the same cells -/
def eq (t o : Fca.Table) : Bool :=
  t.height == o.height && t.width == o.width &&
    (allRows t).all fun i => (allCols t).all fun j => t.get i j == o.get i j

def getitem (t : Fca.Table) : Item → Res
  | .one (.int i) => .bools (rowSel t i (allCols t))
  | .one (.sel s) => .table (sub t (s.resolve t.height) (allCols t))
  | .two (.int i) (.int j) => .bool (t.get i j)
  | .two (.int i) (.sel cs) => .bools (rowSel t i (cs.resolve t.width))
  | .two (.sel rs) (.int j) => .bools (colSel t (rs.resolve t.height) j)
  | .two (.sel rs) (.sel cs) => .table (sub t (rs.resolve t.height) (cs.resolve t.width))

/-- the meaning of every operation of `Fca.Op`; `none` selections mean "all rows / all columns" -/
def run (op : Op) (t : Fca.Table) : Res :=
  match op with
  | .shape => .shape t.height t.width
  | .toList => .rows (toList t)
  | .getitem it => getitem t it
  | .all ax rows cols =>
    let rs := rows.getD (allRows t); let cs := cols.getD (allCols t)
    axisDispatch ax (.bool (all t rs cs)) (.bools (allPerColumn t rs cs)) (.bools (allPerRow t rs cs))
  | .any ax rows cols =>
    let rs := rows.getD (allRows t); let cs := cols.getD (allCols t)
    axisDispatch ax (.bool (any t rs cs)) (.bools (anyPerColumn t rs cs)) (.bools (anyPerRow t rs cs))
  | .sum ax rows cols =>
    let rs := rows.getD (allRows t); let cs := cols.getD (allCols t)
    axisDispatch ax (.nat (sum t rs cs)) (.nats (sumPerColumn t rs cs)) (.nats (sumPerRow t rs cs))
  | .allI ax rows cols =>
    let rs := rows.getD (allRows t); let cs := cols.getD (allCols t)
    if ax = 0 then .nats (allI0 t rs cs) else if ax = 1 then .nats (allI1 t rs cs) else .err .UnknownAxisError
  | .anyI ax rows cols =>
    let rs := rows.getD (allRows t); let cs := cols.getD (allCols t)
    if ax = 0 then .nats (anyI0 t rs cs) else if ax = 1 then .nats (anyI1 t rs cs) else .err .UnknownAxisError
  | .transpose => .table (transpose t)
  | .and o =>
    if t.height = o.height ∧ t.width = o.width then .table (pointwise (fun a b => a && b) t o)
    else .err .AssertionError
  | .or o =>
    if t.height = o.height ∧ t.width = o.width then .table (pointwise (fun a b => a || b) t o)
    else .err .AssertionError
  | .invert => .table (invert t)
  | .eq _ o => .bool (eq t o)
  | .convert _ => .rows (toList t)

/-! ### context level -/

/-- backend-free observation of a context-level result -/
inductive CObs where
  | bool (b : Bool)
  | ctx (t : Fca.Table) (objs attrs : List String)
  | err (e : TErr)
  deriving DecidableEq, Repr, Inhabited

def obs : CRes → CObs
  | .bool b => .bool b
  | .ctx K => .ctx K.table K.objNames K.attrNames
  | .err e => .err e

/-- a context is only created when the name lists fit the table -/
def mkObs (t : Fca.Table) (objs attrs : List String) : CObs :=
  if objs.length ≠ t.height then .err (.py .AssertionError)
  else if attrs.length ≠ t.width then .err (.py .AssertionError)
  else .ctx t objs attrs

def names (ns : List String) (idx : List Nat) : List String := idx.map fun i => ns.getD i ""

/-- the positions one component of a context item selects: an integer selects that one -/
def keyIdx (k : Key) (n : Nat) : List Nat :=
  match k with
  | .int i => [i]
  | .sel s => s.resolve n

/-- meaning of the context-level operations: two integers give the cell; anything else the
    sub-context on the selected objects × attributes (an integer selects that single one; a
    missing column component means all attributes), with the names selected alike. -/
def runC (t : Fca.Table) (objs attrs : List String) : COp → CObs
  | .getitem (.two (.int i) (.int j)) => .bool (t.get i j)
  | .getitem (.two r c) =>
    let rows := keyIdx r t.height; let cols := keyIdx c t.width
    mkObs (sub t rows cols) (names objs rows) (names attrs cols)
  | .getitem (.one r) =>
    let rows := keyIdx r t.height
    mkObs (sub t rows (allCols t)) (names objs rows) (names attrs (allCols t))
  | .transpose => mkObs (transpose t) attrs objs
  | .invert => mkObs (invert t) objs (attrs.map Ctx.toggleNot)
  | .eq K' =>
    if objs ≠ K'.objNames then .err (.py .ValueError)
    else if attrs ≠ K'.attrNames then .err (.py .ValueError)
    else .bool (eq t K'.table)

/-! ### histories: every answer is the meaning of the operation on the content held at that moment -/

def runHist : Fca.Table → List Step → List Res
  | _, [] => []
  | t, .query op :: rest => run op t :: runHist t rest
  | _, .setData rows :: rest => runHist (Fca.Table.ofRows rows) rest

def runHistC : Fca.Table → List String → List String → List CStep → List CObs
  | _, _, _, [] => []
  | t, objs, attrs, .query op :: rest => runC t objs attrs op :: runHistC t objs attrs rest
  | _, objs, attrs, .setData rows :: rest => runHistC (Fca.Table.ofRows rows) objs attrs rest
  | t, _, attrs, .setObjNames ns :: rest => runHistC t ns attrs rest
  | t, objs, _, .setAttrNames ns :: rest => runHistC t objs ns rest

end Fca.Spec.Table

/-
  Fca.Spec.DualityBig — oracles of property C06 for shapes beyond the brute-force scope (class H8: 64/65 and
  128/129 objects or attributes): the concepts are enumerated over the SMALLER side of the table
  (`Spec.allConceptsFast`, proved exact in `Fca.C02.oracle_fast_exact`), the monotone concepts through the
  complemented table.  `Fca.C06.big_oracles_sound` proves both exact.  No Mathlib.
-/
import Fca.Spec.Duality
import Fca.Spec.Miners
namespace Fca.Spec
open Fca

/-- monotone concepts through the concepts of the complemented table, enumerated over its smaller side -/
def monoConceptsFast2 (t : Table) : List (List Nat × List Nat) :=
  (allConceptsFast (complement t)).map fun p => (compl t.height p.1, p.2)

end Fca.Spec

/-
  Fca.Spec.Galois — what the derivation operators *mean*: order-preserving
  list filters of the base list by the prime condition of the incidence relation.
-/
import Fca.Model.Basic
namespace Fca.Spec

/-- objects of `base` (in that order) having all attributes of `B` -/
def ext (t : Table) (B : List Nat) (base : List Nat) : List Nat :=
  base.filter fun g => B.all fun a => t.get g a

/-- attributes of `base` (in that order) shared by all objects of `A` -/
def int (t : Table) (A : List Nat) (base : List Nat) : List Nat :=
  base.filter fun a => A.all fun g => t.get g a

/-- objects of `base` having at least one attribute of `B` -/
def extMono (t : Table) (B : List Nat) (base : List Nat) : List Nat :=
  base.filter fun g => B.any fun a => t.get g a

/-- attributes of `base` that no object outside `A` has -/
def intMono (t : Table) (A : List Nat) (base : List Nat) : List Nat :=
  base.filter fun a => (List.range t.height).all fun g => A.contains g || !(t.get g a)

end Fca.Spec

/-
  Fca.Spec.C15 — the decidable checker of property C15 (a RELATIONAL property: which concepts
  survive Sofia's pruning depends on set-iteration orders, so the implementation's own output is
  judged, not compared with one model value).

  `holdsC15 t ms lmax out`: `out` (list of (extent, intent) pairs, ascending index lists) is an
  admissible answer of `sofia(K, L_max=lmax, min_supp=ms)` on the context with table `t`.
-/
import Fca.Spec.Concepts
import Fca.Model.SofiaApprox
namespace Fca.Spec.C15
open Fca Fca.Spec Fca.SofiaApprox

/-- the extent has support ≥ the (converted) threshold -/
def meets (ms : MinSupp) (n : Nat) (A : List Nat) : Bool := !(ms.below n A.length)

/-- the concepts of `t` whose support meets the threshold -/
def meeting (t : Table) (ms : MinSupp) : List (List Nat × List Nat) :=
  (allConcepts t).filter fun c => meets ms t.height c.1

/-- clauses on the list of returned extents; each failing clause is reported by name -/
def failsExt (t : Table) (ms : MinSupp) (lmax : Nat) (exts : List (List Nat)) : List String :=
  let n := t.height
  let top := List.range n
  let isLeast := fun (A0 : List Nat) => exts.all fun A => subset A0 A
  (if exts.all fun A => closure t A == A then [] else ["not-closed"]) ++
  (if decide exts.Nodup then [] else ["duplicate"]) ++
  (if exts.contains top then [] else ["no-top"]) ++
  (if exts.any isLeast then [] else ["no-least"]) ++
  (if exts.all fun A => A == top || isLeast A || meets ms n A then [] else ["support"]) ++
  (if exts.length ≤ lmax + 2 then [] else ["count"]) ++
  (if (meeting t ms).length + 1 ≤ lmax && !((meeting t ms).all fun c => exts.contains c.1)
   then ["nonbinding-missing"] else [])

/-- clauses on the pairs: every pair is a formal concept of `t` -/
def failsPairs (t : Table) (out : List (List Nat × List Nat)) : List String :=
  if out.all fun c => isConcept t c.1 c.2 then [] else ["not-a-concept"]

def failsC15 (t : Table) (ms : MinSupp) (lmax : Nat) (out : List (List Nat × List Nat)) : List String :=
  failsPairs t out ++ failsExt t ms lmax (out.map (·.1))

/-- the checker -/
def holdsC15 (t : Table) (ms : MinSupp) (lmax : Nat) (out : List (List Nat × List Nat)) : Bool :=
  (failsC15 t ms lmax out).isEmpty

/-- the same on extents only (many-valued contexts: `t` is the binarised table, intents are patterns) -/
def holdsC15Ext (t : Table) (ms : MinSupp) (lmax : Nat) (exts : List (List Nat)) : Bool :=
  (failsExt t ms lmax exts).isEmpty

/-! ### the same checker for WIDE tables (few objects, many attributes)

`allConcepts t` enumerates the subsets of the attributes; for a table with many attributes and few objects the
concepts are enumerated through the transposed table instead (`Fca.C15.checker_via_transpose`: same verdict). -/

/-- the concepts of `t` meeting the threshold, enumerated as the swapped concepts of the transposed table -/
def meetingT (t : Table) (ms : MinSupp) : List (List Nat × List Nat) :=
  ((allConcepts (transpose t)).map fun c => (c.2, c.1)).filter fun c => meets ms t.height c.1

def failsExtT (t : Table) (ms : MinSupp) (lmax : Nat) (exts : List (List Nat)) : List String :=
  let n := t.height
  let top := List.range n
  let isLeast := fun (A0 : List Nat) => exts.all fun A => subset A0 A
  (if exts.all fun A => closure t A == A then [] else ["not-closed"]) ++
  (if decide exts.Nodup then [] else ["duplicate"]) ++
  (if exts.contains top then [] else ["no-top"]) ++
  (if exts.any isLeast then [] else ["no-least"]) ++
  (if exts.all fun A => A == top || isLeast A || meets ms n A then [] else ["support"]) ++
  (if exts.length ≤ lmax + 2 then [] else ["count"]) ++
  (if (meetingT t ms).length + 1 ≤ lmax && !((meetingT t ms).all fun c => exts.contains c.1)
   then ["nonbinding-missing"] else [])

def failsC15T (t : Table) (ms : MinSupp) (lmax : Nat) (out : List (List Nat × List Nat)) : List String :=
  failsPairs t out ++ failsExtT t ms lmax (out.map (·.1))

/-- random-forest miner: every returned extent is closed in `t` and the all-objects extent is present -/
def failsRF (t : Table) (exts : List (List Nat)) : List String :=
  (if exts.all fun A => closure t A == A then [] else ["not-closed"]) ++
  (if exts.contains (List.range t.height) then [] else ["no-top"])

end Fca.Spec.C15

/-
  Fca.Spec.MinGen — what "minimum generator" means, independent of the search code.

  A *generator* of `intent` (w.r.t. a base generator `bg` and a base object list `bo`) is an
  attribute set `S ⊇ bg` whose closure `cl_bo S = (S' ∩ bo)'` (extension inside `bo`, intention over
  all attributes of the full table) equals `intent` as a set.  Attribute sets are represented by
  strictly ascending index lists, so `S.length` is the cardinality.
-/
import Fca.Spec.Concepts
namespace Fca.Spec

/-- closure inside a base object list: `int (ext_base X)`, intention over all attributes -/
def clBase (t : Table) (bo X : List Nat) : List Nat := intAll t (ext t X bo)

/-- equality as sets -/
def SameSet (a b : List Nat) : Prop := ∀ x, x ∈ a ↔ x ∈ b

def sameSetB (a b : List Nat) : Bool := a.all (b.contains ·) && b.all (a.contains ·)

/-- `S` (a strictly ascending list of attribute indexes of `t`) contains `bg` and generates `intent` inside `bo` -/
def IsGen (t : Table) (intent bg bo S : List Nat) : Prop :=
  S.Pairwise (· < ·) ∧ (∀ a ∈ S, a < t.width) ∧ (∀ a ∈ bg, a ∈ S) ∧ SameSet (clBase t bo S) intent

/-- a generator of the smallest possible size -/
def IsMinGen (t : Table) (intent bg bo S : List Nat) : Prop :=
  IsGen t intent bg bo S ∧ ∀ S', IsGen t intent bg bo S' → S.length ≤ S'.length

/-- candidate generators: all attribute subsets (ascending lists) containing `bg` whose closure is `intent` -/
def genCands (t : Table) (intent bg bo : List Nat) : List (List Nat) :=
  (sublists (List.range t.width)).filter fun S =>
    bg.all (S.contains ·) && sameSetB (clBase t bo S) intent

/-- executable brute force over all attribute subsets (oracle of the driver): the candidates of least size -/
def minGensSpec (t : Table) (intent bg bo : List Nat) : List (List Nat) :=
  let cands := genCands t intent bg bo
  cands.filter fun S => cands.all fun S' => S.length ≤ S'.length

end Fca.Spec

/-
  Fca.Spec.Miners — what "a miner returns precisely the set of all formal concepts" means for a
  list of concept records: compared observable = (sorted extent indexes, sorted intent indexes).
-/
import Fca.Model.Lindig
import Fca.Spec.Concepts
namespace Fca.Spec
open Fca

/-- the compared observable of a returned concept -/
def conceptKey (c : ConceptRec) : List Nat × List Nat := (sortIdx c.extentI, sortIdx c.intentI)

/-- the list holds every formal concept of `t` exactly once and nothing else -/
def ExactConcepts (t : Table) (cs : List ConceptRec) : Prop :=
  (cs.map conceptKey).Nodup ∧ ∀ A B, (A, B) ∈ cs.map conceptKey ↔ (A, B) ∈ allConcepts t

/-- every listed pair is a formal concept and no concept is listed twice -/
def SoundNodup (t : Table) (cs : List ConceptRec) : Prop :=
  (cs.map conceptKey).Nodup ∧ ∀ A B, (A, B) ∈ cs.map conceptKey → (A, B) ∈ allConcepts t

/-- name views are the name images of the index views -/
def ViewsAgree (objNames attrNames : List String) (c : ConceptRec) : Prop :=
  c.extent = c.extentI.map (fun g => objNames.getD g "") ∧
  c.intent = c.intentI.map (fun m => attrNames.getD m "")

/-- the brute-force oracle enumerated over the smaller side of the table (`2^min(n,m)` candidate sets):
    for a wide table `allConcepts t`; for a tall one the concepts of the transposed table, swapped back.
    `Fca.C02.oracle_fast_exact` proves it lists exactly `allConcepts t`. -/
def allConceptsFast (t : Table) : List (List Nat × List Nat) :=
  if t.width ≤ t.height then allConcepts t
  else (allConcepts (transpose t)).map fun p => (p.2, p.1)

end Fca.Spec

/-
  Fca.Spec.CoversFast — a fast executable version of `Fca.Spec.Covers` for the driver (concept lists with
  1000+ members, extents over 1000+ objects).

  `Spec.covers` is cubic in the number of concepts, walks `List.getD` for every look-up and compares extents
  by `List.contains`.  Here every extent is packed once into an *unbounded* bit set (a `Nat`: there is no word
  size, object 64 / 128 / 1000 is a bit like any other), the strict-inclusion relation is tabulated as one bit
  row per concept, and the covers of `i` are "row `i` minus the union of the rows of the members of row `i`"
  (one big-number `or` per member instead of one pass over the whole list).
  `Fca/Lemmas/ConstructFast.lean` proves every function below EQUAL to its `Spec` counterpart
  (`coversDictFast_eq`, `upperCoversDictFast_eq`, `topFast_eq`, `bottomFast_eq`; `Fca.C12.fast_oracle_exact`),
  so the driver may answer with either.  No Mathlib import (linked into the native driver).
-/
import Fca.Spec.Covers
namespace Fca.Spec.Fast

/-- the bit set of a list of indexes -/
def maskOf (l : List Nat) : Nat := l.foldl (fun m x => m ||| (1 <<< x)) 0

/-- `a ⊆ b` on bit sets -/
def subM (a b : Nat) : Bool := a &&& b == a

/-- `a ⊂ b` on bit sets -/
def ssubM (a b : Nat) : Bool := subM a b && !(subM b a)

/-- the extents of the list, packed -/
def masksOf (cs : List (List Nat)) : Array Nat := (cs.map maskOf).toArray

/-- the indexes `j < n` with `R j i`, as a list and as a bit set -/
def listOf (n : Nat) (R : Nat → Nat → Bool) (i : Nat) : List Nat := (List.range n).filter fun j => R j i

/-- the union of the rows of the members of `l` -/
def unionRows (rows : Array Nat) (l : List Nat) : Nat := l.foldl (fun acc k => acc ||| rows.getD k 0) 0

/-- members of `l` (= row `i` as a list) that are in no row of a member of `l` -/
def coversByRows (rows : Array Nat) (l : List Nat) : List Nat :=
  let u := unionRows rows l
  l.filter fun j => !(u.testBit j)

/-- `i ↦ coversBy n R i` for all `i < n` at once: tabulate the rows, then reduce every row -/
def coversTable (n : Nat) (R : Nat → Nat → Bool) : List (List Nat) :=
  let lists := (List.range n).map (listOf n R)
  let rows := (lists.map maskOf).toArray
  lists.map (coversByRows rows)

/-- strict inclusion of the packed extents at indexes `j`, `i` -/
def ssubAtM (ms : Array Nat) (j i : Nat) : Bool := ssubM (ms.getD j 0) (ms.getD i 0)

/-- `Spec.coversDict`, fast -/
def coversDictFast (cs : List (List Nat)) : List (List Nat) :=
  let n := cs.length
  coversTable n (ssubAtM (masksOf cs))

/-- `Spec.upperCoversDict`, fast -/
def upperCoversDictFast (cs : List (List Nat)) : List (List Nat) :=
  let n := cs.length
  let ms := masksOf cs
  coversTable n (fun i j => ssubAtM ms j i)

def isTopFast (n : Nat) (ms : Array Nat) (t : Nat) : Bool :=
  decide (t < n) && (List.range n).all fun j => j == t || ssubAtM ms j t

def isBottomFast (n : Nat) (ms : Array Nat) (b : Nat) : Bool :=
  decide (b < n) && (List.range n).all fun j => j == b || ssubAtM ms b j

/-- `(List.range n).find? (Spec.isTopB cs)`, fast -/
def topFast (cs : List (List Nat)) : Option Nat :=
  let ms := masksOf cs
  (List.range cs.length).find? (isTopFast cs.length ms)

/-- `(List.range n).find? (Spec.isBottomB cs)`, fast -/
def bottomFast (cs : List (List Nat)) : Option Nat :=
  let ms := masksOf cs
  (List.range cs.length).find? (isBottomFast cs.length ms)

end Fca.Spec.Fast

/-
  Fca.Spec.C04Diagram — checkers the C04 driver applies to the DRAWN diagram (the edges `children_dict` /
  `parents_dict` of the implementation) and a completeness test for concept lists that does not enumerate the
  2^width attribute subsets (usable for wide tables).  No Mathlib.
-/
import Fca.Spec.LatticeQuery
namespace Fca.Spec

/-- `j ∈ rel'[i] ⇔ i ∈ rel[j]` on the node range `0 … k-1` (children ↦ parents and back) -/
def transposeRel (k : Nat) (rel : List (List Nat)) : List (List Nat) :=
  (List.range k).map fun j => (List.range k).filter fun i => (rel.getD i []).contains j

/-- one step along the edges: the set together with everything one edge away -/
def stepRel (rel : List (List Nat)) (s : List Nat) : List Nat :=
  (s ++ s.flatMap fun x => rel.getD x []).eraseDups

/-- `fuel` steps along the edges -/
def closeRel (rel : List (List Nat)) : Nat → List Nat → List Nat
  | 0, s => s
  | fuel + 1, s => closeRel rel fuel (stepRel rel s)

/-- the nodes reachable from node `i` by one or more edges (`rel.length` steps suffice on `rel.length` nodes) -/
def reachFrom (rel : List (List Nat)) (i : Nat) : List Nat :=
  closeRel rel rel.length (rel.getD i [])

/-- what a reader of the diagram takes for "above node i": reachability along the drawn edges -/
def reachAll (rel : List (List Nat)) : List (List Nat) :=
  (List.range rel.length).map (reachFrom rel)

/-- the two edge dictionaries describe the same diagram: same node range, every index a node,
    `j ∈ children[i] ⇔ i ∈ parents[j]` -/
def relsAgree (ch pa : List (List Nat)) : Bool :=
  let k := ch.length
  pa.length == k &&
  ch.all (fun s => s.all (· < k)) && pa.all (fun s => s.all (· < k)) &&
  (List.range k).all fun i => (List.range k).all fun j =>
    (ch.getD i []).contains j == (pa.getD j []).contains i

/-- C04 on the drawn diagram: the table is read back from the labels with "below or equal" taken as
    reachability along the parent edges `pa` -/
def holdsC04Edges (t : Table) (newExt newInt pa : List (List Nat)) : Bool :=
  holdsC04 t newExt newInt (reachAll pa)

/-- `extent ∩ a'` (an ascending list stays ascending) -/
def cutBy (t : Table) (e : List Nat) (a : Nat) : List Nat := e.filter fun g => t.get g a

/-- completeness of a concept list without enumerating attribute subsets: a duplicate-free list of concepts that
    contains the concept of the empty attribute set and, with every extent `E` and attribute `a`, the extent
    `E ∩ a'` (every extent is such an intersection of attribute extents) -/
def isConceptListFast (t : Table) (cs : List (List Nat × List Nat)) : Bool :=
  isConceptSub t cs &&
  cs.any (fun c => c.1 == extAll t []) &&
  cs.all fun c => (List.range t.width).all fun a => cs.any fun d => d.1 == cutBy t c.1 a

end Fca.Spec

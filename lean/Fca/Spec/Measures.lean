/-
  Fca.Spec.Measures — what C16 *means*, independent of the code shape:
  stability by its definition (fraction of subsets of the extent whose intention is the intent),
  "the lattice data is the concept lattice of the table" (decidable), and the bracket / log-bound
  relations on exact numbers (used by the driver as the oracle on the implementation's numbers).
-/
import Fca.Spec.Concepts
import Fca.Model.Measures
namespace Fca.Spec
open Fca Fca.Measures

/-- number of subsets `S ⊆ A` with `S' = B` -/
def genCount (t : Table) (A B : List Nat) : Nat :=
  (sublists A).countP fun S => intAll t S == B

/-- `|{S ⊆ A | S' = B}| / 2^|A|` -/
def stabilityDef (t : Table) (A B : List Nat) : Rat :=
  (genCount t A B : Rat) / ((2 ^ A.length : Nat) : Rat)

/-- same members -/
def sameMembers (a b : List Nat) : Bool := a.all (b.contains ·) && b.all (a.contains ·)

/-- `L` is the concept lattice of `t`: the concept list enumerates `allConcepts t` without repetition and
    `children` lists (without repetition) exactly the lower covers w.r.t. extent inclusion. -/
structure IsLatticeOf (t : Table) (L : Lattice) : Prop where
  nodup : L.concepts.Nodup
  mem : ∀ c, c ∈ L.concepts ↔ c ∈ allConcepts t
  cnodup : ∀ i, i < L.concepts.length → (L.childrenOf i).Nodup
  cmem : ∀ i, i < L.concepts.length →
    ∀ j, j ∈ L.childrenOf i ↔ j ∈ lowerCovers (L.concepts.map Prod.fst) i

/-- executable version of `IsLatticeOf` (`Measures.isLatticeOfB_iff` in `Lemmas/MeasuresCalc`) -/
def isLatticeOfB (t : Table) (L : Lattice) : Bool :=
  decide L.concepts.Nodup
  && L.concepts.all (fun c => (allConcepts t).contains c)
  && (allConcepts t).all (fun c => L.concepts.contains c)
  && (List.range L.concepts.length).all fun i =>
      decide (L.childrenOf i).Nodup
      && sameMembers (L.childrenOf i) (lowerCovers (L.concepts.map Prod.fst) i)

/-- brute force from the OBJECT side: every concept is `(S'', S')` for some object subset `S`
    (used for wide tables — few objects, more than 64 attributes — where `2^|M|` is out of reach) -/
def allConceptsObj (t : Table) : List (List Nat × List Nat) :=
  ((sublists (List.range t.height)).map fun S => (closure t S, intAll t S)).eraseDups

/-- `isLatticeOfB` with the object-side enumeration of the concepts -/
def isLatticeOfObjB (t : Table) (L : Lattice) : Bool :=
  decide L.concepts.Nodup
  && L.concepts.all (fun c => (allConceptsObj t).contains c)
  && (allConceptsObj t).all (fun c => L.concepts.contains c)
  && (List.range L.concepts.length).all fun i =>
      decide (L.childrenOf i).Nodup
      && sameMembers (L.childrenOf i) (lowerCovers (L.concepts.map Prod.fst) i)

/-- the exponentiated form of `Δ − log2 n ≤ −log2 (1 − s)`:
    `+inf` on the left forces `1 − s ≤ 0`; otherwise `2^Δ / n ≤ 1 / (1 − s)`, i.e. `(1 − s)·2^Δ ≤ n`
    (for `s = 1` the right-hand side is `+inf` and the relation holds, as `0 ≤ n`). -/
def LogLe (b : LogB) (s : Rat) : Prop :=
  match b.minDelta with
  | none => 1 - s ≤ 0
  | some d => (1 - s) * (2 : Rat) ^ d ≤ (b.nBin : Rat)

instance (b : LogB) (s : Rat) : Decidable (LogLe b s) := by
  unfold LogLe; split <;> infer_instance

/-- the value the measure function of the stored key `key` computes for concept `i` -/
def valueOf (L : Lattice) (K : Ctx) (key : String) (i : Nat) : Except PyErr Val :=
  if key = "LStab" then (stabilityBounds i L).map fun p => Val.q p.1
  else if key = "UStab" then (stabilityBounds i L).map fun p => Val.q p.2
  else if key = "Stab" then (stability i L K).map Val.q
  else if key = "log_stability_lbound" then (logStabilityLbound i L K.nAttributes).map Val.lg
  else .error .KeyError

/-- the measure names of C16 -/
def inScope (m : String) : Prop :=
  m = "stability_bounds" ∨ m = "LStab" ∨ m = "UStab" ∨ m = "stability" ∨ m = "log_stability_lbound"

end Fca.Spec

/-
  Fca.Spec.Concepts — formal concepts of a table, at specification level (no Mathlib:
  the driver uses `allConcepts` as the brute-force oracle).
-/
import Fca.Spec.Galois
namespace Fca.Spec

/-- `B'` over all objects, in context order -/
def extAll (t : Table) (B : List Nat) : List Nat := ext t B (List.range t.height)
/-- `A'` over all attributes, in context order -/
def intAll (t : Table) (A : List Nat) : List Nat := int t A (List.range t.width)
/-- `A''` -/
def closure (t : Table) (A : List Nat) : List Nat := extAll t (intAll t A)
/-- `B''` -/
def closureAttr (t : Table) (B : List Nat) : List Nat := intAll t (extAll t B)

/-- `(A, B)` is a formal concept (both given as ascending lists): `B' = A` and `A' = B`. -/
def isConcept (t : Table) (A B : List Nat) : Bool := (extAll t B == A) && (intAll t A == B)

/-- all sublists (subsets) of a list, each keeping the order of the list -/
def sublists : List Nat → List (List Nat)
  | [] => [[]]
  | x :: xs => let r := sublists xs; r ++ r.map (x :: ·)

/-- brute force: every concept is `(B', B'')` for some attribute subset `B`; duplicates removed. -/
def allConcepts (t : Table) : List (List Nat × List Nat) :=
  ((sublists (List.range t.width)).map fun B => (extAll t B, closureAttr t B)).eraseDups

/-- the transposed table -/
def transpose (t : Table) : Table :=
  ⟨(List.range t.width).map fun a => (List.range t.height).map fun g => t.get g a, t.height⟩

/-- strict inclusion of duplicate-free index lists -/
def ssubset (a b : List Nat) : Bool := a.all (b.contains ·) && !(b.all (a.contains ·))
def subset (a b : List Nat) : Bool := a.all (b.contains ·)

/-- lower covers of concept `i` within a list of extents -/
def lowerCovers (exts : List (List Nat)) (i : Nat) : List Nat :=
  let ei := exts.getD i []
  (List.range exts.length).filter fun j =>
    let ej := exts.getD j []
    ssubset ej ei && !((List.range exts.length).any fun k =>
      let ek := exts.getD k []
      ssubset ej ek && ssubset ek ei)

/-- upper covers of concept `i` within a list of extents -/
def upperCovers (exts : List (List Nat)) (i : Nat) : List Nat :=
  let ei := exts.getD i []
  (List.range exts.length).filter fun j =>
    let ej := exts.getD j []
    ssubset ei ej && !((List.range exts.length).any fun k =>
      let ek := exts.getD k []
      ssubset ei ek && ssubset ek ej)

end Fca.Spec

/-
  Fca.Spec.PS — what the pattern-structure operations *mean*, independent of the code shape.

  One `covers` relation per structure ("description d covers value v"); the extension of `d` is
  the order-preserving filter of the base list by `covers d`; a description `dA` is a most specific
  description of the object list `A` when it covers every value of `A` and its extension lies in the
  extension of every description that covers every value of `A`.
-/
import Fca.Model.PS
namespace Fca.Spec.PS
open Fca.PS

/-- interval descriptions: `none` is the empty description (covers nothing), `(a, b)` covers the
    intervals lying inside `[a, b]` -/
def ivCovers (d : Option Iv) (v : Iv) : Bool :=
  match d with
  | none => false
  | some (a, b) => decide (a ≤ v.1) && decide (v.2 ≤ b)

/-- set descriptions: `none` covers nothing, a set `s` covers the value sets contained in `s` -/
def setCovers (d : Option VSet) (v : VSet) : Bool :=
  match d with
  | none => false
  | some s => v.all fun x => s.contains x

/-- attribute descriptions: `false` means "anything", `true` covers the objects having the attribute -/
def attrCovers (d : Bool) (v : Bool) : Bool := !d || v

/-- the objects of `base` (in that order, by original index) whose value is covered by `d` -/
def ext {V D} (covers : D → V → Bool) (data : List V) (d : D) (base : List Nat) : List Nat :=
  base.filter fun g => (data[g]?).any (covers d)

/-- "every value of `A` is covered by `d`" -/
def coversAll {V D} (covers : D → V → Bool) (data : List V) (d : D) (A : List Nat) : Bool :=
  A.all fun g => (data[g]?).any (covers d)

/-- executable form of the Galois property on a finite list of candidate descriptions (used by the
    driver to judge the *implementation's* `intention_i` output): `dA` covers all of `A`, and for
    every description of `grid` covering all of `A`, `ext dA ⊆ ext d` (over all objects). -/
def galoisOn {V D} (covers : D → V → Bool) (data : List V) (A : List Nat) (dA : D) (grid : List D) : Bool :=
  coversAll covers data dA A &&
  grid.all fun d =>
    !(coversAll covers data d A) ||
      (ext covers data dA (List.range data.length)).all fun g =>
        (ext covers data d (List.range data.length)).contains g

/-- the meaning of a description argument of the interval structures: `None`, a number `x` (= `[x, x]`)
    or a pair; anything else is not a description -/
def ivDescSem : IvDesc → Option (Option Iv)
  | .none => some none
  | .num x => some (some (x, x))
  | .seq [a, b] => some (some (a, b))
  | .seq _ => none

end Fca.Spec.PS

/-
  Fca.Spec.MinGenMV — extension of an interval description inside a base object list, as a plain
  conjunctive filter (what `MVContext.extension_i` means), and the C18 acceptance test for one
  many-valued generator.
-/
import Fca.Model.MinGenMV
namespace Fca.MGMV

/-- objects of `base` (in that order) whose interval lies inside every given description -/
def extSpec (cols : List Col) (descr : List (Nat × Descr)) (base : List Nat) : List Nat :=
  base.filter fun g => descr.all fun p => sat (cols.getD p.1 []) p.2 g

/-- the intent as a description dict -/
def intentD (intent : List Descr) : DescrD := (List.range intent.length).zip intent

/-- C18 (many-valued part): generator `d` has the same extension as the intent inside the base objects -/
def sameExtension (cols : List Col) (intent : List Descr) (bo : List Nat) (d : DescrD) : Bool :=
  extSpec cols d bo == extSpec cols (intentD intent) bo

end Fca.MGMV

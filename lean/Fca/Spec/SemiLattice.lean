/-
  Fca.Spec.SemiLattice — what the semilattice operations *mean*, computed by brute force from `leq` on the current
  element list: the greatest / least element, which operations are refused (and with which exception class), the
  element list after an operation, and the answer to every operation.  Independent of the cached indexes.
-/
import Fca.Model.SemiLattice
import Fca.Spec.Poset
namespace Fca.SemiLattice.Spec
open Fca Fca.Poset Fca.Poset.Fresh Fca.SemiLattice

section
variable {α : Type} [DecidableEq α] (leq : α → α → Bool)

/-- `t` is a valid index and every element is on the `d.flip` side of it: `E[i] ≤ E[t]` for all `i` (`d = .anc`:
    `t` is the greatest element) / `E[t] ≤ E[i]` for all `i` (`d = .desc`: the least element) -/
def isExt (d : Dir) (E : List α) (t : Nat) : Bool :=
  decide (t < E.length) && (List.range E.length).all fun i => relD leq d E t i

/-- the index of the greatest (`.anc`) / least (`.desc`) element, if there is one -/
def greatest (d : Dir) (E : List α) : Option Nat := (List.range E.length).find? (isExt leq d E)

/-- the greatest / least element itself -/
def greatestElem (d : Dir) (E : List α) : Option α :=
  match greatest leq d E with
  | some t => E[t]?
  | none => none

/-- the sides a class guards, in the order the MRO runs the guards -/
def dirsOf : Cls → List Dir
  | .upper => [.anc]
  | .lower => [.desc]
  | .lattice => [.anc, .desc]

/-- `e` is comparable with neither direction to `x` -/
def incomparable (e x : α) : Bool := !(leq e x || leq x e)

/-- Which operations a semilattice of class `cls` over `E` refuses, and the exception class it raises
    (`none` = not refused).  `add`: incomparable with the top (bottom) element → `ValueError`;
    `del k`: `k` is the top (bottom) index → `KeyError`, out of range → `IndexError` (raised by `POSet.__delitem__`);
    `remove e`: `e` is the top (bottom) element → `ValueError`, `e` absent → `KeyError` (raised by `POSet.index`). -/
def refusal (cls : Cls) (E : List α) : Op α → Option PyErr
  | .add e _ =>
    if (dirsOf cls).any (fun d => match greatestElem leq d E with
        | some x => incomparable leq e x
        | none => false) then some .ValueError else none
  | .del k =>
    if (dirsOf cls).any (fun d => greatest leq d E == some k) then some .KeyError
    else if k < E.length then none else some .IndexError
  | .remove e =>
    if (dirsOf cls).any (fun d => greatestElem leq d E == some e) then some .ValueError
    else if e ∈ E then none else some .KeyError
  | _ => none

/-- the element list after an operation -/
def nextSL (cls : Cls) (E : List α) : OpSL α → List α
  | .extreme _ => E
  | .op o =>
    match refusal leq cls E o with
    | some _ => E
    | none => next E o

/-- the answer of a freshly built semilattice of class `cls` over `E` -/
def answerSL (cls : Cls) (E : List α) : OpSL α → Out
  | .extreme d =>
    if cls.has d then
      match greatest leq d E with
      | some t => .nat t
      | none => .err .IndexError
    else .err .NotImplementedError
  | .op (.extremes d) =>
    if cls.has d then
      match greatest leq d E with
      | some t => .list [t]
      | none => .err .IndexError
    else answer leq E (.extremes d)
  | .op o =>
    match refusal leq cls E o with
    | some e => .err e
    | none => answer leq E o

/-- operations the property speaks about (as `Fresh.opOk`; `top` / `bottom` only on a class that has it) -/
def opOkSL (cls : Cls) (E : List α) (useCache : Bool) : OpSL α → Bool
  | .extreme d => cls.has d
  | .op o => opOk E useCache o

/-- executable check of the invariant `InvTop` (sound by `Fca.C11.invTop_of_check`): every side the class
    guards has a greatest / least element, and on a caching instance the cached index is that element's index -/
def invTopCheck (s : SL α) : Bool :=
  (dirsOf s.cls).all fun d =>
    match greatest leq d s.p.elems with
    | none => false
    | some t => !s.p.useCache || s.cache d == some t

/-- outputs of a history answered step by step by fresh semilattices -/
def runFreshSL (cls : Cls) (E : List α) : List (OpSL α) → List Out
  | [] => []
  | op :: ops => answerSL leq cls E op :: runFreshSL cls (nextSL leq cls E op) ops

end
end Fca.SemiLattice.Spec

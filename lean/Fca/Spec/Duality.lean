/-
  Fca.Spec.Duality — what the dualities of C06 *mean*, independent of the code shape
  (no Mathlib: the driver uses these as oracles on the implementation's output).
-/
import Fca.Spec.Concepts
namespace Fca.Spec
open Fca

/-- the complemented table -/
def complement (t : Table) : Table := ⟨t.data.map fun r => r.map fun v => !v, t.width⟩

/-- the table whose row `r` / column `c` is row `π[r]` / column `σ[c]` of `t` (`K[π, σ]`) -/
def permute (t : Table) (π σ : List Nat) : Table :=
  ⟨π.map fun i => σ.map fun j => t.get i j, σ.length⟩

/-- the ascending duplicate-free representative (within `range n`) of a set given as a list -/
def canon (n : Nat) (xs : List Nat) : List Nat := (List.range n).filter fun x => xs.contains x

/-- the complement of a set of indexes within `range n`, ascending -/
def compl (n : Nat) (xs : List Nat) : List Nat := (List.range n).filter fun x => !(xs.contains x)

/-- objects having at least one attribute of `B` -/
def extMonoAll (t : Table) (B : List Nat) : List Nat := extMono t B (List.range t.height)
/-- attributes that no object outside `A` has -/
def intMonoAll (t : Table) (A : List Nat) : List Nat := intMono t A (List.range t.width)

/-- `(A, B)` (ascending lists) is a *monotone* concept: `A` = objects having some attribute of `B`,
    `B` = attributes no object outside `A` has. -/
def isMonoConcept (t : Table) (A B : List Nat) : Bool :=
  (extMonoAll t B == A) && (intMonoAll t A == B)

/-- brute force over all pairs of subsets -/
def monoConcepts (t : Table) : List (List Nat × List Nat) :=
  (sublists (List.range t.height)).flatMap fun A =>
    ((sublists (List.range t.width)).filter fun B => isMonoConcept t A B).map fun B => (A, B)

/-- set-level formal concept (lists in any order, duplicates allowed) -/
def SetConcept (t : Table) (A B : List Nat) : Prop :=
  (∀ g, g ∈ A ↔ (g < t.height ∧ ∀ a ∈ B, t.get g a = true)) ∧
  (∀ a, a ∈ B ↔ (a < t.width ∧ ∀ g ∈ A, t.get g a = true))


/-- lower covers in the order monotone concepts compare by (`c ≤ d` iff `extent d ⊆ extent c`):
    `j` is strictly below `i` iff `extent i ⊊ extent j`. -/
def monoLowerCovers (exts : List (List Nat)) (i : Nat) : List Nat := upperCovers exts i

/-- checker: `children[i]` (as a set) is the set of lower covers of `i`, for every `i`;
    `rev = true` for the monotone (reversed-inclusion) order. -/
def coverOK (rev : Bool) (exts : List (List Nat)) (children : List (List Nat)) : Bool :=
  children.length == exts.length &&
  (List.range exts.length).all fun i =>
    let want := if rev then monoLowerCovers exts i else lowerCovers exts i
    let got := children.getD i []
    got.all (want.contains ·) && want.all (got.contains ·)

/-- all elements strictly below `i` (strict sub-extents) within a list of extents -/
def strictDown (exts : List (List Nat)) (i : Nat) : List Nat :=
  (List.range exts.length).filter fun j => ssubset (exts.getD j []) (exts.getD i [])

/-- all elements strictly above `i` (strict super-extents) -/
def strictUp (exts : List (List Nat)) (i : Nat) : List Nat :=
  (List.range exts.length).filter fun j => ssubset (exts.getD i []) (exts.getD j [])

/-- checker: `rel[i]` (as a set) is `f exts i`, for every `i` -/
def relOK (f : List (List Nat) → Nat → List Nat) (exts : List (List Nat)) (rel : List (List Nat)) : Bool :=
  rel.length == exts.length &&
  (List.range exts.length).all fun i =>
    let want := f exts i
    let got := rel.getD i []
    got.all (want.contains ·) && want.all (got.contains ·)

/-- monotone concepts computed through the complemented table (cheap for large tables):
    `(G \ C, B)` for every concept `(C, B)` of the complement -/
def monoConceptsFast (t : Table) : List (List Nat × List Nat) :=
  (allConcepts (complement t)).map fun p => (compl t.height p.1, p.2)

/-- checker: two lists of pairs are equal as sets -/
def sameSet (xs ys : List (List Nat × List Nat)) : Bool :=
  xs.all (ys.contains ·) && ys.all (xs.contains ·)

end Fca.Spec

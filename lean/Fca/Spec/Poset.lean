/-
  Fca.Spec.Poset — what a poset query *means*: the answers computed directly from `leq` on the current
  element list (`Fresh`), independent of caches and history.
-/
import Fca.Model.Poset
namespace Fca.Poset.Fresh
open Fca Fca.Poset

section
variable {α : Type} [DecidableEq α] (leq : α → α → Bool)

/-- `E[i] ≤ E[j]` for in-range indexes (false otherwise) -/
def rel (E : List α) (i j : Nat) : Bool :=
  match E[i]?, E[j]? with
  | some x, some y => leq x y
  | _, _ => false

/-- `i` is on the `d` side of `k`, non-strictly -/
def relD (d : Dir) (E : List α) (i k : Nat) : Bool :=
  match d with
  | .desc => rel leq E i k
  | .anc => rel leq E k i

/-- strictly -/
def ltD (d : Dir) (E : List α) (i k : Nat) : Bool := relD leq d E i k && i != k

/-- strict down-set (`d = .desc`: descendants) / strict up-set (`d = .anc`: ancestors) of `k`, ascending -/
def closed (d : Dir) (E : List α) (k : Nat) : List Nat :=
  (List.range E.length).filter fun i => ltD leq d E i k

/-- `x` is a lower cover (`.desc`) / upper cover (`.anc`) of `k` -/
def isCover (d : Dir) (E : List α) (x k : Nat) : Bool :=
  ltD leq d E x k && (List.range E.length).all fun z => !(ltD leq d E x z && ltD leq d E z k)

/-- children / parents -/
def direct (d : Dir) (E : List α) (k : Nat) : List Nat :=
  (List.range E.length).filter fun x => isCover leq d E x k

/-- minimal (`.desc`: bottoms) / maximal (`.anc`: tops) elements, ascending -/
def extremes (d : Dir) (E : List α) : List Nat :=
  (List.range E.length).filter fun i => (closed leq d E i).isEmpty

/-- common lower (`.desc`) / upper (`.anc`) bounds of `S` -/
def bounds (d : Dir) (E : List α) (S : List Nat) : List Nat :=
  (List.range E.length).filter fun x => S.all fun y => x == y || ltD leq d E x y

/-- meet (`.desc`) / join (`.anc`) as the code defines it: the unique maximal lower (minimal upper) bound,
    `none` when there is none or several; the empty selection means all elements -/
def bound (d : Dir) (E : List α) (S : List Nat) : Option Nat :=
  let S' := if S.isEmpty then List.range E.length else S
  let B := bounds leq d E S'
  let Mx := B.filter fun x => B.all fun y => !(ltD leq d E x y)
  if Mx.length == 1 then Mx.head? else none

/-- element `i` of `E` has the same strict down-set in the poset over `O` -/
def eqAt (E O : List α) (i : Nat) : Bool :=
  match E[i]? with
  | none => true
  | some el =>
    match indexOf? el O with
    | none => false
    | some oi => setEq (closed leq .desc E i) (otherDescMapped leq O E oi)

/-- equality with another poset over `O` with the same comparison: same element set, and every element has
    the same strict down-set in both -/
def eqOther (E O : List α) : Bool :=
  (E.all (fun x => x ∈ O) && O.all (fun x => x ∈ E)) && (List.range E.length).all (eqAt leq E O)

/-- the element list after a mutation -/
def next (E : List α) : Op α → List α
  | .add e _ => if e ∈ E then E else E ++ [e]
  | .del i => E.eraseIdx i
  | .remove e =>
    match indexOf? e E with
    | some i => E.eraseIdx i
    | none => E
  | _ => E

/-- The answer of a freshly built poset over `E` to `op`.  Index arguments of queries are meant to be in range
    (`OpOk` in `Props/C09`); out of range a fresh poset raises `IndexError` (on a non-empty poset). -/
def answer (E : List α) : Op α → Out
  | .leq i j => if i < E.length ∧ j < E.length then .bool (rel leq E i j) else .err .IndexError
  | .closed d i => if i < E.length then .set (closed leq d E i) else .err .IndexError
  | .direct d i => if i < E.length then .set (direct leq d E i) else .err .IndexError
  | .extremes d => .list (extremes leq d E)
  | .bound d S =>
    if E.length = 0 then .err .IndexError
    else if S.all (fun i => i < E.length) then .optNat (bound leq d E S) else .err .IndexError
  | .index e =>
    match indexOf? e E with
    | some i => .nat i
    | none => .err .KeyError
  | .add _ _ => .unit
  | .del i => if i < E.length then .unit else .err .IndexError
  | .remove e =>
    match indexOf? e E with
    | some _ => .unit
    | none => .err .KeyError
  | .eqOther O => .bool (eqOther leq E O)
  | .fillUp _ => .unit

/-- The operations the property speaks about at a poset with elements `E`: index arguments of queries in range
    (negative / too large indexes are outside the documented API), `fill_up_*` only on a caching instance
    (it asserts `use_cache`).  Everything else - unknown elements, deleting out of range, duplicate `add`,
    `join`/`meet` of an empty poset - is covered: the error raised is part of the answer. -/
def opOk (E : List α) (useCache : Bool) : Op α → Bool
  | .leq i j => decide (i < E.length) && decide (j < E.length)
  | .closed _ i => decide (i < E.length)
  | .direct _ i => decide (i < E.length)
  | .bound _ S => S.all fun i => decide (i < E.length)
  | .fillUp _ => useCache
  | _ => true

/-- every operation of the history is `opOk` at the moment it is executed -/
def opsOk (E : List α) (useCache : Bool) : List (Op α) → Bool
  | [] => true
  | op :: ops => opOk E useCache op && opsOk (next E op) useCache ops

/-- executable check that every cache entry of `s` is the `Fresh` value for the current elements
    (sound by `Fca.C09.inv_of_check`); the driver runs it on the state built from a `children_dict` -/
def invCheck (s : St α) : Bool :=
  let E := s.elems
  let n := E.length
  (s.leqC.all fun p => decide (p.1.1 < n) && decide (p.1.2 < n) && (p.2 == rel leq E p.1.1 p.1.2)) &&
  ([Dir.desc, Dir.anc].all fun d =>
    ((s.closed d).all fun p => decide (p.1 < n) && decide p.2.Nodup && setEq p.2 (closed leq d E p.1)) &&
    ((s.direct d).all fun p => decide (p.1 < n) && decide p.2.Nodup && setEq p.2 (direct leq d E p.1)))

/-- the outputs of a history when every operation is answered by a fresh poset over the current elements -/
def runFresh (E : List α) : List (Op α) → List Out
  | [] => []
  | op :: ops => answer leq E op :: runFresh (next E op) ops

end
end Fca.Poset.Fresh

/-
  Fca.Spec.TraceMV — what "the lattice traced by `trace_context` is a lattice of GENUINE PATTERN CONCEPTS of a
  many-valued training context with interval columns" means (property C17, many-valued half).

  A pattern concept as the library derives it (`PatternConcept.from_objects`, the miners of C14):
    * its description is `MVContext.intention_i(extent)` = `{ps_i: ps.intention_i(extent)}` — one entry per
      pattern structure, in column order — where `IntervalPS.intention_i` is the interval hull of the extent
      (`None` for the empty extent); the per-column function is the C13 model `Fca.PS.pyIntentionI`
      (`IntervalNumpyPS` computes the same on every input: `Fca.PS.npIntentionI_eq_py`);
    * its extent is (as a set) `MVContext.extension_i(description)` in the training context.

  Everything here is decidable and executable (the driver re-checks `IsMVTraceLatticeOf` on every explored
  many-valued case).  No Mathlib.
-/
import Fca.Spec.Trace
import Fca.Model.PS
namespace Fca.Spec
open Fca

/-- a description of a many-valued context with interval columns: the dict `{ps_i: (lo, hi) | None}` in its
    iteration order -/
abbrev MVDesc := List (Nat × Option (Int × Int))

/-- every interval column has one cell per object (what `MVContext.__init__` builds from a rectangular table) -/
def MVWF (K : Trace.MVCtx) : Prop := ∀ c ∈ K.cols, c.length = K.nObjects

instance (K : Trace.MVCtx) : Decidable (MVWF K) := by unfold MVWF; infer_instance

/-- `{ps_i: ps.intention_i(object_indexes) for ps_i, ps in enumerate(pattern_structures)}` over the columns
    `cols`, numbered from `p`; the per-column function is `IntervalPS.intention_i` (C13 model, with its
    `IndexError`) -/
def mvIntLoop (objs : List Nat) : List (List (Int × Int)) → Nat → Except PyErr MVDesc
  | [], _ => .ok []
  | col :: cols, p =>
    match PS.pyIntentionI col objs with
    | .error e => .error e
    | .ok d =>
      match mvIntLoop objs cols (p + 1) with
      | .error e => .error e
      | .ok r => .ok ((p, d) :: r)

/-- `MVContext.intention_i(object_indexes)` on interval columns -/
def mvIntentionI (K : Trace.MVCtx) (objs : List Nat) : Except PyErr MVDesc := mvIntLoop objs K.cols 0

/-- `(extent, description)` is a genuine pattern concept of `KTrain`: the extent is a duplicate-free index list
    (in any order — the object-wise miner does not list extents ascending), the description is
    `intention_i(extent)` (per-column interval hull, `None` for the empty extent, one entry per column in column
    order) and the extent is, as a set, `extension_i(description)` -/
def IsPatternConcept (KTrain : Trace.MVCtx) (c : List Nat × MVDesc) : Prop :=
  c.1.Nodup ∧
  (match mvIntentionI KTrain c.1 with
   | .ok d => d = c.2
   | .error _ => False) ∧
  (∀ g ∈ c.1, g ∈ Trace.mvExtensionI KTrain c.2) ∧
  (∀ g ∈ Trace.mvExtensionI KTrain c.2, g ∈ c.1)

instance (KTrain : Trace.MVCtx) (c : List Nat × MVDesc) : Decidable (IsPatternConcept KTrain c) := by
  unfold IsPatternConcept
  cases mvIntentionI KTrain c.1 <;> infer_instance

/-- The lattice-as-data `L` read by `trace_context` is a list `cs` of genuine pattern concepts
    `(extent, description)` of the well-formed many-valued training context `KTrain` with interval columns
    (complete **or pruned** — any sub-list), with its TRUE cover relation inside that list (`children_dict[i]`
    lists the lower covers of `i` in any order, without repetition) and with `self.top` the greatest element of
    the list.  The many-valued analogue of `IsTraceLatticeOf`. -/
structure IsMVTraceLatticeOf (KTrain : Trace.MVCtx) (cs : List (List Nat × MVDesc)) (L : Trace.Lat) : Prop where
  wf : MVWF KTrain
  concepts : ∀ c ∈ cs, IsPatternConcept KTrain c
  size : L.children.length = cs.length
  covers : ∀ i, i < cs.length → (L.children.getD i []).Perm (lowerCovers (cs.map Prod.fst) i)
  top_lt : L.top < cs.length
  top_greatest : ∀ i, i < cs.length → i ≠ L.top →
    ssubset ((cs.map Prod.fst).getD i []) ((cs.map Prod.fst).getD L.top []) = true

instance (KTrain : Trace.MVCtx) (cs : List (List Nat × MVDesc)) (L : Trace.Lat) :
    Decidable (IsMVTraceLatticeOf KTrain cs L) :=
  if h : MVWF KTrain ∧ (∀ c ∈ cs, IsPatternConcept KTrain c) ∧ L.children.length = cs.length ∧
      (∀ i, i < cs.length → (L.children.getD i []).Perm (lowerCovers (cs.map Prod.fst) i)) ∧
      L.top < cs.length ∧
      (∀ i, i < cs.length → i ≠ L.top →
        ssubset ((cs.map Prod.fst).getD i []) ((cs.map Prod.fst).getD L.top []) = true)
  then isTrue ⟨h.1, h.2.1, h.2.2.1, h.2.2.2.1, h.2.2.2.2.1, h.2.2.2.2.2⟩
  else isFalse fun hh => h ⟨hh.wf, hh.concepts, hh.size, hh.covers, hh.top_lt, hh.top_greatest⟩

/-- the traced context `K` is a well-formed many-valued context over the same pattern structures as the
    training context (as many interval columns, one cell per object and column) whose objects all have a name —
    its rows need not occur in the training context -/
structure IsTracedMVCtx (KTrain K : Trace.MVCtx) : Prop where
  wf : MVWF K
  cols : K.cols.length = KTrain.cols.length
  names : K.objNames.length = K.nObjects

instance (KTrain K : Trace.MVCtx) : Decidable (IsTracedMVCtx KTrain K) :=
  if h : MVWF K ∧ K.cols.length = KTrain.cols.length ∧ K.objNames.length = K.nObjects
  then isTrue ⟨h.1, h.2.1, h.2.2⟩
  else isFalse fun hh => h ⟨hh.wf, hh.cols, hh.names⟩

/-- indexes of the pattern concepts whose description object `g` of the traced context satisfies, ascending -/
def mvDescribing (K : Trace.MVCtx) (intents : List MVDesc) (g : Nat) : List Nat :=
  (List.range intents.length).filter fun i => mvSatisfies K (intents.getD i []) g

/-- the minimal describing pattern concepts of object `g` (w.r.t. strict inclusion of the training extents) -/
def mvMinimalDescribing (K : Trace.MVCtx) (exts : List (List Nat)) (intents : List MVDesc) (g : Nat) : List Nat :=
  minimalOf exts (mvDescribing K intents g)

end Fca.Spec

/-
  Fca.Spec.LatticeQuery — what the lattice queries *mean* (extent inclusion), and the decidable
  checkers the driver applies to the implementation's own answers (C03, C04).  No Mathlib.
-/
import Fca.Spec.Concepts
namespace Fca.Spec

/-- indexes of the extents strictly contained in extent `i` -/
def strictSub (exts : List (List Nat)) (i : Nat) : List Nat :=
  (List.range exts.length).filter fun j => ssubset (exts.getD j []) (exts.getD i [])

/-- indexes of the extents strictly containing extent `i` -/
def strictSuper (exts : List (List Nat)) (i : Nat) : List Nat :=
  (List.range exts.length).filter fun j => ssubset (exts.getD i []) (exts.getD j [])


/-- members of `base` (in that order) lying in every list of `ls` -/
def interAll (base : List Nat) (ls : List (List Nat)) : List Nat :=
  base.filter fun g => ls.all fun l => l.contains g

/-- indexes whose set equals `target` (as sets of a duplicate-free list) -/
def indexesOf (sets : List (List Nat)) (target : List Nat) : List Nat :=
  (List.range sets.length).filter fun k =>
    let s := sets.getD k []
    subset s target && subset target s

/-- the hypothesis of the C03/C04 theorems, decidably: `cs` lists every concept of `t` exactly once -/
def isConceptList (t : Table) (cs : List (List Nat × List Nat)) : Bool := cs.isPerm (allConcepts t)

/-- the hypothesis of the pruned-lattice theorems, decidably: a duplicate-free list of concepts of `t` -/
def isConceptSub (t : Table) (cs : List (List Nat × List Nat)) : Bool :=
  decide cs.Nodup && cs.all fun c => isConcept t c.1 c.2

/-- supports never increase along the listing -/
def supportsNonIncreasing : List (List Nat × List Nat) → Bool
  | [] => true
  | [_] => true
  | a :: b :: rest => decide (b.1.length ≤ a.1.length) && supportsNonIncreasing (b :: rest)

/-- listing check of C03: non-increasing support, first extent = all objects,
    last extent = the objects having every attribute -/
def listingOk (t : Table) (cs : List (List Nat × List Nat)) : Bool :=
  supportsNonIncreasing cs &&
  (match cs.head? with | some c => c.1 == List.range t.height | none => false) &&
  (match cs.getLast? with | some c => c.1 == extAll t (List.range t.width) | none => false)

/-- consecutive elements of a chain are (parent, child) pairs of the cover relation -/
def chainSteps (exts : List (List Nat)) : List Nat → Bool
  | [] => true
  | [_] => true
  | p :: c :: rest => (lowerCovers exts p).contains c && chainSteps exts (c :: rest)

/-- chain-decomposition check of C03: every chain is non-empty, starts at an index whose extent is
    `topExt`, steps parent → child (lower cover), and the chains together cover all indexes -/
def chainsOk (exts : List (List Nat)) (topExt : List Nat) (chains : List (List Nat)) : Bool :=
  chains.all (fun ch =>
    (match ch.head? with | some h => decide (h < exts.length) && exts.getD h [] == topExt | none => false) &&
    chainSteps exts ch) &&
  (List.range exts.length).all fun i => chains.any fun ch => ch.contains i

/-- the nodes (below `k`) whose label contains `x` -/
def nodesOf (k : Nat) (labels : List (List Nat)) (x : Nat) : List Nat :=
  (List.range k).filter fun i => (labels.getD i []).contains x

/-- C04 checker: reconstruct the table from the labels and the ancestor sets.
    `newExt[i]` / `newInt[i]` = the reduced labels of node `i`; `anc[i]` = the nodes above node `i`.
    (`Fca.C04.holdsC04_iff`: it is true exactly when every object / attribute labels exactly one node and
    `table[g][a] ⇔ node(g) = node(a) ∨ node(a) ∈ anc[node(g)]`.) -/
def holdsC04 (t : Table) (newExt newInt anc : List (List Nat)) : Bool :=
  let k := newExt.length
  newInt.length == k && anc.length == k &&
  ((List.range t.height).all fun g => (nodesOf k newExt g).length == 1) &&
  ((List.range t.width).all fun a => (nodesOf k newInt a).length == 1) &&
  ((List.range k).all fun i => (newExt.getD i []).all (· < t.height) && (newInt.getD i []).all (· < t.width)) &&
  ((List.range t.height).all fun g => (List.range t.width).all fun a =>
    t.get g a == ((nodesOf k newExt g).headD 0 == (nodesOf k newInt a).headD 0 ||
      (anc.getD ((nodesOf k newExt g).headD 0) []).contains ((nodesOf k newInt a).headD 0)))

end Fca.Spec

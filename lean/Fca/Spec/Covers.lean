/-
  Fca.Spec.Covers — what "the subconcept relation of a list of concepts" *means*:
  for every index `i` the indexes `j` whose extent is strictly included in the extent of `i`
  with no listed extent strictly in between (the lower covers of `i` within the list).

  Independent of the code: plain set inclusion (no support shortcut, no sorting, no chains).
-/
namespace Fca.Spec

/-- `a ⊆ b` as sets -/
def sub (a b : List Nat) : Bool := a.all fun x => b.contains x

/-- `a ⊂ b` : strict inclusion of extents as sets -/
def ssub (a b : List Nat) : Bool := sub a b && !(sub b a)

/-- lower covers of index `i` for an arbitrary strict relation `lt j i` on indexes `< n` -/
def coversBy (n : Nat) (lt : Nat → Nat → Bool) (i : Nat) : List Nat :=
  (List.range n).filter fun j => lt j i && !((List.range n).any fun k => lt j k && lt k i)

/-- upper covers of index `i` -/
def upperCoversBy (n : Nat) (lt : Nat → Nat → Bool) (i : Nat) : List Nat :=
  (List.range n).filter fun j => lt i j && !((List.range n).any fun k => lt i k && lt k j)

/-- strict inclusion between the extents listed at indexes `j` and `i` -/
def ssubAt (cs : List (List Nat)) (j i : Nat) : Bool := ssub (cs.getD j []) (cs.getD i [])

/-- **lower covers** of concept `i` inside the list `cs` of extents (ascending index order) -/
def covers (cs : List (List Nat)) (i : Nat) : List Nat := coversBy cs.length (ssubAt cs) i

/-- **upper covers** of concept `i` inside the list -/
def upperCoversC (cs : List (List Nat)) (i : Nat) : List Nat := upperCoversBy cs.length (ssubAt cs) i

/-- the whole children dictionary `{i: covers i}` -/
def coversDict (cs : List (List Nat)) : List (List Nat) := (List.range cs.length).map (covers cs)

/-- the whole parents dictionary -/
def upperCoversDict (cs : List (List Nat)) : List (List Nat) := (List.range cs.length).map (upperCoversC cs)

/-- `t` is the index of the greatest listed concept -/
def IsTop (cs : List (List Nat)) (t : Nat) : Prop :=
  t < cs.length ∧ ∀ j, j < cs.length → j ≠ t → ssubAt cs j t = true

/-- `b` is the index of the least listed concept -/
def IsBottom (cs : List (List Nat)) (b : Nat) : Prop :=
  b < cs.length ∧ ∀ j, j < cs.length → j ≠ b → ssubAt cs b j = true

/-- decidable versions, for the driver -/
def isTopB (cs : List (List Nat)) (t : Nat) : Bool :=
  decide (t < cs.length) && (List.range cs.length).all fun j => j == t || ssubAt cs j t

def isBottomB (cs : List (List Nat)) (b : Nat) : Bool :=
  decide (b < cs.length) && (List.range cs.length).all fun j => j == b || ssubAt cs b j

/-- two duplicate-free lists denote the same set -/
def SameSetC (a b : List Nat) : Prop := ∀ x, x ∈ a ↔ x ∈ b

/-- parent function read off a `superconcepts_st_dict` (`[]` for the root, `{p}` otherwise) -/
def parentOf (supD : List (List Nat)) (c : Nat) : Option Nat :=
  match supD.getD c [] with
  | [p] => some p
  | _ => none

/-- The chain property of `_get_chains` on a spanning tree given by its parent function
    (`parent c = some p` for non-roots): every chain is non-empty, starts at `top`, every step goes
    from a node to one of its tree children, which is a strict subconcept, and the chains cover all
    indexes. -/
def chainStepsOK (lt : Nat → Nat → Bool) (parent : Nat → Option Nat) : List Nat → Bool
  | [] => true
  | [_] => true
  | p :: c :: rest => (parent c == some p) && lt c p && chainStepsOK lt parent (c :: rest)

def chainsOK (n : Nat) (lt : Nat → Nat → Bool) (parent : Nat → Option Nat) (top : Nat)
    (chains : List (List Nat)) : Bool :=
  chains.all (fun ch => ch.head? == some top && chainStepsOK lt parent ch && ch.all (· < n))
  && (List.range n).all fun i => chains.any fun ch => ch.contains i

end Fca.Spec

/-
  Fca.Spec.Trace — what tracing a context through a lattice *means* (independent of the worklist):
  the concepts whose intent an object satisfies, and the minimal ones among them with respect to the
  lattice order (inclusion of the training extents).  Executable: the driver judges the implementation's
  two dictionaries with these functions.  No Mathlib.
-/
import Fca.Spec.Concepts
import Fca.Model.Trace
namespace Fca.Spec
open Fca

/-- object `g` of the traced table has every attribute of the intent `B` -/
def satisfies (t₂ : Table) (B : List Nat) (g : Nat) : Bool := B.all fun a => t₂.get g a

/-- indexes of the concepts whose intent object `g` satisfies, ascending -/
def describing (t₂ : Table) (intents : List (List Nat)) (g : Nat) : List Nat :=
  (List.range intents.length).filter fun i => satisfies t₂ (intents.getD i []) g

/-- the minimal elements of a set `S` of concept indexes w.r.t. strict inclusion of the extents -/
def minimalOf (exts : List (List Nat)) (S : List Nat) : List Nat :=
  S.filter fun i => !(S.any fun d => ssubset (exts.getD d []) (exts.getD i []))

/-- the minimal describing concepts of object `g` -/
def minimalDescribing (t₂ : Table) (exts intents : List (List Nat)) (g : Nat) : List Nat :=
  minimalOf exts (describing t₂ intents g)

/-- The order data read by `trace_context` from a lattice whose elements have the (duplicate-free) extents
    `exts`: `children_dict[i]` lists the TRUE lower covers of `i` within the list (in any order, without
    repetition), and `self.top` is the greatest element. -/
structure IsOrderData (exts : List (List Nat)) (L : Trace.Lat) : Prop where
  nodup : ∀ i, i < exts.length → (exts.getD i []).Nodup
  size : L.children.length = exts.length
  covers : ∀ i, i < exts.length → (L.children.getD i []).Perm (lowerCovers exts i)
  top_lt : L.top < exts.length
  top_greatest : ∀ i, i < exts.length → i ≠ L.top →
    ssubset (exts.getD i []) (exts.getD L.top []) = true

instance (exts : List (List Nat)) (L : Trace.Lat) : Decidable (IsOrderData exts L) :=
  if h : (∀ i, i < exts.length → (exts.getD i []).Nodup) ∧ L.children.length = exts.length ∧
      (∀ i, i < exts.length → (L.children.getD i []).Perm (lowerCovers exts i)) ∧
      L.top < exts.length ∧
      (∀ i, i < exts.length → i ≠ L.top → ssubset (exts.getD i []) (exts.getD L.top []) = true)
  then isTrue ⟨h.1, h.2.1, h.2.2.1, h.2.2.2.1, h.2.2.2.2⟩
  else isFalse fun hh => h ⟨hh.nodup, hh.size, hh.covers, hh.top_lt, hh.top_greatest⟩

/-- satisfaction is inherited upward: a concept above another (larger extent) describes at least the
    objects of the traced context the lower one describes (`extOf c = context.extension_i(intent of c)`) -/
def Upward (exts : List (List Nat)) (extOf : Nat → List Nat) : Prop :=
  ∀ i j, i < exts.length → j < exts.length → (∀ x ∈ exts.getD j [], x ∈ exts.getD i []) →
    ∀ g ∈ extOf j, g ∈ extOf i

/-- The lattice-as-data `L` read by `trace_context` is a list `cs` of genuine concepts `(extent, intent)` of
    the training table (complete **or pruned** — any sub-list), with its TRUE cover relation inside that list
    (`children_dict[i]` lists the lower covers of `i` in any order, without repetition) and with `self.top`
    the greatest element of the list. -/
structure IsTraceLatticeOf (tTrain : Table) (cs : List (List Nat × List Nat)) (L : Trace.Lat) : Prop where
  concepts : ∀ c ∈ cs, isConcept tTrain c.1 c.2 = true
  size : L.children.length = cs.length
  covers : ∀ i, i < cs.length → (L.children.getD i []).Perm (lowerCovers (cs.map Prod.fst) i)
  top_lt : L.top < cs.length
  top_greatest : ∀ i, i < cs.length → i ≠ L.top →
    ssubset ((cs.map Prod.fst).getD i []) ((cs.map Prod.fst).getD L.top []) = true

instance (tTrain : Table) (cs : List (List Nat × List Nat)) (L : Trace.Lat) :
    Decidable (IsTraceLatticeOf tTrain cs L) :=
  if h : (∀ c ∈ cs, isConcept tTrain c.1 c.2 = true) ∧ L.children.length = cs.length ∧
      (∀ i, i < cs.length → (L.children.getD i []).Perm (lowerCovers (cs.map Prod.fst) i)) ∧
      L.top < cs.length ∧
      (∀ i, i < cs.length → i ≠ L.top →
        ssubset ((cs.map Prod.fst).getD i []) ((cs.map Prod.fst).getD L.top []) = true)
  then isTrue ⟨h.1, h.2.1, h.2.2.1, h.2.2.2.1, h.2.2.2.2⟩
  else isFalse fun hh => h ⟨hh.concepts, hh.size, hh.covers, hh.top_lt, hh.top_greatest⟩

/-- object `g` of a many-valued context with interval columns falls into every interval of the description
    (`None` is satisfied by nothing) -/
def mvSatisfies (K : Trace.MVCtx) (desc : List (Nat × Option (Int × Int))) (g : Nat) : Bool :=
  decide (g < K.nObjects) && desc.all fun pd =>
    match pd.2, (K.cols.getD pd.1 [])[g]? with
    | some (lo, hi), some (a, b) => decide (lo ≤ a) && decide (b ≤ hi)
    | _, _ => false

/-- decidable form of `Upward` for a context with `nObj` objects -/
def upwardB (exts : List (List Nat)) (extOf : Nat → List Nat) (nObj : Nat) : Bool :=
  (List.range exts.length).all fun i => (List.range exts.length).all fun j =>
    !(subset (exts.getD j []) (exts.getD i [])) ||
      (List.range nObj).all fun g => !((extOf j).contains g) || (extOf i).contains g

/-- the dictionary key of object `g`: its index or its name -/
def keyOf (useIdx : Bool) (names : List String) (g : Nat) : Trace.Key :=
  if useIdx then Trace.Key.idx g else Trace.Key.name (names.getD g "")

end Fca.Spec

/-
  Fca.Spec.Concept — what "falls into a description" means for an interval pattern structure
  (used to state the closure computed by `PatternConcept.from_objects` on all-`IntervalPS` contexts).
-/
import Fca.Model.Concept
namespace Fca.Interval

/-- object `g` falls into description `d` of column `col`: its interval lies inside `d`
    (`None`, the description of the empty object set, describes nothing) -/
def inside (col : Col) (d : Option Iv) (g : Nat) : Bool :=
  match d with
  | none => false
  | some (mn, mx) => decide (mn ≤ (col.getD g (0, 0)).1) && decide ((col.getD g (0, 0)).2 ≤ mx)

end Fca.Interval

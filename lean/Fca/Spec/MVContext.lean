/-
  Fca.Spec.MVContext — what the many-valued derivation operators *mean* (property C14):
  `covers`, the conjunctive extension, the closed object sets and the predicate `BottomOK`.
  No Mathlib (used by the driver as the oracle).
-/
import Fca.Model.MVContext
import Fca.Spec.Concepts
namespace Fca.MV

namespace Col

/-- object `g` of the column falls under description `d` -/
def covers : Col → DVal → Nat → Bool
  | interval d, .ival (some (lo, hi)), g => ivIn (d.getD g (0, 0)) lo hi
  | interval _, .ival none, _ => false
  | set d, .sval (some s), g => (d.getD g []).all fun x => s.contains x
  | set _, .sval none, _ => false
  | attr d, .bval b, g => !b || d.getD g false
  | _, _, _ => false

/-- the description has the shape the column's structure works with -/
def typed : Col → DVal → Bool
  | interval _, .ival _ => true
  | set _, .sval _ => true
  | attr _, .bval _ => true
  | _, _ => false

end Col

namespace MVCtx

/-- every entry of the description names an existing column and has that column's shape -/
def WellTyped (K : MVCtx) (desc : Desc) : Prop :=
  ∀ p ∈ desc, ∃ c, K.cols[p.1]? = some c ∧ c.typed p.2 = true

instance (K : MVCtx) (desc : Desc) : Decidable (K.WellTyped desc) := by
  unfold WellTyped; infer_instance

/-- `g` falls under every entry of the description (conjunction over the columns named) -/
def coversAll (K : MVCtx) (desc : Desc) (g : Nat) : Bool :=
  desc.all fun p => match K.cols[p.1]? with
    | some c => c.covers p.2 g
    | none => false

/-- the objects of `base`, in that order, that every column's description covers -/
def extSpec (K : MVCtx) (desc : Desc) (base : List Nat) : List Nat := base.filter (K.coversAll desc)

/-- `A''`: the objects (ascending) covered by the common description of `A` -/
def clSpec (K : MVCtx) (A : List Nat) : List Nat := K.extSpec (K.intentionI A) (List.range K.nObjects)

/-- the extent of the bottom description: the least closed object set -/
def extBottom (K : MVCtx) : List Nat := K.extSpec K.bottomDesc (List.range K.nObjects)

/-- the closures of the non-empty object sets -/
def closedNE (K : MVCtx) : List (List Nat) :=
  (((Spec.sublists (List.range K.nObjects)).filter fun A => !A.isEmpty).map K.clSpec).eraseDups

/-- the closed object sets of the context: closures of non-empty sets plus the least one -/
def closedSets (K : MVCtx) : List (List Nat) := (K.extBottom :: K.closedNE).eraseDups

/-- `BottomOK K`: the closure of the empty object set *as the code computes it*
    (`extension_i(intention_i([]))`) is contained in every closed set. -/
def BottomOK (K : MVCtx) : Prop :=
  match K.cl [] with
  | .ok X => ∀ S ∈ K.closedSets, ∀ g ∈ X, g ∈ S
  | .error _ => False

instance (K : MVCtx) : Decidable K.BottomOK := by
  unfold BottomOK; split <;> infer_instance

/-- extents of the concepts of a boolean table, by brute force (`Spec.allConcepts`); for a wide table the
    enumeration runs over the object subsets (concepts of the transposed table are the swapped concepts:
    `Spec.isConcept_transpose`) -/
def closedOfTable (t : Table) : List (List Nat) :=
  if t.width ≤ t.height then (Spec.allConcepts t).map (·.1)
  else (Spec.allConcepts (Spec.transpose t)).map (·.2)

/-! ### what "the mined lattice is exact" means -/

/-- two index lists denote the same object set -/
def SetEqL (a b : List Nat) : Prop := ∀ g, g ∈ a ↔ g ∈ b

/-- The list of pattern concepts holds every closed object set of the context exactly once and nothing else;
    extents are duplicate-free in-range index lists (the object-wise path lists them in generation order, not
    ascending), and every concept carries `intention_i` of its extent, i.e. its most specific description. -/
structure ExactMV (K : MVCtx) (pcs : List PC) : Prop where
  wf : ∀ pc ∈ pcs, (∀ g ∈ pc.extent, g < K.nObjects) ∧ pc.extent.Nodup ∧ pc.intent = K.intentionI pc.extent
  distinct : pcs.Pairwise fun p q => ¬ SetEqL p.extent q.extent
  sound : ∀ pc ∈ pcs, ∃ S ∈ K.closedSets, SetEqL pc.extent S
  complete : ∀ S ∈ K.closedSets, ∃ pc ∈ pcs, SetEqL pc.extent S

end MVCtx

/-- two descriptions of one column say the same (sets compared as sets) -/
def DVal.Equiv : DVal → DVal → Prop
  | .ival a, .ival b => a = b
  | .sval none, .sval none => True
  | .sval (some a), .sval (some b) => ∀ x, x ∈ a ↔ x ∈ b
  | .bval a, .bval b => a = b
  | _, _ => False

/-- two descriptions have the same keys in the same order and equivalent values -/
def DescEquiv (d e : Desc) : Prop :=
  d.length = e.length ∧ ∀ p ∈ d.zip e, p.1.1 = p.2.1 ∧ p.1.2.Equiv p.2.2

end Fca.MV

/-
  Props/C14 — many-valued contexts: lattice and binarisation preserve the closure system.
  Only property theorems live here; helper lemmas are in `Fca/Lemmas/MVContext*.lean`.
-/
import Fca.Lemmas.MVContext
import Fca.Lemmas.MVBinarize
namespace Fca.C14
open Fca Fca.MV

/-- in-range index list -/
def InRange (xs : List Nat) (n : Nat) : Prop := ∀ x ∈ xs, x < n

instance (xs : List Nat) (n : Nat) : Decidable (InRange xs n) := by unfold InRange; infer_instance

/-- `extension_i(descriptions_i, base)` = the objects of the base (default: all objects, in context order)
    that the description of *every* named column covers, in the order of the base — whatever the
    iteration order of the dict, and although the loop stops early once nothing is left.  FULL. -/
theorem mv_ext_conjunctive (K : MVCtx) (desc : Desc) (base : Option (List Nat)) (hwt : K.WellTyped desc) :
    K.extensionI desc base = .ok ((base.getD (List.range K.nObjects)).filter fun g =>
      desc.all fun p => match K.cols[p.1]? with
        | some c => c.covers p.2 g
        | none => false) :=
  K.extensionI_eq desc base hwt

/-- `intention_i(A)` is a well-typed description with one entry per column, in column order, and
    `extension_i(intention_i(A))` is the set of objects covered by every column's own description of `A`. -/
theorem mv_int_columnwise (K : MVCtx) (A : List Nat) :
    K.WellTyped (K.intentionI A) ∧
    (K.intentionI A).map (·.1) = List.range K.cols.length ∧
    K.cl A = .ok ((List.range K.nObjects).filter fun g =>
      (K.intentionI A).all fun p => match K.cols[p.1]? with
        | some c => c.covers p.2 g
        | none => false) := by
  refine ⟨K.wellTyped_intentionI A, ?_, K.cl_eq A⟩
  unfold MVCtx.intentionI
  rw [List.map_map]
  have : ((fun p : Nat × DVal => p.1) ∘ fun ci : Col × Nat => (ci.2, ci.1.intentionI A)) = fun ci => ci.2 := rfl
  rw [this]
  rw [show (fun ci : Col × Nat => ci.2) = Prod.snd from rfl, List.zipIdx_map_snd, List.range_eq_range']

/-- closure laws: on a non-empty in-range object list `cl = extension_i ∘ intention_i` never raises, is
    extensive, monotone, idempotent, independent of the order of the list, and `intention_i(A)` is the most
    specific description covering `A` (every well-typed description covering `A` covers `cl A`).  FULL. -/
theorem mv_closure_laws (K : MVCtx) (A : List Nat) (hne : A ≠ []) (hA : InRange A K.nObjects) :
    ∃ X, K.cl A = .ok X ∧
      (∀ g ∈ A, g ∈ X) ∧
      (∀ B, (∀ g ∈ A, g ∈ B) → ∃ Y, K.cl B = .ok Y ∧ ∀ g ∈ X, g ∈ Y) ∧
      K.cl X = .ok X ∧
      (∀ B, B ≠ [] → (∀ g, g ∈ A ↔ g ∈ B) → K.cl B = .ok X) ∧
      (∀ desc, K.WellTyped desc → (∀ g ∈ A, K.coversAll desc g = true) → ∀ g ∈ X, K.coversAll desc g = true) := by
  refine ⟨K.clSpec A, K.cl_eq A, K.clSpec_extensive A hA, ?_, ?_, ?_, ?_⟩
  · intro B hAB
    exact ⟨K.clSpec B, K.cl_eq B, K.clSpec_mono A B hne hAB⟩
  · rw [K.cl_eq, K.clSpec_idem A hne hA]
  · intro B hB h
    rw [K.cl_eq, K.clSpec_congr A B hne hB h]
  · intro desc hwt hcov
    exact K.clSpec_least A hne desc hwt hcov

example : ∃ (K : MVCtx) (A : List Nat), A ≠ [] ∧ InRange A K.nObjects ∧ K.WF ∧ K.clSpec A = [0, 2] :=
  ⟨⟨[.interval [(0, 0), (1, 2), (0, 1)], .attr [true, false, true]], 3, ["a", "b", "c"]⟩, [2, 0],
   by decide, by decide, by decide, by decide⟩

/-! ## binarisation -/

/-- `binarize()` succeeds, keeps the object names, has one row per object, and its (well-formed) table is as
    wide as `n_bin_attrs` declares, which is the number of binary attributes `to_bin_attr_extents` produces.
    FULL (contexts with at least one object and one pattern structure). -/
theorem binarize_objects_and_width (K : MVCtx) (hwf : K.WF) (hn : 1 ≤ K.nObjects) (hc : K.cols ≠ []) :
    ∃ Kb, K.binarize = .ok Kb ∧ Kb.objNames = K.objNames ∧ Kb.table.height = K.nObjects ∧ Kb.table.WF ∧
      Kb.table.width = K.nBinAttrs ∧ K.nBinAttrs = K.binAttrExtents.length := by
  refine ⟨_, K.binarize_eq hc, rfl, K.binTable_height hwf hc, Spec.transpose_wf _, ?_, K.nBinAttrs_eq hwf hn⟩
  rw [K.nBinAttrs_eq hwf hn]; rfl

/-- the binarised context closes every non-empty object set exactly as the many-valued context does — so the
    two have the same non-empty closed object sets; its least closed set is the extent of the bottom
    description, which under `BottomOK` is what the code computes as the closure of the empty set.  FULL for
    the non-empty sets; the empty set needs `BottomOK` (finding D17, see `not_BottomOK_witness`). -/
theorem binarize_same_closed_sets (K : MVCtx) (hwf : K.WF) (hc : K.cols ≠ []) :
    ∃ Kb, K.binarize = .ok Kb ∧
      (∀ A, A ≠ [] → InRange A K.nObjects → K.cl A = .ok (Spec.closure Kb.table A)) ∧
      (∀ X, X ≠ [] → InRange X K.nObjects → (Spec.closure Kb.table X = X ↔ K.cl X = .ok X)) ∧
      Spec.closure Kb.table [] = K.extBottom ∧
      (K.BottomOK → K.cl [] = .ok (Spec.closure Kb.table [])) := by
  refine ⟨_, K.binarize_eq hc, ?_, ?_, K.closure_binTable_nil hwf hc, ?_⟩
  · intro A hA hr
    rw [K.cl_eq]; congr 1; exact (K.closure_binTable hwf hc A hA hr).symm
  · intro X hX hr
    rw [K.cl_eq]
    show Spec.closure K.binTable X = X ↔ _
    rw [K.closure_binTable hwf hc X hX hr]
    constructor
    · intro h; rw [h]
    · intro h; injection h
  · intro hb
    rw [K.cl_eq, K.clSpec_nil_of_bottomOK hb]; congr 1
    exact (K.closure_binTable_nil hwf hc).symm

/-! ## lattice level -/

/-- Lattice exactness, PARTIAL.  Hypotheses beyond the property: `BottomOK K` (finding D17) and `FcaExact`
    for the extents `exts` that CbO lists on the binarised table (property C02; not re-proved here).
    Conclusion: the last stage of both binarising shapes of `close_by_one` — `PatternConcept.from_objects` on
    each listed extent — never raises and returns pairwise different concepts whose extents are exactly the
    closed object sets of the many-valued context, each carrying `intention_i(extent)`.
    Missing for the full statement: (1) the completeness/soundness proof of the two worklist loops
    (`cboFbLoop` on the binarised table — C02's theorem — and `cboObjLoop` on descriptions, for which only the
    correspondence check and `not_BottomOK_witness` speak); (2) the cover relation is delegated to
    `order_extents_comparison` (caspailleur), modelled by its contract. -/
theorem mv_lattice_exact_partial (K : MVCtx) (hwf : K.WF) (hc : K.cols ≠ []) (hb : K.BottomOK)
    (exts : List (List Nat)) (hex : FcaExact K.binTable exts) :
    ∃ pcs, MVCtx.mapFromObjects K exts = .ok pcs ∧
      pcs.map (·.extent) = exts ∧ (pcs.map (·.extent)).Nodup ∧
      (∀ pc ∈ pcs, pc.intent = K.intentionI pc.extent ∧ K.cl pc.extent = .ok pc.extent) ∧
      (∀ S, S ∈ pcs.map (·.extent) ↔ S ∈ K.closedSets) := by
  have hfix : ∀ E ∈ exts, K.clSpec E = E := fun E hE => by
    obtain ⟨B, hB⟩ := (hex.2 E).mp hE
    exact (concept_extent_fix K hwf hc hb E B hB).1
  have hmap : (exts.map fun E => (⟨E, K.intentionI E⟩ : MVCtx.PC)).map (·.extent) = exts := by
    rw [List.map_map]
    exact List.map_id'' (fun _ => rfl) _
  refine ⟨_, mapFromObjects_fix K exts hfix, hmap, by rw [hmap]; exact hex.1, ?_, ?_⟩
  · intro pc hpc
    obtain ⟨E, hE, rfl⟩ := List.mem_map.mp hpc
    exact ⟨rfl, by rw [K.cl_eq, hfix E hE]⟩
  · intro S
    rw [hmap, hex.2 S]
    exact concept_extents_eq_closedSets K hwf hc hb S

example : ∃ (K : MVCtx) (exts : List (List Nat)), K.WF ∧ K.cols ≠ [] ∧ K.BottomOK ∧ FcaExact K.binTable exts ∧
    2 ≤ K.nObjects ∧ 2 ≤ K.cols.length :=
  ⟨⟨[.set [[0], [], [0, 1]], .attr [false, true, true]], 3, ["a", "b", "c"]⟩, _,
   by decide, by decide, by decide, fcaExact_allConcepts _, by decide, by decide⟩

/-- Path agreement, PARTIAL.  Under `BottomOK K`: whatever order and shape (objects ≤ / > binary attributes,
    i.e. CbO on the binarised context or on its transpose) the formal-context miner lists the concept
    extents of the binarised table in (`FcaExact`, property C02), the pattern concepts built from them are
    the same set, without repetition.
    Missing for the full statement: the object-wise path (`cboObjLoop`, CbO directly on descriptions) is
    not covered by a theorem — its agreement with the binarising path on the explored inputs is established
    by the correspondence check only, and `not_BottomOK_witness` shows it fails without `BottomOK`. -/
theorem paths_agree_partial (K : MVCtx) (hwf : K.WF) (hc : K.cols ≠ []) (hb : K.BottomOK)
    (e₁ e₂ : List (List Nat)) (h₁ : FcaExact K.binTable e₁) (h₂ : FcaExact K.binTable e₂) :
    ∃ p₁ p₂, MVCtx.mapFromObjects K e₁ = .ok p₁ ∧ MVCtx.mapFromObjects K e₂ = .ok p₂ ∧
      (∀ pc, pc ∈ p₁ ↔ pc ∈ p₂) ∧ (p₁.map (·.extent)).Nodup ∧ (p₂.map (·.extent)).Nodup := by
  obtain ⟨p₁, hp₁, hm₁, hn₁, hi₁, hs₁⟩ := mv_lattice_exact_partial K hwf hc hb e₁ h₁
  obtain ⟨p₂, hp₂, hm₂, hn₂, hi₂, hs₂⟩ := mv_lattice_exact_partial K hwf hc hb e₂ h₂
  refine ⟨p₁, p₂, hp₁, hp₂, ?_, hn₁, hn₂⟩
  have key : ∀ (p q : List MVCtx.PC),
      (∀ pc ∈ p, pc.intent = K.intentionI pc.extent ∧ K.cl pc.extent = .ok pc.extent) →
      (∀ S, S ∈ p.map (·.extent) ↔ S ∈ K.closedSets) →
      (∀ pc ∈ q, pc.intent = K.intentionI pc.extent ∧ K.cl pc.extent = .ok pc.extent) →
      (∀ S, S ∈ q.map (·.extent) ↔ S ∈ K.closedSets) → ∀ pc, pc ∈ p → pc ∈ q := by
    intro p q hip hsp hiq hsq pc hpc
    have : pc.extent ∈ q.map (·.extent) := (hsq _).mpr ((hsp _).mp (List.mem_map.mpr ⟨pc, hpc, rfl⟩))
    obtain ⟨pc', hpc', he⟩ := List.mem_map.mp this
    have e1 := (hip pc hpc).1
    have e2 := (hiq pc' hpc').1
    have : pc' = pc := by
      cases pc; cases pc'
      simp only at he e1 e2
      subst he
      simp only [MVCtx.PC.mk.injEq, true_and]
      rw [e1, e2]
    rw [← this]; exact hpc'
  intro pc
  exact ⟨key p₁ p₂ hi₁ hs₁ hi₂ hs₂ pc, key p₂ p₁ hi₂ hs₂ hi₁ hs₁ pc⟩

deriving instance DecidableEq for Except

/-- `MVContext([[False],[True]], {'a': AttributePS})` -/
def witness₁ : MVCtx := ⟨[.attr [false, true]], 2, ["0", "1"]⟩
/-- `MVContext([[False]], {'a': AttributePS})` -/
def witness₂ : MVCtx := ⟨[.attr [false]], 1, ["0"]⟩

/-- Without `BottomOK` the unrestricted statements fail *in the model* (and, by the correspondence check, in the
    implementation: finding D17, `AttributePS.intention_i([]) is False`):
    * `MVContext([[False],[True]], one AttributePS column)`: `{1}` is a closed object set, but the object-wise
      path (`n_projections_to_binarize = 0`) returns only the extent `{0,1}`;
    * `MVContext([[False]], one AttributePS column)`: the binarising path mines the extent `{0}` twice and
      `ConceptLattice.from_context` fails with `KeyError`. -/
theorem not_BottomOK_witness :
    (witness₁.WF ∧ ¬ witness₁.BottomOK ∧ [1] ∈ witness₁.closedSets ∧ witness₁.choosePath 0 = .objectwise ∧
       witness₁.latticeConcepts 0 50 = .ok [⟨[0, 1], [(0, .bval false)]⟩]) ∧
    (witness₂.WF ∧ ¬ witness₂.BottomOK ∧ witness₂.choosePath 1000 = .binDirect ∧
       witness₂.closeByOne 1000 50 = .ok [⟨[0], [(0, .bval false)]⟩, ⟨[0], [(0, .bval false)]⟩] ∧
       witness₂.latticeConcepts 1000 50 = .error .KeyError) := by
  decide

end Fca.C14
